//! C10 (sequential part): client-side aggregation conserves counts across flushes.
use nd::{cover, harnesses};

#[cfg(metrics_verif)]
mod imp {
    use metrics_exporter_dogstatsd::verif::{Counter, Gauge};
    use nd::cover;

    /// increment-only histories: the deltas add up to the increments, each delta is what was added since
    /// the previous flush, the update count is the number of updates since the previous flush.
    pub fn counter_increments() {
        let c = Counter::new();
        let mut since: u64 = 0;
        let mut ups: u64 = 0;
        let mut total_inc: u64 = 0;
        let mut total_delta: u64 = 0;
        for _ in 0..4 {
            if nd::any::<bool>() {
                let v: u64 = nd::any();
                c.increment(v);
                since = since.wrapping_add(v);
                total_inc = total_inc.wrapping_add(v);
                ups += 1;
            } else {
                let (d, u) = c.flush();
                assert!(d == since, "delta_is_what_was_added_since_previous_flush");
                assert!(u == ups, "update_count_is_updates_since_previous_flush");
                total_delta = total_delta.wrapping_add(d);
                since = 0;
                ups = 0;
            }
        }
        let (d, u) = c.flush();
        assert!(d == since && u == ups, "final_flush_takes_the_rest");
        total_delta = total_delta.wrapping_add(d);
        assert!(total_delta == total_inc, "deltas_sum_to_increments");
        let (d, u) = c.flush();
        assert!(d == 0 && u == 0, "idle_flush_is_zero");
        std::mem::forget(c);
    }

    /// absolute-only histories (non-decreasing values, as a monotonic source gives them):
    /// deltas add up to last - first, no delta exceeds what was added since the previous flush.
    pub fn counter_absolute() {
        let c = Counter::new();
        let mut first: Option<u64> = None;
        let mut last: u64 = 0;
        let mut last_flushed: u64 = 0;
        let mut total_delta: u64 = 0;
        for _ in 0..4 {
            if nd::any::<bool>() {
                let v: u64 = nd::any();
                nd::assume(v >= last);
                c.absolute(v);
                if first.is_none() {
                    first = Some(v);
                    last_flushed = v;
                }
                last = v;
            } else {
                let (d, _) = c.flush();
                assert!(d == last.wrapping_sub(last_flushed), "delta_is_growth_since_previous_flush");
                total_delta = total_delta.wrapping_add(d);
                last_flushed = last;
            }
        }
        let (d, _) = c.flush();
        total_delta = total_delta.wrapping_add(d);
        if let Some(f) = first {
            assert!(total_delta == last - f, "deltas_sum_to_last_minus_first");
        } else {
            assert!(total_delta == 0, "no_updates_no_delta");
        }
        cover!(first.is_some() && last > first.unwrap(), "growing absolute counter reachable");
        std::mem::forget(c);
    }

    fn same(a: f64, b: f64) -> bool {
        a.to_bits() == b.to_bits() || (a.is_nan() && b.is_nan())
    }

    pub fn gauge() {
        let g = Gauge::new();
        let mut model = 0.0f64;
        let mut ups = 0u64;
        for _ in 0..2 {
            let v = f64::from_bits(nd::any::<u64>());
            match nd::below(4) {
                0 => { g.set(v); model = v; ups += 1; }
                1 => { g.increment(v); model = model + v; ups += 1; }
                2 => { g.decrement(v); model = model - v; ups += 1; }
                _ => {
                    let (x, u) = g.flush();
                    assert!(same(x, model), "flush_sends_most_recent_value");
                    assert!(u == ups, "update_count_since_previous_flush");
                    ups = 0;
                }
            }
        }
        let (x, u) = g.flush();
        assert!(same(x, model) && u == ups, "final_flush_sends_most_recent_value");
        std::mem::forget(g);
    }
}
#[cfg(not(metrics_verif))]
mod imp {
    pub fn counter_increments() { panic!("built without --cfg metrics_verif") }
    pub fn counter_absolute() { panic!("built without --cfg metrics_verif") }
    pub fn gauge() { panic!("built without --cfg metrics_verif") }
}

harnesses! {
    #[cfg_attr(kani, kani::unwind(6))]
    fn c10_counter_increments() { imp::counter_increments() }
    #[cfg_attr(kani, kani::unwind(6))]
    fn c10_counter_absolute() { imp::counter_absolute() }
    #[cfg_attr(kani, kani::unwind(5))]
    fn c10_gauge() { imp::gauge() }
}

//! C09: DogStatsD payload writer. Needs --cfg metrics_verif (forwarding hook `verif::Writer`).
use nd::{cover, harnesses};

/// Number formatting is stubbed (under Kani only) by tables that agree with itoa/ryu on the
/// inputs the harnesses use, so that native replay with the real formatters sees the same bytes.
pub const INTS: [(u64, &str); 4] = [(0, "0"), (7, "7"), (42, "42"), (12345, "12345")];
pub const FLOATS: [(f64, &str); 4] = [(0.0, "0.0"), (1.0, "1.0"), (22.5, "22.5"), (333.25, "333.25")];

pub fn itoa_stub<'a, I: itoa::Integer>(_b: &'a mut itoa::Buffer, i: I) -> &'a str {
    let v: u64 = if std::mem::size_of::<I>() == 8 { unsafe { std::mem::transmute_copy(&i) } } else { 0 };
    let mut k = 0;
    while k < INTS.len() {
        if INTS[k].0 == v {
            return INTS[k].1;
        }
        k += 1;
    }
    panic!("itoa stub: value outside the table");
}
pub fn ryu_stub<'a, F: ryu::Float>(_b: &'a mut ryu::Buffer, f: F) -> &'a str {
    let v: f64 = if std::mem::size_of::<F>() == 8 { unsafe { std::mem::transmute_copy(&f) } } else { 0.0 };
    let mut k = 0;
    while k < FLOATS.len() {
        if FLOATS[k].0 == v {
            return FLOATS[k].1;
        }
        k += 1;
    }
    panic!("ryu stub: value outside the table");
}

#[cfg(metrics_verif)]
mod imp {
    use super::{FLOATS, INTS};
    use metrics::{Key, Label};
    use metrics_exporter_dogstatsd::verif::Writer;
    use nd::cover;

    pub const CAP: usize = 96;
    /// everything drained in one flush cycle, copied out
    pub struct Out {
        pub bytes: [u8; CAP],
        pub ends: [usize; 6],
        pub n: usize,
        pub len: usize,
    }
    pub fn drain(w: &mut Writer) -> Out {
        let mut o = Out { bytes: [0; CAP], ends: [0; 6], n: 0, len: 0 };
        let reported = w.drain(|p| {
            let mut i = 0;
            while i < p.len() {
                assert!(o.len < CAP, "harness: output buffer too small");
                o.bytes[o.len] = p[i];
                o.len += 1;
                i += 1;
            }
            assert!(o.n < 6, "harness: too many payloads");
            o.ends[o.n] = o.len;
            o.n += 1;
        });
        assert!(reported == o.n, "reported_payload_count_matches_yielded");
        o
    }

    fn starts_with(hay: &[u8], at: usize, needle: &[u8]) -> bool {
        if at + needle.len() > hay.len() {
            return false;
        }
        let mut i = 0;
        while i < needle.len() {
            if hay[at + i] != needle[i] {
                return false;
            }
            i += 1;
        }
        true
    }

    /// Checks one payload; returns how many values it carries. `vals` = the value strings still
    /// expected, in order; the payload must carry a non-empty prefix of them.
    pub fn check_payload(p: &[u8], lp: bool, max: usize, fullname: &[u8], ty: u8, trailer: &[u8], vals: &[&str]) -> usize {
        let body = if lp {
            assert!(p.len() >= 4, "length_prefix_present");
            let l = u32::from_le_bytes([p[0], p[1], p[2], p[3]]) as usize;
            assert!(l == p.len() - 4, "length_prefix_is_exact_body_length");
            &p[4..]
        } else {
            p
        };
        assert!(body.len() <= max, "payload_within_max_len");
        assert!(starts_with(body, 0, fullname), "payload_starts_with_prefixed_name");
        let mut at = fullname.len();
        let mut k = 0;
        while k < vals.len() && at < body.len() && body[at] == b':' {
            assert!(starts_with(body, at + 1, vals[k].as_bytes()), "values_in_input_order_at_roundtrip_precision");
            at += 1 + vals[k].len();
            k += 1;
        }
        assert!(k >= 1, "payload_carries_at_least_one_value");
        assert!(at + 2 <= body.len() && body[at] == b'|' && body[at + 1] == ty, "metric_type_follows_values");
        at += 2;
        assert!(starts_with(body, at, trailer), "trailer_rate_tags_timestamp");
        at += trailer.len();
        assert!(at == body.len(), "nothing_after_the_newline");
        assert!(trailer[trailer.len() - 1] == b'\n', "ends_with_newline");
        k
    }

    pub struct Cfg {
        pub lp: bool,
        pub max: usize,
        pub prefix: Option<&'static str>,
        pub gl: Vec<Label>,
    }
    /// everything concrete except the payload-size limit (symbolic in [lo, hi])
    pub fn any_cfg(lo: usize, hi: usize, flags: usize) -> Cfg {
        let max: usize = nd::any();
        nd::assume(max >= lo && max <= hi);
        let gl = if flags & 4 != 0 { vec![Label::from_static_parts("g", "")] } else { vec![] };
        Cfg { lp: flags & 1 != 0, max, prefix: if flags & 2 != 0 { Some("pp") } else { None }, gl }
    }

    fn build(parts: &[&[u8]]) -> ([u8; 48], usize) {
        let mut b = [0u8; 48];
        let mut n = 0;
        for p in parts {
            let mut i = 0;
            while i < p.len() {
                b[n] = p[i];
                n += 1;
                i += 1;
            }
        }
        (b, n)
    }

    static L1: [Label; 1] = [Label::from_static_parts("t", "v")];
    static KEYS: [(&str, &[Label], &str); 2] = [("a", &[], ""), ("bcdef", &L1, "t:v")];

    fn fullname(cfg: &Cfg, name: &str) -> ([u8; 48], usize) {
        match cfg.prefix {
            Some(p) => build(&[p.as_bytes(), b".", name.as_bytes()]),
            None => build(&[name.as_bytes()]),
        }
    }
    fn trailer(cfg: &Cfg, own_tags: &str, rate: Option<&str>, ts: Option<&str>) -> ([u8; 48], usize) {
        let g = !cfg.gl.is_empty();
        let o = !own_tags.is_empty();
        let r = rate.unwrap_or("");
        let t = ts.unwrap_or("");
        build(&[
            if rate.is_some() { b"|@" as &[u8] } else { b"" }, r.as_bytes(),
            if g || o { b"|#" as &[u8] } else { b"" }, if g { b"g" as &[u8] } else { b"" },
            if g && o { b"," as &[u8] } else { b"" }, own_tags.as_bytes(),
            if ts.is_some() { b"|T" as &[u8] } else { b"" }, t.as_bytes(), b"\n",
        ])
    }

    /// one write of a counter or gauge with symbolic key/value/timestamp; returns the expectation
    pub struct Exp {
        pub fullname: ([u8; 48], usize),
        pub ty: u8,
        pub trailer: ([u8; 48], usize),
        pub val: &'static str,
        pub written: bool,
    }
    pub fn write_scalar(w: &mut Writer, cfg: &Cfg, ki: usize, ts: Option<usize>, vi: usize, is_counter: bool) -> Exp {
        let (name, labels, tags) = KEYS[ki];
        let key = Key::from_static_labels(name, labels);
        let (pw, pd) = if is_counter {
            w.write_counter(&key, INTS[vi].0, ts.map(|t| INTS[t].0), cfg.prefix, &cfg.gl)
        } else {
            w.write_gauge(&key, FLOATS[vi].0, ts.map(|t| INTS[t].0), cfg.prefix, &cfg.gl)
        };
        assert!(pw + pd == 1 && (pw == 0 || pd == 0), "one_point_written_or_dropped");
        std::mem::forget(key);
        Exp {
            fullname: fullname(cfg, name),
            ty: if is_counter { b'c' } else { b'g' },
            trailer: trailer(cfg, tags, None, ts.map(|t| INTS[t].1)),
            val: if is_counter { INTS[vi].1 } else { FLOATS[vi].1 },
            written: pw == 1,
        }
    }
    fn check_scalar(e: &Exp, p: &[u8], cfg: &Cfg) {
        let n = check_payload(p, cfg.lp, cfg.max, &e.fullname.0[..e.fullname.1], e.ty, &e.trailer.0[..e.trailer.1], &[e.val]);
        assert!(n == 1, "scalar_payload_has_one_value");
    }
    fn fits(e: &Exp, cfg: &Cfg) -> bool {
        e.fullname.1 + 1 + e.val.len() + 2 + e.trailer.1 <= cfg.max
    }

    /// two scalar writes, a drain, a third write and a second drain (flush cycle), any of which may be rejected
    pub fn scalars(lo: usize, hi: usize, flags: usize) {
        let cfg = any_cfg(lo, hi, flags);
        let mut w = Writer::new(cfg.max, cfg.lp);
        // long metric first (rejected for small limits), then a short one; both concrete
        let e1 = write_scalar(&mut w, &cfg, 1, Some(3), 3, true);
        let e2 = write_scalar(&mut w, &cfg, 0, None, 1, false);
        if e1.written { assert!(fits(&e1, &cfg), "written_only_if_it_fits"); }
        if e2.written { assert!(fits(&e2, &cfg), "written_only_if_it_fits"); }
        let o = drain(&mut w);
        let expect_n = e1.written as usize + e2.written as usize;
        assert!(o.n == expect_n, "every_written_point_is_in_exactly_one_payload");
        let mut idx = 0;
        let mut start = 0;
        if e1.written {
            check_scalar(&e1, &o.bytes[start..o.ends[idx]], &cfg);
            start = o.ends[idx];
            idx += 1;
        }
        if e2.written {
            check_scalar(&e2, &o.bytes[start..o.ends[idx]], &cfg);
        }
        cover!(!e1.written && e2.written, "rejected then accepted reachable");
        // second flush cycle on the same writer
        let e3 = write_scalar(&mut w, &cfg, 0, Some(1), 2, true);
        let o2 = drain(&mut w);
        assert!(o2.n == e3.written as usize, "second_cycle_has_only_its_own_payloads");
        if e3.written {
            check_scalar(&e3, &o2.bytes[..o2.ends[0]], &cfg);
        }
        cover!(e1.written && e3.written && cfg.lp, "two framed cycles reachable");
        std::mem::forget((w, cfg));
    }

    /// histogram / distribution with 3 symbolic values, optional sample rate; then a scalar in the same cycle
    pub fn hist(lo: usize, hi: usize, flags: usize) {
        let cfg = any_cfg(lo, hi, flags);
        let mut w = Writer::new(cfg.max, cfg.lp);
        let ki = (flags >> 3) & 1;
        let (name, labels, tags) = KEYS[ki];
        let key = Key::from_static_labels(name, labels);
        let nv = 3;
        let vi = [1usize, 3, 2];      // "1.0", "333.25", "22.5": different lengths
        let vals = [FLOATS[vi[0]].0, FLOATS[vi[1]].0, FLOATS[vi[2]].0];
        let strs = [FLOATS[vi[0]].1, FLOATS[vi[1]].1, FLOATS[vi[2]].1];
        let rate = if flags & 16 != 0 { Some(1.0f64) } else { None };
        let dist: bool = flags & 32 != 0;
        let (pw, pd) = if dist {
            w.write_distribution(&key, &vals[..nv], rate, cfg.prefix, &cfg.gl)
        } else {
            w.write_histogram(&key, &vals[..nv], rate, cfg.prefix, &cfg.gl)
        };
        let after = write_scalar(&mut w, &cfg, 0, None, 1, true);
        let o = drain(&mut w);
        let fname = fullname(&cfg, name);
        let tr = trailer(&cfg, tags, rate.map(|_| "1.0"), None);
        let hist_payloads = o.n - after.written as usize;
        assert!(pw as usize == hist_payloads, "payloads_written_count_matches_yielded");
        // walk the payloads: values appear in input order; a skipped input must be counted as dropped
        let mut next = 0usize;
        let mut start = 0usize;
        let mut carried = 0usize;
        let mut i = 0;
        while i < hist_payloads {
            let p = &o.bytes[start..o.ends[i]];
            // inputs that are not the next carried value were dropped: find the first that matches
            let mut took = 0;
            while next < nv && took == 0 {
                let body_at = if cfg.lp { 4 } else { 0 } + fname.1;
                if p.len() > body_at + 1 && starts_with(p, body_at + 1, strs[next].as_bytes())
                    && (p[body_at + 1 + strs[next].len()] == b':' || p[body_at + 1 + strs[next].len()] == b'|') {
                    took = check_payload(p, cfg.lp, cfg.max, &fname.0[..fname.1], if dist { b'd' } else { b'h' }, &tr.0[..tr.1], &strs[next..nv]);
                } else {
                    next += 1;
                }
            }
            assert!(took >= 1, "payload_values_are_input_values_in_order");
            carried += took;
            next += took;
            start = o.ends[i];
            i += 1;
        }
        assert!(carried as u64 + pd == nv as u64, "every_point_in_exactly_one_payload_or_reported_dropped");
        if after.written {
            check_scalar(&after, &o.bytes[start..o.ends[hist_payloads]], &cfg);
        }
        cover!(hist_payloads >= 2, "value list split across payloads reachable");
        cover!(pd > 0 && pw > 0, "some dropped some written reachable");
        std::mem::forget((w, key, cfg));
    }
}
#[cfg(not(metrics_verif))]
mod imp {
    pub fn scalars(_a: usize, _b: usize, _f: usize) { panic!("built without --cfg metrics_verif") }
    pub fn hist(_a: usize, _b: usize, _f: usize) { panic!("built without --cfg metrics_verif") }
}

harnesses! {
    #[cfg_attr(kani, kani::unwind(49))]
    #[cfg_attr(kani, kani::stub(itoa::Buffer::format, itoa_stub))]
    #[cfg_attr(kani, kani::stub(ryu::Buffer::format, ryu_stub))]
    fn c09_scalars_f0() { imp::scalars(0, 40, 0) }
    #[cfg_attr(kani, kani::unwind(49))]
    #[cfg_attr(kani, kani::stub(itoa::Buffer::format, itoa_stub))]
    #[cfg_attr(kani, kani::stub(ryu::Buffer::format, ryu_stub))]
    fn c09_scalars_f1() { imp::scalars(0, 40, 1) }
    #[cfg_attr(kani, kani::unwind(49))]
    #[cfg_attr(kani, kani::stub(itoa::Buffer::format, itoa_stub))]
    #[cfg_attr(kani, kani::stub(ryu::Buffer::format, ryu_stub))]
    fn c09_scalars_f2() { imp::scalars(0, 40, 2) }
    #[cfg_attr(kani, kani::unwind(49))]
    #[cfg_attr(kani, kani::stub(itoa::Buffer::format, itoa_stub))]
    #[cfg_attr(kani, kani::stub(ryu::Buffer::format, ryu_stub))]
    fn c09_scalars_f3() { imp::scalars(0, 40, 3) }
    #[cfg_attr(kani, kani::unwind(49))]
    #[cfg_attr(kani, kani::stub(itoa::Buffer::format, itoa_stub))]
    #[cfg_attr(kani, kani::stub(ryu::Buffer::format, ryu_stub))]
    fn c09_scalars_f4() { imp::scalars(0, 40, 4) }
    #[cfg_attr(kani, kani::unwind(49))]
    #[cfg_attr(kani, kani::stub(itoa::Buffer::format, itoa_stub))]
    #[cfg_attr(kani, kani::stub(ryu::Buffer::format, ryu_stub))]
    fn c09_scalars_f5() { imp::scalars(0, 40, 5) }
    #[cfg_attr(kani, kani::unwind(49))]
    #[cfg_attr(kani, kani::stub(itoa::Buffer::format, itoa_stub))]
    #[cfg_attr(kani, kani::stub(ryu::Buffer::format, ryu_stub))]
    fn c09_scalars_f6() { imp::scalars(0, 40, 6) }
    #[cfg_attr(kani, kani::unwind(49))]
    #[cfg_attr(kani, kani::stub(itoa::Buffer::format, itoa_stub))]
    #[cfg_attr(kani, kani::stub(ryu::Buffer::format, ryu_stub))]
    fn c09_scalars_f7() { imp::scalars(0, 40, 7) }
    #[cfg_attr(kani, kani::unwind(49))]
    #[cfg_attr(kani, kani::stub(itoa::Buffer::format, itoa_stub))]
    #[cfg_attr(kani, kani::stub(ryu::Buffer::format, ryu_stub))]
    fn c09_hist_f0() { imp::hist(0, 48, 0) }
    #[cfg_attr(kani, kani::unwind(49))]
    #[cfg_attr(kani, kani::stub(itoa::Buffer::format, itoa_stub))]
    #[cfg_attr(kani, kani::stub(ryu::Buffer::format, ryu_stub))]
    fn c09_hist_f1() { imp::hist(0, 48, 1) }
    #[cfg_attr(kani, kani::unwind(49))]
    #[cfg_attr(kani, kani::stub(itoa::Buffer::format, itoa_stub))]
    #[cfg_attr(kani, kani::stub(ryu::Buffer::format, ryu_stub))]
    fn c09_hist_f3() { imp::hist(0, 48, 3) }
    #[cfg_attr(kani, kani::unwind(49))]
    #[cfg_attr(kani, kani::stub(itoa::Buffer::format, itoa_stub))]
    #[cfg_attr(kani, kani::stub(ryu::Buffer::format, ryu_stub))]
    fn c09_hist_f7() { imp::hist(0, 48, 7) }
    #[cfg_attr(kani, kani::unwind(49))]
    #[cfg_attr(kani, kani::stub(itoa::Buffer::format, itoa_stub))]
    #[cfg_attr(kani, kani::stub(ryu::Buffer::format, ryu_stub))]
    fn c09_hist_f10() { imp::hist(0, 48, 10) }
    #[cfg_attr(kani, kani::unwind(49))]
    #[cfg_attr(kani, kani::stub(itoa::Buffer::format, itoa_stub))]
    #[cfg_attr(kani, kani::stub(ryu::Buffer::format, ryu_stub))]
    fn c09_hist_f15() { imp::hist(0, 48, 15) }
    #[cfg_attr(kani, kani::unwind(49))]
    #[cfg_attr(kani, kani::stub(itoa::Buffer::format, itoa_stub))]
    #[cfg_attr(kani, kani::stub(ryu::Buffer::format, ryu_stub))]
    fn c09_hist_f17() { imp::hist(0, 48, 17) }
    #[cfg_attr(kani, kani::unwind(49))]
    #[cfg_attr(kani, kani::stub(itoa::Buffer::format, itoa_stub))]
    #[cfg_attr(kani, kani::stub(ryu::Buffer::format, ryu_stub))]
    fn c09_hist_f35() { imp::hist(0, 48, 35) }
    #[cfg_attr(kani, kani::unwind(49))]
    #[cfg_attr(kani, kani::stub(itoa::Buffer::format, itoa_stub))]
    #[cfg_attr(kani, kani::stub(ryu::Buffer::format, ryu_stub))]
    fn c09_hist_f63() { imp::hist(0, 48, 63) }
}

#[cfg(not(kani))]
fn main() {
    nd::replay_main(vk_dsd::TABLES)
}
#[cfg(kani)]
fn main() {}

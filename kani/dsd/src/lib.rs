//! Kani proof harnesses over `metrics-exporter-dogstatsd` (needs --cfg metrics_verif for the forwarding hooks).
#![allow(dead_code, unused_imports, static_mut_refs)]
pub mod c09;
pub mod c10;
pub const TABLES: &[&[(&str, fn())]] = &[c09::TABLE, c10::TABLE];

//! Nondeterminism shim shared by all harness crates.
//!
//! Under `cargo kani` (`cfg(kani)`) `any()` is `kani::any()`: a solver unknown. In an ordinary
//! build the same harness function is an ordinary function whose `any()` calls pop the concrete
//! values of a solver counterexample (Kani's concrete-playback byte vectors, one per call, in call
//! order) — that is how a counterexample is replayed against the real code with the repository's
//! own toolchain, in the dev and release profiles.
#![allow(clippy::all)]

#[cfg(not(kani))]
mod native {
    use std::cell::RefCell;
    thread_local! { pub static VALS: RefCell<(Vec<Vec<u8>>, usize)> = RefCell::new((Vec::new(), 0)); }
    thread_local! { pub static RANDOM: std::cell::Cell<u64> = std::cell::Cell::new(0); }
    pub fn rnd() -> u64 {
        RANDOM.with(|r| {
            let mut x = r.get();
            x ^= x << 13;
            x ^= x >> 7;
            x ^= x << 17;
            r.set(x);
            x
        })
    }
    pub struct AssumeViolated(pub &'static str);
    pub fn pop(n: usize) -> Vec<u8> {
        if RANDOM.with(|r| r.get()) != 0 {
            // smoke-test mode (not evidence): small values are far more interesting than uniform ones
            let mode = rnd() % 4;
            let mut out = Vec::new();
            for i in 0..n {
                let b = (rnd() >> 24) as u8;
                out.push(match mode { 0 => if i == 0 { b % 8 } else { 0 }, 1 => b, 2 => if i == 0 { b } else { 0 }, _ => if b % 2 == 0 { 0 } else { 0xff } });
            }
            return out;
        }
        VALS.with(|v| {
            let mut v = v.borrow_mut();
            let i = v.1;
            v.1 += 1;
            match v.0.get(i) {
                Some(b) if b.len() == n => b.clone(),
                Some(b) => {
                    let mut b = b.clone();
                    b.resize(n, 0);
                    b
                }
                None => std::panic::panic_any(AssumeViolated("ran out of replay values")),
            }
        })
    }
}
#[cfg(not(kani))]
pub use native::AssumeViolated;

#[cfg(not(kani))]
pub fn load(vals: Vec<Vec<u8>>) {
    native::VALS.with(|v| *v.borrow_mut() = (vals, 0));
}

pub trait Nd: Sized {
    fn nd() -> Self;
}

macro_rules! prim {
    ($($t:ty, $n:expr);*) => {$(
        impl Nd for $t {
            #[cfg(kani)]
            fn nd() -> Self { kani::any() }
            #[cfg(not(kani))]
            fn nd() -> Self {
                let b = native::pop($n);
                let mut a = [0u8; $n];
                a.copy_from_slice(&b);
                <$t>::from_le_bytes(a)
            }
        }
    )*};
}
prim!(u8,1; u16,2; u32,4; u64,8; usize,8; i8,1; i16,2; i32,4; i64,8; isize,8; u128,16; i128,16; f64,8; f32,4);

impl Nd for bool {
    #[cfg(kani)]
    fn nd() -> Self { kani::any() }
    #[cfg(not(kani))]
    fn nd() -> Self { native::pop(1)[0] != 0 }
}

impl Nd for char {
    #[cfg(kani)]
    fn nd() -> Self { kani::any() }
    #[cfg(not(kani))]
    fn nd() -> Self {
        let b = native::pop(4);
        match char::from_u32(u32::from_le_bytes([b[0], b[1], b[2], b[3]])) {
            Some(c) => c,
            None => std::panic::panic_any(AssumeViolated("invalid char in replay")),
        }
    }
}

#[inline(always)]
pub fn any<T: Nd>() -> T {
    T::nd()
}

/// `x` with `x < n`.
#[inline(always)]
pub fn below(n: usize) -> usize {
    let x: usize = any();
    #[cfg(not(kani))]
    if native::RANDOM.with(|r| r.get()) != 0 {
        return x % n;
    }
    assume(x < n);
    x
}

#[inline(always)]
pub fn assume(c: bool) {
    #[cfg(kani)]
    kani::assume(c);
    #[cfg(not(kani))]
    if !c {
        std::panic::panic_any(AssumeViolated("assumption violated during replay"));
    }
}

#[macro_export]
macro_rules! cover {
    ($c:expr, $m:literal) => {{
        #[cfg(kani)]
        kani::cover!($c, $m);
        #[cfg(not(kani))]
        { let _ = $c; }
    }};
}

/// Defines proof harnesses that are also plain functions, plus a lookup table for native replay.
#[macro_export]
macro_rules! harnesses {
    ($( $(#[$m:meta])* fn $name:ident() $body:block )*) => {
        $( $(#[$m])* #[cfg_attr(kani, kani::proof)] pub fn $name() $body )*
        pub const TABLE: &[(&str, fn())] = &[ $( (stringify!($name), $name as fn()) ),* ];
    };
}

/// Native oracle for "every owned allocation is released exactly once, as it was allocated": the size of every block is kept in a
/// header; a dealloc / realloc whose layout does not match, or of a block that is not live, is recorded (CBMC reports these as failed
/// `rust_dealloc` / `free` checks; glibc would not notice).
#[cfg(not(kani))]
pub mod checkalloc {
    use std::alloc::{GlobalAlloc, Layout, System};
    use std::sync::atomic::{AtomicBool, Ordering};
    pub static MISMATCH: AtomicBool = AtomicBool::new(false);
    const MAGIC: usize = 0x5afe_a110c;
    const DEAD: usize = 0xdead_a110c;
    const HDR: usize = 32;
    pub struct CheckAlloc;
    unsafe impl GlobalAlloc for CheckAlloc {
        unsafe fn alloc(&self, l: Layout) -> *mut u8 {
            let align = l.align().max(16);
            let hdr = HDR.max(align);
            let p = System.alloc(Layout::from_size_align_unchecked(l.size() + hdr, align));
            if p.is_null() { return p; }
            let q = p.add(hdr);
            *(q.sub(8) as *mut usize) = l.size();
            *(q.sub(16) as *mut usize) = MAGIC;
            *(q.sub(24) as *mut usize) = l.align();
            q
        }
        unsafe fn dealloc(&self, q: *mut u8, l: Layout) {
            let magic = *(q.sub(16) as *mut usize);
            let size = *(q.sub(8) as *mut usize);
            let al = *(q.sub(24) as *mut usize);
            if magic != MAGIC || size != l.size() || al != l.align() {
                MISMATCH.store(true, Ordering::SeqCst);
                if magic != MAGIC { return; }          // not a live block of ours (double free / foreign pointer): leak it rather than corrupt the heap
            }
            *(q.sub(16) as *mut usize) = DEAD;
            let align = al.max(16);
            let hdr = HDR.max(align);
            System.dealloc(q.sub(hdr), Layout::from_size_align_unchecked(size + hdr, align));
        }
    }
}

/// Native replay driver: `replay <harness> <vals-file>`; vals-file has one hex string per line.
#[cfg(not(kani))]
pub fn replay_main(tables: &[&[(&str, fn())]]) -> ! {
    let args: Vec<String> = std::env::args().collect();
    if args.len() < 3 {
        eprintln!("usage: replay <harness> <vals-file>");
        std::process::exit(3);
    }
    let f = tables.iter().flat_map(|t| t.iter()).find(|(n, _)| *n == args[1]);
    let f = match f {
        Some((_, f)) => *f,
        None => {
            eprintln!("unknown harness {}", args[1]);
            std::process::exit(3);
        }
    };
    if args[2] == "--random" {
        // smoke test of the harness oracle on random inputs: `replay <harness> --random <runs> [seed]`
        let runs: u64 = args.get(3).and_then(|x| x.parse().ok()).unwrap_or(1000);
        let seed: u64 = args.get(4).and_then(|x| x.parse().ok()).unwrap_or(0x9e3779b97f4a7c15);
        std::panic::set_hook(Box::new(|_| {}));
        let (mut ok, mut skipped, mut failed) = (0u64, 0u64, 0u64);
        let mut first: Option<String> = None;
        for i in 0..runs {
            native::RANDOM.with(|r| r.set(seed.wrapping_add(i.wrapping_mul(0x2545F4914F6CDD1D)) | 1));
            match std::panic::catch_unwind(f) {
                Ok(()) => ok += 1,
                Err(e) => {
                    if e.downcast_ref::<AssumeViolated>().is_some() { skipped += 1; } else {
                        failed += 1;
                        if first.is_none() {
                            first = Some(e.downcast_ref::<&str>().map(|s| s.to_string()).or_else(|| e.downcast_ref::<String>().cloned()).unwrap_or_default());
                        }
                    }
                }
            }
        }
        let mismatch = checkalloc::MISMATCH.load(std::sync::atomic::Ordering::SeqCst);
        println!("RANDOM: ok={} assumption-skipped={} failed={} first_failure={:?} allocator_layout_mismatch={}", ok, skipped, failed, first, mismatch);
        std::process::exit(if failed > 0 || mismatch { 1 } else { 0 });
    }
    let txt = std::fs::read_to_string(&args[2]).expect("vals file");
    let mut vals = Vec::new();
    for l in txt.lines() {
        let l = l.trim();
        if l.starts_with('#') { continue; }
        let mut v = Vec::new();
        let b = l.as_bytes();
        let mut i = 0;
        while i + 1 < b.len() {
            v.push(u8::from_str_radix(&l[i..i + 2], 16).expect("hex"));
            i += 2;
        }
        vals.push(v);
    }
    load(vals);
    let r = std::panic::catch_unwind(f);
    #[cfg(not(kani))]
    if checkalloc::MISMATCH.load(std::sync::atomic::Ordering::SeqCst) {
        println!("REPLAY: an allocation was released with a layout that does not match its allocation, or twice (REPRODUCED: memory-safety check of the checking allocator)");
        std::process::exit(1);
    }
    match r {
        Ok(()) => {
            println!("REPLAY: harness returned normally (NOT reproduced)");
            std::process::exit(0);
        }
        Err(e) => {
            if let Some(a) = e.downcast_ref::<AssumeViolated>() {
                println!("REPLAY: {} (NOT reproduced)", a.0);
                std::process::exit(4);
            }
            let msg = if let Some(s) = e.downcast_ref::<&str>() {
                s.to_string()
            } else if let Some(s) = e.downcast_ref::<String>() {
                s.clone()
            } else {
                "panic".to_string()
            };
            println!("REPLAY: REPRODUCED panic: {}", msg);
            std::process::exit(1);
        }
    }
}

//! C12 (part): the generation counter of Generational<T> grows by exactly one per update, after it.
use metrics::{CounterFn, GaugeFn, HistogramFn};
use metrics_util::registry::{GenerationalAtomicStorage, GenerationalStorage, Storage};
use nd::{cover, harnesses};
use std::sync::atomic::{AtomicU64, AtomicUsize, Ordering::SeqCst};
use std::sync::Arc;

fn generational() {
    let st = GenerationalAtomicStorage::atomic();
    let key = metrics::Key::from_static_name("k");
    let c = <GenerationalAtomicStorage as Storage<metrics::Key>>::counter(&st, &key);
    let g = <GenerationalAtomicStorage as Storage<metrics::Key>>::gauge(&st, &key);
    let g0 = c.get_generation();
    assert!(g.get_generation() == g0, "fresh_generations_equal");
    let mut ups = 0usize;
    let mut model = 0u64;
    for _ in 0..3 {
        let v: u64 = nd::any();
        match nd::below(3) {
            0 => {
                let before = c.get_generation();
                CounterFn::increment(&c, v);
                model = model.wrapping_add(v);
                assert!(c.get_generation() != before, "every_update_changes_generation_even_if_value_unchanged");
                ups += 1;
            }
            1 => {
                let before = c.get_generation();
                CounterFn::absolute(&c, v);
                if v > model { model = v; }
                assert!(c.get_generation() != before, "every_update_changes_generation_even_if_value_unchanged");
                ups += 1;
            }
            _ => {
                let before = c.get_generation();
                let _ = c.get_inner().load(SeqCst);
                assert!(c.get_generation() == before, "reads_do_not_change_generation");
            }
        }
        assert!(c.get_inner().load(SeqCst) == model, "update_applied");
    }
    // generation is a pure function of the number of updates: two handles with the same number agree
    let c2 = <GenerationalAtomicStorage as Storage<metrics::Key>>::counter(&st, &key);
    let mut i = 0;
    while i < ups {
        CounterFn::increment(&c2, 0);
        i += 1;
    }
    assert!(c2.get_generation() == c.get_generation(), "generation_counts_updates");
    assert!(g.get_generation() == g0, "other_metric_generation_untouched");
    let gb = g.get_generation();
    GaugeFn::set(&g, 1.0);
    GaugeFn::increment(&g, 0.0);
    GaugeFn::decrement(&g, 0.0);
    assert!(g.get_generation() != gb, "gauge_updates_change_generation");
    cover!(ups == 3, "three updates reachable");
    std::mem::forget((c, c2, g));
}

harnesses! {
    #[cfg_attr(kani, kani::unwind(5))]
    fn c12_generational() { generational() }
}

//! C15 (part): bucketed histogram semantics of metrics_util::storage::Histogram.
use metrics_util::storage::Histogram;
use nd::{cover, harnesses};

fn any_f64() -> f64 {
    f64::from_bits(nd::any::<u64>())
}

fn ascending_bounds(n: usize) -> [f64; 3] {
    let b = [any_f64(), any_f64(), any_f64()];
    let mut i = 0;
    while i < n {
        nd::assume(!b[i].is_nan());
        if i > 0 {
            nd::assume(b[i - 1] < b[i]);
        }
        i += 1;
    }
    b
}

fn check_against_samples(h: &Histogram, bounds: &[f64], samples: &[f64]) {
    let bk = h.buckets();
    assert!(bk.len() == bounds.len(), "one_bucket_per_bound");
    let mut i = 0;
    let mut prev = 0u64;
    while i < bounds.len() {
        let mut expect = 0u64;
        let mut j = 0;
        while j < samples.len() {
            if samples[j] <= bounds[i] {
                expect += 1;
            }
            j += 1;
        }
        assert!(bk[i].0.to_bits() == bounds[i].to_bits(), "bound_preserved");
        assert!(bk[i].1 == expect, "bucket_counts_samples_le_bound");
        assert!(bk[i].1 >= prev, "buckets_monotone_across_bounds");
        assert!(bk[i].1 <= h.count(), "bucket_at_most_total_count");
        prev = bk[i].1;
        i += 1;
    }
    assert!(h.count() == samples.len() as u64, "count_is_number_of_samples");
}

/// record singly vs record_many in one batch: identical buckets and count, equal to the specification
fn batching(nb: usize, ns: usize) {
    let b = ascending_bounds(nb);
    let bounds = &b[..nb];
    let s = [any_f64(), any_f64(), any_f64()];
    let samples = &s[..ns];
    let mut single = Histogram::new(bounds).unwrap();
    for x in samples {
        single.record(*x);
    }
    check_against_samples(&single, bounds, samples);
    let mut batch = Histogram::new(bounds).unwrap();
    batch.record_many(samples);
    check_against_samples(&batch, bounds, samples);
    cover!(ns > 0 && samples[0].is_nan(), "NaN sample reachable");
    std::mem::forget((single, batch));
}

/// a batch followed by singles / a second batch at a symbolic split point: cumulative and never decreasing
fn split(nb: usize, ns: usize) {
    let b = ascending_bounds(nb);
    let bounds = &b[..nb];
    let s = [any_f64(), any_f64(), any_f64()];
    let samples = &s[..ns];
    let k = nd::below(ns + 1);
    let mut h = Histogram::new(bounds).unwrap();
    h.record_many(&samples[..k]);
    let before = h.buckets();
    if nd::any::<bool>() {
        h.record_many(&samples[k..]);
    } else {
        for x in &samples[k..] {
            h.record(*x);
        }
    }
    check_against_samples(&h, bounds, samples);
    let after = h.buckets();
    let mut i = 0;
    while i < nb {
        assert!(after[i].1 >= before[i].1, "buckets_never_decrease_over_time");
        i += 1;
    }
    std::mem::forget((h, before, after));
}

fn empty_bounds() {
    assert!(Histogram::new(&[]).is_none(), "empty_bounds_rejected");
}

harnesses! {
    #[cfg_attr(kani, kani::unwind(4))]
    fn c15_hist_1x2() { batching(1, 2) }
    #[cfg_attr(kani, kani::unwind(4))]
    fn c15_hist_2x2() { batching(2, 2) }
    #[cfg_attr(kani, kani::unwind(5))]
    fn c15_hist_3x2() { batching(3, 2) }
    #[cfg_attr(kani, kani::unwind(5))]
    fn c15_hist_2x3() { batching(2, 3) }
    #[cfg_attr(kani, kani::unwind(4))]
    fn c15_split_2x2() { split(2, 2) }
    #[cfg_attr(kani, kani::unwind(5))]
    fn c15_split_2x3() { split(2, 3) }
    #[cfg_attr(kani, kani::unwind(3))]
    fn c15_hist_empty_bounds() { empty_bounds() }
}

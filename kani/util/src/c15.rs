//! C15 (part): bucketed histogram semantics of metrics_util::storage::Histogram.
use metrics_util::storage::Histogram;
use nd::{cover, harnesses};

fn any_f64() -> f64 {
    f64::from_bits(nd::any::<u64>())
}

fn ascending_bounds(n: usize) -> [f64; 3] {
    let b = [any_f64(), any_f64(), any_f64()];
    let mut i = 0;
    while i < n {
        nd::assume(!b[i].is_nan());
        if i > 0 {
            nd::assume(b[i - 1] < b[i]);
        }
        i += 1;
    }
    b
}

fn check_against_samples(h: &Histogram, bounds: &[f64], samples: &[f64]) {
    let bk = h.buckets();
    assert!(bk.len() == bounds.len(), "one_bucket_per_bound");
    let mut i = 0;
    let mut prev = 0u64;
    while i < bounds.len() {
        let mut expect = 0u64;
        let mut j = 0;
        while j < samples.len() {
            if samples[j] <= bounds[i] {
                expect += 1;
            }
            j += 1;
        }
        assert!(bk[i].0.to_bits() == bounds[i].to_bits(), "bound_preserved");
        assert!(bk[i].1 == expect, "bucket_counts_samples_le_bound");
        assert!(bk[i].1 >= prev, "buckets_monotone_across_bounds");
        assert!(bk[i].1 <= h.count(), "bucket_at_most_total_count");
        prev = bk[i].1;
        i += 1;
    }
    assert!(h.count() == samples.len() as u64, "count_is_number_of_samples");
}

/// record singly vs record_many in one batch vs split batches: identical buckets and count
fn batching(nb: usize, ns: usize) {
    let b = ascending_bounds(nb);
    let bounds = &b[..nb];
    let s = [any_f64(), any_f64(), any_f64()];
    let samples = &s[..ns];
    let mut single = Histogram::new(bounds).unwrap();
    for x in samples {
        single.record(*x);
    }
    check_against_samples(&single, bounds, samples);
    let mut batch = Histogram::new(bounds).unwrap();
    batch.record_many(samples);
    check_against_samples(&batch, bounds, samples);
    // a symbolic split point, and singles mixed with a batch
    let k = nd::below(ns + 1);
    let mut split = Histogram::new(bounds).unwrap();
    split.record_many(&samples[..k]);
    let before: Vec<(f64, u64)> = split.buckets();
    if nd::any::<bool>() {
        split.record_many(&samples[k..]);
    } else {
        for x in &samples[k..] {
            split.record(*x);
        }
    }
    check_against_samples(&split, bounds, samples);
    let after = split.buckets();
    let mut i = 0;
    while i < nb {
        assert!(after[i].1 >= before[i].1, "buckets_never_decrease_over_time");
        i += 1;
    }
    cover!(ns > 0 && samples[0].is_nan(), "NaN sample reachable");
    cover!(ns > 0 && nb > 0 && samples[0] == bounds[0], "sample equal to a bound reachable");
    // sums: left-to-right float sum of what each call was given
    let mut sum = 0.0f64;
    for x in samples {
        sum += *x;
    }
    assert!(single.sum().to_bits() == sum.to_bits() || (single.sum().is_nan() && sum.is_nan()), "sum_of_singles_is_left_to_right_sum");
    std::mem::forget((single, batch, split, before, after));
}

fn empty_bounds() {
    assert!(Histogram::new(&[]).is_none(), "empty_bounds_rejected");
}

harnesses! {
    #[cfg_attr(kani, kani::unwind(5))]
    fn c15_hist_1x2() { batching(1, 2) }
    #[cfg_attr(kani, kani::unwind(5))]
    fn c15_hist_2x2() { batching(2, 2) }
    #[cfg_attr(kani, kani::unwind(5))]
    fn c15_hist_3x2() { batching(3, 2) }
    #[cfg_attr(kani, kani::unwind(5))]
    fn c15_hist_2x3() { batching(2, 3) }
    #[cfg_attr(kani, kani::unwind(5))]
    fn c15_hist_3x3() { batching(3, 3) }
    #[cfg_attr(kani, kani::unwind(3))]
    fn c15_hist_empty_bounds() { empty_bounds() }
}

//! Kani proof harnesses over `metrics-util` (engine E1 of /verif/DESIGN.md).
#![allow(dead_code, unused_imports, static_mut_refs)]
pub mod c12;
pub mod c13;
pub mod c15;
pub mod c16;
pub mod c20;
pub const TABLES: &[&[(&str, fn())]] = &[c12::TABLE, c13::TABLE, c15::TABLE, c16::TABLE, c20::TABLE];

/// One-byte string over {a, b}: fresh buffer, concrete pointer and length, symbolic content.
pub fn s1() -> &'static str {
    let b: u8 = if nd::any::<bool>() { b'a' } else { b'b' };
    let buf: &'static [u8; 1] = Box::leak(Box::new([b]));
    unsafe { std::str::from_utf8_unchecked(&buf[..]) }
}
/// String of symbolic length 0..=2 over {a, b, '.'}.
pub fn s02() -> &'static str {
    let buf: &'static mut [u8; 2] = Box::leak(Box::new([0u8; 2]));
    for i in 0..2 {
        buf[i] = [b'a', b'b', b'.'][nd::below(3)];
    }
    let l = nd::below(3);
    unsafe { std::str::from_utf8_unchecked(&buf[..l]) }
}

#[cfg(not(kani))]
fn main() {
    nd::replay_main(vk_util::TABLES)
}
#[cfg(kani)]
fn main() {}

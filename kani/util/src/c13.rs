//! C13 (part): prefix layer, fanout, stack composition.
use dbl::*;
use metrics::{Key, KeyName, Label, Level, Metadata, Recorder, SharedString, Unit};
use metrics_util::layers::{FanoutBuilder, Layer, PrefixLayer, Stack};
use nd::{cover, harnesses};

static MD: Metadata<'static> = Metadata::new("tgt", Level::WARN, Some("modp"));

fn any_unit() -> Option<Unit> {
    match nd::below(4) {
        0 => None,
        1 => Some(Unit::Count),
        2 => Some(Unit::Bytes),
        _ => Some(Unit::CountPerSecond),
    }
}

fn concat3(a: &str, b: &str, c: &str) -> S {
    let mut r = S::EMPTY;
    for s in [a, b, c] {
        for x in s.as_bytes() {
            r.b[r.n] = *x;
            r.n += 1;
        }
    }
    r
}

/// drive one symbolic operation through `r`; returns (op, name, nlabels, labels, unit, desc)
fn drive(r: &dyn Recorder, name: &'static str, nl: usize, ls: &[(&'static str, &'static str); 2], unit: Option<Unit>, op: usize) {
    let labels: Vec<Label> = ls[..nl].iter().map(|(k, v)| Label::from_static_parts(k, v)).collect();
    let leaked: &'static [Label] = Box::leak(labels.into_boxed_slice());
    let key = Key::from_static_labels(name, leaked);
    match op {
        0 => r.describe_counter(KeyName::from_const_str(name), unit, SharedString::const_str("d")),
        1 => r.describe_gauge(KeyName::from_const_str(name), unit, SharedString::const_str("d")),
        2 => r.describe_histogram(KeyName::from_const_str(name), unit, SharedString::const_str("d")),
        3 => {
            let c = r.register_counter(&key, &MD);
            c.increment(7);
            std::mem::forget(c);
        }
        4 => {
            let g = r.register_gauge(&key, &MD);
            g.set(2.5);
            std::mem::forget(g);
        }
        _ => {
            let h = r.register_histogram(&key, &MD);
            h.record(1.5);
            std::mem::forget(h);
        }
    }
    std::mem::forget(key);
}

#[cfg_attr(kani, allow(dead_code))]
fn check_event(e: &Ev, op: usize, name: S, nl: usize, ls: &[(&'static str, &'static str); 2], unit: Option<Unit>) {
    assert!(e.op as usize == op, "same_operation_forwarded");
    assert!(e.name == name, "name_is_prefix_dot_name");
    if op < 3 {
        assert!(e.unit == unit, "unit_unchanged");
        assert!(e.desc.is("d"), "description_unchanged");
    } else {
        assert!(e.nlabels == nl, "label_count_unchanged");
        let mut i = 0;
        while i < nl {
            assert!(e.labels[i].0.is(ls[i].0) && e.labels[i].1.is(ls[i].1), "labels_unchanged");
            i += 1;
        }
        assert!(e.level == 3 && e.target.is("tgt") && e.module == Some(S::of("modp")), "metadata_unchanged");
    }
}

fn prefix(op_lo: usize) {
    prefix_ops(op_lo, 3)
}

fn prefix_ops(op_lo: usize, nops: usize) {
    prefix_ops_nl(op_lo, nops, 2)
}

fn prefix_ops_nl(op_lo: usize, nops: usize, nl_fixed: usize) {
    reset();
    let pfx = crate::s1();
    let name = crate::s1();
    let nl = if op_lo == 0 { 0 } else if nl_fixed < 2 { nl_fixed } else { nd::below(2) };
    let ls = [(crate::s1(), crate::s1()), ("", "")];
    let unit = if op_lo == 0 { any_unit() } else { None };
    let op = if nops == 1 { op_lo } else { op_lo + nd::below(nops) };
    let layered = PrefixLayer::new(pfx).layer(Rec::new(1));
    drive(&layered, name, nl, &ls, unit, op);
    let expect_events = if op < 3 { 1 } else { 2 };
    assert!(nlog() == expect_events, "forwarded_exactly_once");
    check_event(&ev(0), op, concat3(pfx, ".", name), nl, &ls, unit);
    if op >= 3 {
        let e = ev(1);
        assert!(e.handle_of == 0 && e.op as usize == [OP_C_INCREMENT, OP_G_SET, OP_H_RECORD][op - 3] as usize, "handle_update_reaches_inner_handle");
        assert!(e.bits == [7u64, 2.5f64.to_bits(), 1.5f64.to_bits()][op - 3], "handle_update_value_unchanged");
    }

    std::mem::forget(layered);
}

fn fanout(width: usize, op_lo: usize) {
    fanout_nl(width, op_lo, 3, 2)
}

/// `nops == 1`: the operation is `op_lo`; `nl_fixed < 2`: the label count is concrete (a symbolic slice length makes CBMC's
/// allocation model explode: 17 s and 27 s for the two concrete counts against > 600 s for the symbolic choice)
fn fanout_nl(width: usize, op_lo: usize, nops: usize, nl_fixed: usize) {
    reset();
    let name = crate::s1();
    let nl = if op_lo == 0 { 0 } else if nl_fixed < 2 { nl_fixed } else { nd::below(2) };
    let ls = [(crate::s1(), crate::s1()), ("", "")];
    let unit = if op_lo == 0 { any_unit() } else { None };
    let op = if nops == 1 { op_lo } else { op_lo + nd::below(nops) };
    let mut b = FanoutBuilder::default();
    let mut i = 0;
    while i < width {
        b = b.add_recorder(Rec::new(i as u8 + 1));
        i += 1;
    }
    let f = b.build();
    drive(&f, name, nl, &ls, unit, op);
    // every inner recorder sees the operation exactly once, in order; each update reaches each inner handle once
    let per = if op < 3 { 1 } else { 2 };
    assert!(nlog() == width * per, "each_recorder_exactly_once");
    let mut i = 0;
    while i < width {
        let e = ev(i);
        assert!(e.rec as usize == i + 1, "fanout_reaches_every_recorder");
        check_event(&e, op, S::of(name), nl, &ls, unit);
        if op >= 3 {
            let u = ev(width + i);
            assert!(u.rec as usize == i + 1 && u.handle_of == i, "update_reaches_each_inner_handle_once");
            assert!(u.bits == [7u64, 2.5f64.to_bits(), 1.5f64.to_bits()][op - 3], "update_value_unchanged");
        }
        i += 1;
    }
    std::mem::forget(f);
}

fn fanout_updates() {
    reset();
    let key = Key::from_static_name("n");
    let f = FanoutBuilder::default().add_recorder(Rec::new(1)).add_recorder(Rec::new(2)).build();
    let v: u64 = nd::any();
    let x = f64::from_bits(nd::any::<u64>());
    let which = nd::below(6);
    let (expect_op, expect_bits) = match which {
        0 => { let c = f.register_counter(&key, &MD); c.increment(v); std::mem::forget(c); (OP_C_INCREMENT, v) }
        1 => { let c = f.register_counter(&key, &MD); c.absolute(v); std::mem::forget(c); (OP_C_ABSOLUTE, v) }
        2 => { let g = f.register_gauge(&key, &MD); g.increment(x); std::mem::forget(g); (OP_G_INCREMENT, x.to_bits()) }
        3 => { let g = f.register_gauge(&key, &MD); g.decrement(x); std::mem::forget(g); (OP_G_DECREMENT, x.to_bits()) }
        4 => { let g = f.register_gauge(&key, &MD); g.set(x); std::mem::forget(g); (OP_G_SET, x.to_bits()) }
        _ => { let h = f.register_histogram(&key, &MD); h.record(x); std::mem::forget(h); (OP_H_RECORD, x.to_bits()) }
    };
    assert!(nlog() == 4, "two_registers_two_updates");
    assert!(ev(2).op == expect_op && ev(3).op == expect_op, "same_update_kind_to_each");
    assert!(ev(2).bits == expect_bits && ev(3).bits == expect_bits, "same_value_to_each");
    assert!(ev(2).rec == 1 && ev(3).rec == 2, "each_inner_once");
    std::mem::forget(f);
}

/// Stack: `Stack::new(r).push(l1).push(l2)` is `l2.layer(l1.layer(r))` — the last pushed layer is outermost
fn stack() {
    reset();
    let p1 = crate::s1();
    let p2 = crate::s1();
    let name = crate::s1();
    let r = Stack::new(Rec::new(1)).push(PrefixLayer::new(p1)).push(PrefixLayer::new(p2));
    r.describe_counter(KeyName::from_const_str(name), None, SharedString::const_str("d"));
    assert!(nlog() == 1, "forwarded_exactly_once");
    let got_stack = ev(0).name;
    reset();
    let by_hand = PrefixLayer::new(p2).layer(PrefixLayer::new(p1).layer(Rec::new(1)));
    by_hand.describe_counter(KeyName::from_const_str(name), None, SharedString::const_str("d"));
    let got_hand = ev(0).name;
    assert!(got_stack == got_hand, "stack_is_composition_in_push_order");
    let mut expect = concat3(p1, ".", p2);
    let t = concat3(".", name, "");
    let mut i = 0;
    while i < t.n { expect.b[expect.n] = t.b[i]; expect.n += 1; i += 1; }
    assert!(got_stack == expect, "stack_outer_layer_applies_first");
    // a fanout below a prefix: both inner recorders get the prefixed name
    reset();
    let f = FanoutBuilder::default().add_recorder(Rec::new(1)).add_recorder(Rec::new(2)).build();
    let pf = Stack::new(f).push(PrefixLayer::new(p1));
    pf.describe_gauge(KeyName::from_const_str(name), None, SharedString::const_str("d"));
    assert!(nlog() == 2 && ev(0).rec == 1 && ev(1).rec == 2, "prefix_over_fanout_reaches_both");
    assert!(ev(0).name == concat3(p1, ".", name) && ev(1).name == concat3(p1, ".", name), "prefix_over_fanout_names");
    std::mem::forget((r, by_hand, pf));
}

harnesses! {
    #[cfg_attr(kani, kani::unwind(8))]
    fn c13_prefix_describe() { prefix(0) }
    #[cfg_attr(kani, kani::unwind(8))]
    fn c13_prefix_register_counter_0() { prefix_ops_nl(3, 1, 0) }
    #[cfg_attr(kani, kani::unwind(8))]
    fn c13_prefix_register_counter_1() { prefix_ops_nl(3, 1, 1) }
    #[cfg_attr(kani, kani::unwind(8))]
    fn c13_prefix_register_gauge_0() { prefix_ops_nl(4, 1, 0) }
    #[cfg_attr(kani, kani::unwind(8))]
    fn c13_prefix_register_gauge_1() { prefix_ops_nl(4, 1, 1) }
    #[cfg_attr(kani, kani::unwind(8))]
    fn c13_prefix_register_histogram_0() { prefix_ops_nl(5, 1, 0) }
    #[cfg_attr(kani, kani::unwind(8))]
    fn c13_prefix_register_histogram_1() { prefix_ops_nl(5, 1, 1) }
    #[cfg_attr(kani, kani::unwind(8))]
    fn c13_fanout_0() { fanout(0, nd::below(2) * 3) }
    #[cfg_attr(kani, kani::unwind(8))]
    fn c13_fanout_1_describe() { fanout(1, 0) }
    #[cfg_attr(kani, kani::unwind(8))]
    fn c13_fanout_2_describe() { fanout(2, 0) }
    #[cfg_attr(kani, kani::unwind(8))]
    fn c13_fanout_3_describe() { fanout(3, 0) }
    #[cfg_attr(kani, kani::unwind(8))]
    fn c13_fanout_1_register_counter_0() { fanout_nl(1, 3, 1, 0) }
    #[cfg_attr(kani, kani::unwind(8))]
    fn c13_fanout_1_register_gauge_1() { fanout_nl(1, 4, 1, 1) }
    #[cfg_attr(kani, kani::unwind(8))]
    fn c13_fanout_2_register_counter_1() { fanout_nl(2, 3, 1, 1) }
    #[cfg_attr(kani, kani::unwind(8))]
    fn c13_fanout_2_register_gauge_0() { fanout_nl(2, 4, 1, 0) }
    #[cfg_attr(kani, kani::unwind(8))]
    fn c13_fanout_2_register_histogram_1() { fanout_nl(2, 5, 1, 1) }
    #[cfg_attr(kani, kani::unwind(8))]
    fn c13_fanout_updates() { fanout_updates() }
    #[cfg_attr(kani, kani::unwind(8))]
    fn c13_stack() { stack() }
}

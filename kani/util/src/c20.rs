//! C20 (sequential part): recoverable recorder through the public API.
use dbl::*;
use metrics::{Key, KeyName, Level, Metadata, Recorder, SharedString};
use metrics_util::RecoverableRecorder;
use nd::{cover, harnesses};

static MD: Metadata<'static> = Metadata::new("tgt", Level::INFO, None);

fn emit(k: usize) {
    let key = Key::from_static_name("m");
    metrics::with_recorder(|r| match k {
        0 => r.describe_counter(KeyName::from_const_str("m"), None, SharedString::const_str("d")),
        1 => r.describe_gauge(KeyName::from_const_str("m"), None, SharedString::const_str("d")),
        2 => r.describe_histogram(KeyName::from_const_str("m"), None, SharedString::const_str("d")),
        3 => { let c = r.register_counter(&key, &MD); c.increment(1); std::mem::forget(c); }
        4 => { let g = r.register_gauge(&key, &MD); g.set(1.0); std::mem::forget(g); }
        _ => { let h = r.register_histogram(&key, &MD); h.record(1.0); std::mem::forget(h); }
    });
}

fn live_then_recovered(recover_by_drop: bool) {
    reset();
    let handle = match RecoverableRecorder::new(Rec::tracked(1)).install() {
        Ok(h) => h,
        Err(_) => { assert!(false, "install_succeeds_on_fresh_process"); return; }
    };
    let k1 = nd::below(6);
    emit(k1);
    let per = if k1 < 3 { 1 } else { 2 };
    assert!(nlog() == per, "live_emission_reaches_wrapped_recorder");
    assert!(ev(0).rec == 1 && ev(0).op as usize == k1, "right_operation_delivered");
    assert!(dropped(1) == 0, "not_dropped_while_handle_alive");
    if recover_by_drop {
        drop(handle);
        assert!(dropped(1) == 1, "dropped_exactly_once_on_handle_drop");
    } else {
        let r: Rec = handle.into_inner();
        assert!(r.id == 1 && dropped(1) == 0, "into_inner_returns_original_undropped");
        drop(r);
        assert!(dropped(1) == 1, "dropped_exactly_once");
    }
    let before = nlog();
    let k2 = nd::below(6);
    emit(k2); // would assert "call_into_dropped_recorder" inside the double if it reached it
    assert!(nlog() == before, "emission_after_recovery_is_ignored");
    assert!(dropped(1) == 1, "still_dropped_exactly_once");
}

fn install_fails_returns_original() {
    reset();
    assert!(metrics::set_global_recorder(Rec::new(2)).is_ok(), "first_global_install_ok");
    match RecoverableRecorder::new(Rec::tracked(1)).install() {
        Ok(_) => assert!(false, "second_install_must_fail"),
        Err(e) => {
            assert!(dropped(1) == 0, "rejected_recorder_not_dropped_by_library");
            let r: Rec = e.into_inner();
            assert!(r.id == 1, "rejected_recorder_handed_back_intact");
            drop(r);
            assert!(dropped(1) == 1, "caller_owns_it_dropped_once");
        }
    }
    emit(nd::below(6));
    assert!(nlog() >= 1 && ev(0).rec == 2, "existing_global_recorder_still_in_place");
}

harnesses! {
    #[cfg_attr(kani, kani::unwind(4))]
    fn c20_into_inner() { live_then_recovered(false) }
    #[cfg_attr(kani, kani::unwind(4))]
    fn c20_handle_drop() { live_then_recovered(true) }
    #[cfg_attr(kani, kani::unwind(4))]
    fn c20_install_fails() { install_fails_returns_original() }
}

//! C16: sampling reservoir (sequential part). Needs `--cfg metrics_verif` (RNG override hook).
use nd::{cover, harnesses};

#[cfg(metrics_verif)]
mod imp {
    use metrics_util::storage::reservoir::{verif_set_rng, AtomicSamplingReservoir};
    use nd::cover;

    static mut RNG_CALLS: usize = 0;
    static mut RNG_UPPER: usize = 0;
    static mut RNG_DRAW: usize = 0;

    fn rng(upper: usize) -> usize {
        unsafe {
            RNG_CALLS += 1;
            RNG_UPPER = upper;
            // rand's random_range panics on an empty range
            assert!(upper > 0, "rng_range_nonempty_push_never_panics");
            let d = nd::below(upper);
            RNG_DRAW = d;
            d
        }
    }

    /// one fill/drain cycle of `n` pushes against a model; returns nothing, asserts everything
    fn cycle(r: &AtomicSamplingReservoir, cap: usize, n: usize, tagbase: u64) {
        let mut model = [0u64; 3];
        let mut k = 0;
        while k < n {
            let v: u64 = tagbase + k as u64; // distinct tags; the reservoir stores raw bits
            unsafe { RNG_CALLS = 0 };
            r.push(f64::from_bits(v));
            let calls = unsafe { RNG_CALLS };
            if k < cap {
                assert!(calls == 0, "no_draw_while_filling");
                model[k] = v;
            } else {
                // Algorithm R step for the (k+1)-th item: uniform draw from k+1 values [0, k]
                assert!(calls == 1, "exactly_one_draw_per_push_beyond_capacity");
                assert!(unsafe { RNG_UPPER } == k + 1, "algorithm_r_draw_range_is_count_plus_one");
                let d = unsafe { RNG_DRAW };
                if d < cap {
                    model[d] = v;
                }
            }
            k += 1;
        }
        assert!(r.is_empty() == (n == 0), "is_empty_iff_nothing_pushed");
        let expect_len = if n < cap { n } else { cap };
        let mut seen = 0usize;
        let mut rate = 0.0f64;
        let mut ok = true;
        let mut rate_stable = true;
        r.consume(|mut drain| {
            rate = drain.sample_rate();
            let mut i = 0;
            // the rate describes the whole drain: asking again while or after iterating gives the same answer
            while let Some(x) = drain.next() {
                if i < 3 && x.to_bits() != model[i] {
                    ok = false;
                }
                i += 1;
                if drain.sample_rate().to_bits() != rate.to_bits() {
                    rate_stable = false;
                }
            }
            if drain.sample_rate().to_bits() != rate.to_bits() {
                rate_stable = false;
            }
            seen = i;
        });
        assert!(rate_stable, "sample_rate_does_not_change_while_the_drain_is_iterated");
        assert!(seen == expect_len, "yields_min_of_pushed_and_capacity");
        assert!(ok, "yields_exactly_the_retained_values_of_this_cycle");
        if n <= cap {
            assert!(rate == 1.0, "sample_rate_one_when_nothing_dropped");
        } else {
            assert!(rate == expect_len as f64 / n as f64, "sample_rate_is_yielded_over_pushed");
        }
    }

    /// a value pushed while a drain is in progress (here: by the closure that holds the drain) belongs to the next drain
    pub fn push_during_drain(cap: usize) {
        verif_set_rng(Some(rng));
        let r = AtomicSamplingReservoir::new(cap);
        let n1 = nd::below(cap + 1);
        let mut k = 0;
        while k < n1 {
            r.push(f64::from_bits(100 + k as u64));
            k += 1;
        }
        let mut first = 0usize;
        r.consume(|drain| {
            r.push(f64::from_bits(777));
            for _x in drain {
                first += 1;
            }
        });
        assert!(first == n1, "first_drain_yields_what_was_pushed_before_it");
        let mut second = 0usize;
        let mut got = 0u64;
        let mut rate = 0.0f64;
        r.consume(|drain| {
            rate = drain.sample_rate();
            for x in drain {
                second += 1;
                got = x.to_bits();
            }
        });
        if cap >= 1 {
            assert!(second == 1 && got == 777, "value_pushed_during_a_drain_is_yielded_by_the_next_drain");
            assert!(rate == 1.0, "sample_rate_one_when_nothing_dropped");
        }
        let mut third = 0usize;
        r.consume(|drain| {
            for _x in drain {
                third += 1;
            }
        });
        assert!(third == 0, "next_drain_starts_from_empty");
        cover!(n1 == 0, "push during an empty drain reachable");
        verif_set_rng(None);
        std::mem::forget(r);
    }

    pub fn run(cap: usize, maxn: usize) {
        verif_set_rng(Some(rng));
        let r = AtomicSamplingReservoir::new(cap);
        assert!(r.is_empty(), "new_is_empty");
        let n1 = nd::below(maxn + 1);
        cycle(&r, cap, n1, 100);
        assert!(r.is_empty(), "empty_after_drain");
        let n2 = nd::below(maxn + 1);
        cycle(&r, cap, n2, 200);
        // third cycle lands on the first side again: nothing of cycle 1 may be left
        let n3 = nd::below(3);
        cycle(&r, cap, n3, 300);
        cover!(n1 > cap && n2 > cap, "overfull cycles reachable");
        verif_set_rng(None);
        std::mem::forget(r);
    }
}
#[cfg(not(metrics_verif))]
mod imp {
    pub fn run(_c: usize, _n: usize) {
        panic!("built without --cfg metrics_verif");
    }
    pub fn push_during_drain(_c: usize) {
        panic!("built without --cfg metrics_verif");
    }
}

harnesses! {
    #[cfg_attr(kani, kani::unwind(6))]
    fn c16_cap0() { imp::run(0, 2) }
    #[cfg_attr(kani, kani::unwind(6))]
    fn c16_cap1() { imp::run(1, 3) }
    #[cfg_attr(kani, kani::unwind(7))]
    fn c16_cap2() { imp::run(2, 4) }
    #[cfg_attr(kani, kani::unwind(5))]
    fn c16_push_during_drain_cap1() { imp::push_during_drain(1) }
    #[cfg_attr(kani, kani::unwind(6))]
    fn c16_push_during_drain_cap2() { imp::push_during_drain(2) }
}

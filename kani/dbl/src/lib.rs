//! Recording recorder doubles shared by the harness crates. Single-threaded use only (the
//! harnesses are sequential); the log is a global fixed-size array so that it is cheap to model.
#![allow(static_mut_refs)]
use metrics::{Counter, CounterFn, Gauge, GaugeFn, Histogram, HistogramFn, Key, KeyName, Metadata, Recorder, SharedString, Unit};
use std::sync::Arc;

pub const OP_DESCRIBE_COUNTER: u8 = 0;
pub const OP_DESCRIBE_GAUGE: u8 = 1;
pub const OP_DESCRIBE_HISTOGRAM: u8 = 2;
pub const OP_REGISTER_COUNTER: u8 = 3;
pub const OP_REGISTER_GAUGE: u8 = 4;
pub const OP_REGISTER_HISTOGRAM: u8 = 5;
pub const OP_C_INCREMENT: u8 = 6;
pub const OP_C_ABSOLUTE: u8 = 7;
pub const OP_G_INCREMENT: u8 = 8;
pub const OP_G_DECREMENT: u8 = 9;
pub const OP_G_SET: u8 = 10;
pub const OP_H_RECORD: u8 = 11;

pub const SMAX: usize = 6;
/// a short string copied by value
#[derive(Clone, Copy, PartialEq, Eq, Debug)]
pub struct S {
    pub b: [u8; SMAX],
    pub n: usize,
}
impl S {
    pub const EMPTY: S = S { b: [0; SMAX], n: 0 };
    pub fn of(s: &str) -> S {
        let mut r = S::EMPTY;
        let bytes = s.as_bytes();
        assert!(bytes.len() <= SMAX, "double: string too long for the log");
        let mut i = 0;
        while i < bytes.len() {
            r.b[i] = bytes[i];
            i += 1;
        }
        r.n = bytes.len();
        r
    }
    pub fn is(&self, s: &str) -> bool {
        *self == S::of(s)
    }
}

#[derive(Clone, Copy, PartialEq, Debug)]
pub struct Ev {
    pub rec: u8,
    pub op: u8,
    pub name: S,
    pub nlabels: usize,
    pub labels: [(S, S); 2],
    pub unit: Option<Unit>,
    pub desc: S,
    pub level: u8,
    pub target: S,
    pub module: Option<S>,
    pub bits: u64,
    /// for handle operations: index of the register event that produced the handle
    pub handle_of: usize,
}
impl Ev {
    pub const ZERO: Ev = Ev {
        rec: 0, op: 0, name: S::EMPTY, nlabels: 0, labels: [(S::EMPTY, S::EMPTY); 2], unit: None, desc: S::EMPTY,
        level: 0, target: S::EMPTY, module: None, bits: 0, handle_of: 0,
    };
}

pub const LOGMAX: usize = 8;
pub static mut LOG: [Ev; LOGMAX] = [Ev::ZERO; LOGMAX];
pub static mut NLOG: usize = 0;
/// recorders whose installing borrow has ended (bit i) — a call on one of them is a use after scope
pub static mut OUT_OF_SCOPE: u32 = 0;
pub static mut DROPPED: [u8; 8] = [0; 8];

pub fn reset() {
    unsafe {
        NLOG = 0;
        OUT_OF_SCOPE = 0;
        DROPPED = [0; 8];
    }
}
pub fn nlog() -> usize {
    unsafe { NLOG }
}
pub fn ev(i: usize) -> Ev {
    unsafe { LOG[i] }
}
pub fn end_scope(rec: u8) {
    unsafe { OUT_OF_SCOPE |= 1 << rec }
}
pub fn dropped(rec: u8) -> u8 {
    unsafe { DROPPED[rec as usize] }
}
fn push(e: Ev) -> usize {
    unsafe {
        assert!(OUT_OF_SCOPE & (1 << e.rec) == 0, "dispatch_to_recorder_after_its_scope_ended");
        assert!(DROPPED[e.rec as usize] == 0, "call_into_dropped_recorder");
        assert!(NLOG < LOGMAX, "double: log full");
        LOG[NLOG] = e;
        NLOG += 1;
        NLOG - 1
    }
}

fn level_u8(l: &metrics::Level) -> u8 {
    if *l == metrics::Level::TRACE { 0 } else if *l == metrics::Level::DEBUG { 1 } else if *l == metrics::Level::INFO { 2 }
    else if *l == metrics::Level::WARN { 3 } else { 4 }
}

/// Recording recorder. `track_drop`: count drops in DROPPED[id].
#[derive(Debug)]
pub struct Rec {
    pub id: u8,
    pub track_drop: bool,
}
impl Rec {
    pub const fn new(id: u8) -> Rec {
        Rec { id, track_drop: false }
    }
    pub const fn tracked(id: u8) -> Rec {
        Rec { id, track_drop: true }
    }
    fn describe(&self, op: u8, key: KeyName, unit: Option<Unit>, description: SharedString) {
        let mut e = Ev::ZERO;
        e.rec = self.id;
        e.op = op;
        e.name = S::of(key.as_str());
        e.unit = unit;
        e.desc = S::of(&description);
        push(e);
    }
    fn register(&self, op: u8, key: &Key, md: &Metadata<'_>) -> usize {
        let mut e = Ev::ZERO;
        e.rec = self.id;
        e.op = op;
        e.name = S::of(key.name());
        let mut n = 0;
        for l in key.labels() {
            assert!(n < 2, "double: too many labels for the log");
            e.labels[n] = (S::of(l.key()), S::of(l.value()));
            n += 1;
        }
        e.nlabels = n;
        e.level = level_u8(md.level());
        e.target = S::of(md.target());
        e.module = md.module_path().map(S::of);
        push(e)
    }
}
impl Drop for Rec {
    fn drop(&mut self) {
        if self.track_drop {
            unsafe { DROPPED[self.id as usize] += 1 }
        }
    }
}

pub struct Hnd {
    rec: u8,
    of: usize,
}
impl Hnd {
    fn log(&self, op: u8, bits: u64) {
        let mut e = Ev::ZERO;
        e.rec = self.rec;
        e.op = op;
        e.bits = bits;
        e.handle_of = self.of;
        push(e);
    }
}
impl CounterFn for Hnd {
    fn increment(&self, v: u64) { self.log(OP_C_INCREMENT, v) }
    fn absolute(&self, v: u64) { self.log(OP_C_ABSOLUTE, v) }
}
impl GaugeFn for Hnd {
    fn increment(&self, v: f64) { self.log(OP_G_INCREMENT, v.to_bits()) }
    fn decrement(&self, v: f64) { self.log(OP_G_DECREMENT, v.to_bits()) }
    fn set(&self, v: f64) { self.log(OP_G_SET, v.to_bits()) }
}
impl HistogramFn for Hnd {
    fn record(&self, v: f64) { self.log(OP_H_RECORD, v.to_bits()) }
}

impl Recorder for Rec {
    fn describe_counter(&self, key: KeyName, unit: Option<Unit>, description: SharedString) {
        self.describe(OP_DESCRIBE_COUNTER, key, unit, description)
    }
    fn describe_gauge(&self, key: KeyName, unit: Option<Unit>, description: SharedString) {
        self.describe(OP_DESCRIBE_GAUGE, key, unit, description)
    }
    fn describe_histogram(&self, key: KeyName, unit: Option<Unit>, description: SharedString) {
        self.describe(OP_DESCRIBE_HISTOGRAM, key, unit, description)
    }
    fn register_counter(&self, key: &Key, md: &Metadata<'_>) -> Counter {
        let of = self.register(OP_REGISTER_COUNTER, key, md);
        Counter::from_arc(Arc::new(Hnd { rec: self.id, of }))
    }
    fn register_gauge(&self, key: &Key, md: &Metadata<'_>) -> Gauge {
        let of = self.register(OP_REGISTER_GAUGE, key, md);
        Gauge::from_arc(Arc::new(Hnd { rec: self.id, of }))
    }
    fn register_histogram(&self, key: &Key, md: &Metadata<'_>) -> Histogram {
        let of = self.register(OP_REGISTER_HISTOGRAM, key, md);
        Histogram::from_arc(Arc::new(Hnd { rec: self.id, of }))
    }
}

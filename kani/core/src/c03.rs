//! C03: Key Eq / Ord / Hash coherence.
use metrics::{Key, KeyName, Label, SharedString};
use nd::{cover, harnesses};
use std::cmp::Ordering;
use std::hash::{Hash, Hasher};
use std::sync::Arc;


fn any_label() -> Label {
    Label::from_static_parts(crate::s1(), crate::s1())
}

/// Key with `n` labels that has not been hashed at construction (no hasher in the path).
fn key_n(name: &'static str, n: usize) -> Key {
    let mut v = Vec::with_capacity(n);
    for _ in 0..n {
        v.push(any_label());
    }
    let labels: &'static [Label] = Box::leak(v.into_boxed_slice());
    Key::from_static_labels(name, labels)
}

/// Records the exact byte stream fed to the hasher: equal hash for every hasher <=> equal stream.
pub struct RecHasherN<const N: usize> {
    pub buf: [u8; N],
    pub len: usize,
}
pub type RecHasher = RecHasherN<32>;
impl<const N: usize> RecHasherN<N> {
    pub fn new() -> Self {
        RecHasherN { buf: [0; N], len: 0 }
    }
    pub fn same(&self, o: &RecHasherN<N>) -> bool {
        if self.len != o.len {
            return false;
        }
        let mut i = 0;
        while i < N {
            if self.buf[i] != o.buf[i] {
                return false;
            }
            i += 1;
        }
        true
    }
}
impl<const N: usize> Hasher for RecHasherN<N> {
    fn finish(&self) -> u64 {
        0
    }
    fn write(&mut self, bytes: &[u8]) {
        for b in bytes {
            self.buf[self.len] = *b;
            self.len += 1;
        }
    }
}

// Stubs for metrics::KeyHasher (ahash is out of reach of the SAT back end): a cheap rotate/xor fold
// kept in a global that `finish` returns and resets. `generate_key_hash` is default(); write*; finish().
static mut KH_ACC: u64 = 0x9e37;
pub fn kh_write(_h: &mut metrics::KeyHasher, bytes: &[u8]) {
    unsafe {
        for b in bytes {
            KH_ACC = KH_ACC.rotate_left(7) ^ (*b as u64);
        }
    }
}
pub fn kh_finish(_h: &metrics::KeyHasher) -> u64 {
    unsafe {
        let r = KH_ACC;
        KH_ACC = 0x9e37;
        r
    }
}

fn check_pair(a: &Key, b: &Key) {
    let eq = a == b;
    let c = a.cmp(b);
    cover!(eq, "equal pair reachable");
    cover!(!eq, "unequal pair reachable");
    assert!(eq == (c == Ordering::Equal), "eq_iff_cmp_equal");
    assert!((b == a) == eq, "eq_symmetric");
    assert!(b.cmp(a) == c.reverse(), "cmp_antisymmetric");
    assert!(a.partial_cmp(b) == Some(c), "partial_cmp_agrees");
}

fn pair(n: usize) {
    let a = key_n(crate::s1(), n);
    let b = key_n(crate::s1(), n);
    check_pair(&a, &b);
    std::mem::forget(a);
    std::mem::forget(b);
}

/// strings that are prefixes of one static buffer (same start address, different lengths)
fn alias_pair(n: usize) {
    let mk = |n: usize| {
        let mut v = Vec::with_capacity(n);
        for _ in 0..n {
            v.push(Label::from_static_parts(crate::alias(), crate::alias()));
        }
        let labels: &'static [Label] = Box::leak(v.into_boxed_slice());
        Key::from_static_labels(crate::alias(), labels)
    };
    let a = mk(n);
    let b = mk(n);
    check_pair(&a, &b);
    assert!((a == b) == (a.name() == b.name() && a.labels().zip(b.labels()).all(|(x, y)| x.key() == y.key() && x.value() == y.value())) || n > 1,
            "eq_is_content_equality");
    std::mem::forget((a, b));
}

/// pairs of different label counts and reflexivity
fn pair_mixed() {
    let na = nd::below(3);
    let nb = nd::below(3);
    let a = key_n(crate::s1(), na);
    let b = key_n(crate::s1(), nb);
    check_pair(&a, &b);
    assert!(a == a && a.cmp(&a) == Ordering::Equal, "reflexive");
    std::mem::forget(a);
    std::mem::forget(b);
}

fn triple(n: usize) {
    let a = key_n(crate::s1(), n);
    let b = key_n(crate::s1(), n);
    let c = key_n(crate::s1(), n);
    let (ab, bc, ac) = (a.cmp(&b), b.cmp(&c), a.cmp(&c));
    cover!(ab == Ordering::Less && bc == Ordering::Less, "strict chain reachable");
    cover!(a == b && b == c, "equal triple reachable");
    if a == b && b == c {
        assert!(a == c, "eq_transitive");
    }
    if ab != Ordering::Greater && bc != Ordering::Greater {
        assert!(ac != Ordering::Greater, "cmp_transitive");
        if ab == Ordering::Less || bc == Ordering::Less {
            assert!(ac == Ordering::Less, "cmp_transitive_strict");
        }
    }
    std::mem::forget((a, b, c));
}

fn hash_pair(n: usize) {
    let a = key_n(crate::s1(), n);
    let b = key_n(crate::s1(), n);
    let eq = a == b;
    cover!(eq, "equal pair reachable");
    let (mut ha, mut hb) = (RecHasher::new(), RecHasher::new());
    a.hash(&mut ha);
    b.hash(&mut hb);
    let (ga, gb) = (a.get_hash(), b.get_hash());
    if eq {
        assert!(ha.same(&hb), "eq_implies_same_std_hash_stream");
        assert!(ga == gb, "eq_implies_same_get_hash");
    }
    // get_hash is stable and survives clone
    assert!(a.get_hash() == ga, "get_hash_stable");
    let a2 = a.clone();
    assert!(a2.get_hash() == ga, "get_hash_same_after_clone");
    assert!(a2 == a, "clone_equal");
    std::mem::forget((a, b, a2));
}

fn leak_labels(ls: &[(&'static str, &'static str)]) -> &'static [Label] {
    let v: Vec<Label> = ls.iter().map(|(k, v)| Label::from_static_parts(k, v)).collect();
    Box::leak(v.into_boxed_slice())
}

/// Builds the same logical key along one of the public construction paths.
fn build(path: usize, name: &'static str, ls: &[(&'static str, &'static str)]) -> Key {
    match path {
        0 => Key::from_static_labels(name, leak_labels(ls)),
        1 => Key::from_static_parts(name, leak_labels(ls)),
        2 => {
            let v: Vec<Label> = ls.iter().map(|(k, v)| Label::new(k.to_string(), v.to_string())).collect();
            Key::from_parts(name.to_string(), v)
        }
        3 => {
            let v: Vec<Label> = ls
                .iter()
                .map(|(k, v)| Label::new(SharedString::from_shared(Arc::from(*k)), SharedString::from_shared(Arc::from(*v))))
                .collect();
            Key::from_parts(SharedString::from_shared(Arc::from(name)), v)
        }
        4 => Key::from((name, ls)),
        5 => {
            let v: Vec<Label> = ls.iter().map(|(k, v)| Label::new(*k, *v)).collect();
            Key::from_name(name).with_extra_labels(v)
        }
        6 => {
            if ls.is_empty() {
                return Key::from_name(KeyName::from_const_str(name));
            }
            let v: Vec<Label> = ls[1..].iter().map(|(k, v)| Label::new(*k, v.to_string())).collect();
            Key::from_static_labels(name, leak_labels(&ls[..1])).with_extra_labels(v)
        }
        _ => build(0, name, ls).clone(),
    }
}

fn paths(n: usize) {
    let name = crate::s1();
    let mut ls = [("", ""); 3];
    for i in 0..n {
        ls[i] = (crate::s1(), crate::s1());
    }
    let p = nd::below(8);
    let q = nd::below(8);
    let a = build(p, name, &ls[..n]);
    let b = build(q, name, &ls[..n]);
    assert!(a == b, "construction_path_irrelevant_eq");
    assert!(a.cmp(&b) == Ordering::Equal, "construction_path_irrelevant_cmp");
    let (mut ha, mut hb) = (RecHasher::new(), RecHasher::new());
    a.hash(&mut ha);
    b.hash(&mut hb);
    assert!(ha.same(&hb), "construction_path_irrelevant_std_hash");
    assert!(a.get_hash() == b.get_hash(), "construction_path_irrelevant_get_hash");
    assert!(a.name() == name, "name_preserved");
    let mut i = 0;
    for l in a.labels() {
        assert!(l.key() == ls[i].0 && l.value() == ls[i].1, "labels_preserved");
        i += 1;
    }
    assert!(i == n, "label_count_preserved");
    std::mem::forget((a, b));
}

/// with_extra_labels on a base key whose hash is already cached (eagerly hashed constructors, or a static key after its first
/// get_hash()): the derived key must hash like the same key built directly, not like its base
fn extra_labels_hash() {
    let name = crate::s1();
    let (k, v) = (crate::s1(), crate::s1());
    let base = if nd::any::<bool>() {
        Key::from_name(name)
    } else {
        let b = Key::from_static_name(name);
        if nd::any::<bool>() {
            let _ = b.get_hash();
        }
        b
    };
    let direct = Key::from_static_labels(name, leak_labels(&[(k, v)]));
    let derived = base.with_extra_labels(vec![Label::from_static_parts(k, v)]);
    assert!(derived == direct, "with_extra_labels_equals_the_directly_built_key");
    assert!(derived.get_hash() == direct.get_hash(), "with_extra_labels_hashes_like_the_directly_built_key");
    std::mem::forget((base, direct, derived));
}

/// two labels with the same name in either order are equal keys (Eq treats the labels as a multiset): they must hash alike
fn same_name_two_labels() {
    // the two values are fixed and different (a symbolic pair of values does not finish in CBMC); the name is symbolic
    let name = crate::s1();
    let (v1, v2) = ("x", "y");
    let a = Key::from_static_labels(name, leak_labels(&[("a", v1), ("a", v2)]));
    let b = Key::from_static_labels(name, leak_labels(&[("a", v2), ("a", v1)]));
    assert!(a == b, "labels_are_a_multiset");
    assert!(a.get_hash() == b.get_hash(), "eq_implies_same_get_hash");
    std::mem::forget((a, b));
}

/// distinct label names: supplied order is irrelevant
fn perm(n: usize) {
    let name = crate::s1();
    const NAMES: [&str; 3] = ["a", "b", ""];
    let mut ls = [("", ""); 3];
    for i in 0..n {
        ls[i] = (NAMES[i], crate::s1());
    }
    let mut ps = ls;
    // a symbolic permutation by up to two swaps
    let (i, j) = (nd::below(n), nd::below(n));
    ps.swap(i, j);
    if n > 2 {
        let (k, l) = (nd::below(n), nd::below(n));
        ps.swap(k, l);
    }
    cover!(ps[0].0 != ls[0].0, "a real permutation is reachable");
    let a = Key::from_static_labels(name, leak_labels(&ls[..n]));
    let b = Key::from_static_labels(name, leak_labels(&ps[..n]));
    assert!(a == b, "label_order_irrelevant_eq");
    assert!(a.cmp(&b) == Ordering::Equal, "label_order_irrelevant_cmp");
    let (mut ha, mut hb) = (RecHasher::new(), RecHasher::new());
    a.hash(&mut ha);
    b.hash(&mut hb);
    assert!(ha.same(&hb), "label_order_irrelevant_std_hash");
    assert!(a.get_hash() == b.get_hash(), "label_order_irrelevant_get_hash");
    std::mem::forget((a, b));
}

/// the n >= 8 arm: 8 labels, names fixed and distinct except a symbolic duplicate, two symbolic values
fn big8() {
    const N8: [&str; 8] = ["h", "g", "f", "e", "d", "c", "b", "a"];
    let mut la = [("", ""); 8];
    let mut lb = [("", ""); 8];
    for i in 0..8 {
        la[i] = (N8[i], "v");
        lb[7 - i] = (N8[i], "v");
    }
    let d = nd::below(8);
    la[d].1 = crate::s1();
    let e = nd::below(8);
    lb[e].1 = crate::s1();
    let a = Key::from_static_labels("n", leak_labels(&la));
    let b = Key::from_static_labels("n", leak_labels(&lb));
    check_pair(&a, &b);
    let (mut ha, mut hb) = (RecHasherN::<64>::new(), RecHasherN::<64>::new());
    a.hash(&mut ha);
    b.hash(&mut hb);
    if a == b {
        assert!(ha.same(&hb), "eq_implies_same_std_hash_stream");
    }
    std::mem::forget((a, b));
}

harnesses! {
    #[cfg_attr(kani, kani::unwind(4))]
    fn c03_pair_0() { pair(0) }
    #[cfg_attr(kani, kani::unwind(4))]
    fn c03_pair_1() { pair(1) }
    #[cfg_attr(kani, kani::unwind(5))]
    fn c03_pair_2() { pair(2) }
    #[cfg_attr(kani, kani::unwind(6))]
    fn c03_pair_3() { pair(3) }
    #[cfg_attr(kani, kani::unwind(7))]
    fn c03_pair_4() { pair(4) }
    #[cfg_attr(kani, kani::unwind(5))]
    fn c03_pair_mixed() { pair_mixed() }
    #[cfg_attr(kani, kani::unwind(4))]
    fn c03_alias_0() { alias_pair(0) }
    #[cfg_attr(kani, kani::unwind(4))]
    fn c03_alias_1() { alias_pair(1) }
    #[cfg_attr(kani, kani::unwind(4))]
    fn c03_triple_1() { triple(1) }
    #[cfg_attr(kani, kani::unwind(5))]
    fn c03_triple_2() { triple(2) }
    #[cfg_attr(kani, kani::unwind(6))]
    fn c03_triple_3() { triple(3) }
    #[cfg_attr(kani, kani::unwind(34))]
    #[cfg_attr(kani, kani::stub(<metrics::KeyHasher as std::hash::Hasher>::write, kh_write))]
    #[cfg_attr(kani, kani::stub(<metrics::KeyHasher as std::hash::Hasher>::finish, kh_finish))]
    fn c03_hash_1() { hash_pair(1) }
    #[cfg_attr(kani, kani::unwind(34))]
    #[cfg_attr(kani, kani::stub(<metrics::KeyHasher as std::hash::Hasher>::write, kh_write))]
    #[cfg_attr(kani, kani::stub(<metrics::KeyHasher as std::hash::Hasher>::finish, kh_finish))]
    fn c03_hash_2() { hash_pair(2) }
    #[cfg_attr(kani, kani::unwind(34))]
    #[cfg_attr(kani, kani::stub(<metrics::KeyHasher as std::hash::Hasher>::write, kh_write))]
    #[cfg_attr(kani, kani::stub(<metrics::KeyHasher as std::hash::Hasher>::finish, kh_finish))]
    fn c03_hash_3() { hash_pair(3) }
    #[cfg_attr(kani, kani::unwind(34))]
    #[cfg_attr(kani, kani::stub(<metrics::KeyHasher as std::hash::Hasher>::write, kh_write))]
    #[cfg_attr(kani, kani::stub(<metrics::KeyHasher as std::hash::Hasher>::finish, kh_finish))]
    fn c03_paths_1() { paths(1) }
    #[cfg_attr(kani, kani::unwind(34))]
    #[cfg_attr(kani, kani::stub(<metrics::KeyHasher as std::hash::Hasher>::write, kh_write))]
    #[cfg_attr(kani, kani::stub(<metrics::KeyHasher as std::hash::Hasher>::finish, kh_finish))]
    fn c03_paths_2() { paths(2) }
    #[cfg_attr(kani, kani::unwind(34))]
    #[cfg_attr(kani, kani::stub(<metrics::KeyHasher as std::hash::Hasher>::write, kh_write))]
    #[cfg_attr(kani, kani::stub(<metrics::KeyHasher as std::hash::Hasher>::finish, kh_finish))]
    fn c03_paths_3() { paths(3) }
    #[cfg_attr(kani, kani::unwind(34))]
    #[cfg_attr(kani, kani::stub(<metrics::KeyHasher as std::hash::Hasher>::write, kh_write))]
    #[cfg_attr(kani, kani::stub(<metrics::KeyHasher as std::hash::Hasher>::finish, kh_finish))]
    fn c03_perm_2() { perm(2) }
    #[cfg_attr(kani, kani::unwind(34))]
    #[cfg_attr(kani, kani::stub(<metrics::KeyHasher as std::hash::Hasher>::write, kh_write))]
    #[cfg_attr(kani, kani::stub(<metrics::KeyHasher as std::hash::Hasher>::finish, kh_finish))]
    fn c03_perm_3() { perm(3) }
    #[cfg_attr(kani, kani::unwind(66))]
    fn c03_big8() { big8() }
    #[cfg_attr(kani, kani::unwind(34))]
    #[cfg_attr(kani, kani::stub(<metrics::KeyHasher as std::hash::Hasher>::write, kh_write))]
    #[cfg_attr(kani, kani::stub(<metrics::KeyHasher as std::hash::Hasher>::finish, kh_finish))]
    fn c03_extra_labels_hash() { extra_labels_hash() }
    #[cfg_attr(kani, kani::unwind(34))]
    #[cfg_attr(kani, kani::stub(<metrics::KeyHasher as std::hash::Hasher>::write, kh_write))]
    #[cfg_attr(kani, kani::stub(<metrics::KeyHasher as std::hash::Hasher>::finish, kh_finish))]
    fn c03_same_name_two_labels() { same_name_two_labels() }
}

//! C03: Key Eq / Ord / Hash coherence.
use metrics::{Key, Label, SharedString};
use nd::{cover, harnesses};
use std::cmp::Ordering;
use std::sync::Arc;

const T3: &[&str] = &["", "a", "b"];

fn any_label() -> Label {
    Label::from_static_parts(crate::pick(T3), crate::pick(T3))
}

/// Key with `n` labels that has not been hashed at construction (no ahash in the path).
fn key_n(name: &'static str, n: usize) -> Key {
    let mut v = Vec::with_capacity(n);
    for _ in 0..n {
        v.push(any_label());
    }
    let labels: &'static [Label] = Box::leak(v.into_boxed_slice());
    Key::from_static_labels(name, labels)
}

fn check_pair(a: &Key, b: &Key) {
    let eq = a == b;
    let c = a.cmp(b);
    cover!(eq, "equal pair reachable");
    cover!(!eq, "unequal pair reachable");
    assert!(eq == (c == Ordering::Equal), "eq_iff_cmp_equal");
    assert!((b == a) == eq, "eq_symmetric");
    assert!(b.cmp(a) == c.reverse(), "cmp_antisymmetric");
    assert!(a.partial_cmp(b) == Some(c), "partial_cmp_agrees");
}

fn pair(n: usize) {
    let a = key_n(crate::pick(T3), n);
    let b = key_n(crate::pick(T3), n);
    check_pair(&a, &b);
    std::mem::forget(a);
    std::mem::forget(b);
}

harnesses! {
    #[cfg_attr(kani, kani::unwind(4))]
    fn c03_pair_0() { pair(0) }
    #[cfg_attr(kani, kani::unwind(4))]
    fn c03_pair_1() { pair(1) }
    #[cfg_attr(kani, kani::unwind(5))]
    fn c03_pair_2() { pair(2) }
    #[cfg_attr(kani, kani::unwind(6))]
    fn c03_pair_3() { pair(3) }
}

//! C14: the copy-on-write pointer owns its memory correctly on every path.
//! Needs `--cfg metrics_verif` (hook: `metrics::VerifCow` re-exports the private `cow::Cow`).
use metrics::SharedString;
use nd::{cover, harnesses};
use std::sync::atomic::{AtomicIsize, Ordering::SeqCst};
use std::sync::Arc;

static LIVE: AtomicIsize = AtomicIsize::new(0);
static CLONES: AtomicIsize = AtomicIsize::new(0);

/// Element with a destructor and a counted clone.
#[derive(Debug, PartialEq, Eq)]
pub struct D(pub u8);
impl D {
    fn new(x: u8) -> D {
        LIVE.fetch_add(1, SeqCst);
        D(x)
    }
}
impl Clone for D {
    fn clone(&self) -> D {
        CLONES.fetch_add(1, SeqCst);
        D::new(self.0)
    }
}
impl Drop for D {
    fn drop(&mut self) {
        LIVE.fetch_sub(1, SeqCst);
    }
}

#[cfg(metrics_verif)]
mod slice {
    use super::*;
    use metrics::VerifCow as Cow;

    fn same(c: &Cow<'static, [D]>, model: &[u8]) -> bool {
        let s: &[D] = c;
        if s.len() != model.len() {
            return false;
        }
        let mut i = 0;
        while i < model.len() {
            if s[i].0 != model[i] {
                return false;
            }
            i += 1;
        }
        true
    }

    /// kind: 0 borrowed (from_borrowed), 1 borrowed (const_slice), 2 owned, 3 shared
    pub fn program(kind: usize, steps: usize) {
        LIVE.store(0, SeqCst);
        let len = nd::below(3);
        let model_full = [nd::any::<u8>(), nd::any::<u8>()];
        let model = &model_full[..len];
        let extra_cap = nd::below(2);
        let mut keep_arc: Option<Arc<[D]>> = None;
        let mut leaked_live: isize = 0;
        let first: Cow<'static, [D]> = match kind {
            0 | 1 => {
                let v: Vec<D> = model.iter().map(|x| D::new(*x)).collect();
                leaked_live = len as isize;
                let s: &'static [D] = Box::leak(v.into_boxed_slice());
                if kind == 0 { Cow::from_borrowed(s) } else { Cow::const_slice(s) }
            }
            2 => {
                let mut v: Vec<D> = Vec::with_capacity(len + extra_cap);
                for x in model {
                    v.push(D::new(*x));
                }
                Cow::from_owned(v)
            }
            _ => {
                let v: Vec<D> = model.iter().map(|x| D::new(*x)).collect();
                let a: Arc<[D]> = Arc::from(v);
                keep_arc = Some(a.clone());
                Cow::from_shared(a)
            }
        };
        assert!(same(&first, model), "content_after_construct");
        let mut pool: [Option<Cow<'static, [D]>>; 2] = [Some(first), None];
        let mut n = 1usize;
        for _ in 0..steps {
            let op = nd::below(3);
            if n == 0 {
                break;
            }
            let i = nd::below(n);
            match op {
                0 => {
                    if n < 2 {
                        let c = pool[i].as_ref().unwrap().clone();
                        assert!(same(&c, model), "content_after_clone");
                        pool[n] = Some(c);
                        n += 1;
                    }
                }
                1 => {
                    // take slot i out (swap-remove) and convert to the owned value
                    let c = pool[i].take().unwrap();
                    pool[i] = pool[n - 1].take();
                    n -= 1;
                    let v: Vec<D> = c.into_owned();
                    assert!(v.len() == model.len(), "into_owned_len");
                    let mut k = 0;
                    while k < model.len() {
                        assert!(v[k].0 == model[k], "into_owned_content");
                        k += 1;
                    }
                    drop(v);
                }
                _ => {
                    let c = pool[i].take().unwrap();
                    pool[i] = pool[n - 1].take();
                    n -= 1;
                    drop(c);
                }
            }
            let mut j = 0;
            while j < n {
                assert!(same(pool[j].as_ref().unwrap(), model), "content_of_survivors");
                j += 1;
            }
        }
        cover!(n == 0, "all dropped by program reachable");
        cover!(n == 2, "two live copies reachable");
        drop(pool);
        if let Some(a) = keep_arc {
            assert!(Arc::strong_count(&a) == 1, "arc_refs_all_given_back");
            drop(a);
        }
        assert!(LIVE.load(SeqCst) == leaked_live, "every_element_dropped_exactly_once");
    }
}

/// kind: 0 const_str, 1 from_borrowed, 2 owned String (cap symbolic), 3 shared Arc<str>, 4 From<std Cow>
fn str_program(kind: usize, steps: usize) {
    const T: &[&str] = &["", "a", "bc"];
    let s: &'static str = crate::pick(T);
    let extra_cap = nd::below(2);
    let mut keep_arc: Option<Arc<str>> = None;
    let first: SharedString = match kind {
        0 => SharedString::const_str(s),
        1 => SharedString::from_borrowed(s),
        2 => {
            let mut o = String::with_capacity(s.len() + extra_cap);
            o.push_str(s);
            SharedString::from_owned(o)
        }
        3 => {
            let a: Arc<str> = Arc::from(s);
            keep_arc = Some(a.clone());
            SharedString::from_shared(a)
        }
        _ => {
            if extra_cap == 0 {
                SharedString::from(std::borrow::Cow::Borrowed(s))
            } else {
                SharedString::from(std::borrow::Cow::Owned(s.to_string()))
            }
        }
    };
    assert!(&*first == s, "content_after_construct");
    let mut pool: [Option<SharedString>; 2] = [Some(first), None];
    let mut n = 1usize;
    for _ in 0..steps {
        let op = nd::below(3);
        if n == 0 {
            break;
        }
        let i = nd::below(n);
        match op {
            0 => {
                if n < 2 {
                    let c = pool[i].as_ref().unwrap().clone();
                    assert!(&*c == s, "content_after_clone");
                    assert!(c == *pool[i].as_ref().unwrap(), "clone_eq");
                    pool[n] = Some(c);
                    n += 1;
                }
            }
            1 => {
                let c = pool[i].take().unwrap();
                pool[i] = pool[n - 1].take();
                n -= 1;
                let o: String = c.into_owned();
                assert!(o == s, "into_owned_content");
            }
            _ => {
                let c = pool[i].take().unwrap();
                pool[i] = pool[n - 1].take();
                n -= 1;
                drop(c);
            }
        }
        let mut j = 0;
        while j < n {
            assert!(&**pool[j].as_ref().unwrap() == s, "content_of_survivors");
            j += 1;
        }
    }
    cover!(n == 0, "all dropped by program reachable");
    drop(pool);
    if let Some(a) = keep_arc {
        assert!(Arc::strong_count(&a) == 1, "arc_refs_all_given_back");
    }
}

#[cfg(metrics_verif)]
use slice::program;
#[cfg(not(metrics_verif))]
fn program(_k: usize, _s: usize) {
    panic!("built without --cfg metrics_verif");
}

harnesses! {
    #[cfg_attr(kani, kani::unwind(4))]
    fn c14_slice_borrowed() { program(nd::below(2), 2) }
    #[cfg_attr(kani, kani::unwind(4))]
    fn c14_slice_owned() { program(2, 2) }
    #[cfg_attr(kani, kani::unwind(4))]
    fn c14_slice_shared() { program(3, 2) }
    #[cfg_attr(kani, kani::unwind(4))]
    fn c14_str_borrowed() { str_program(nd::below(2), 2) }
    #[cfg_attr(kani, kani::unwind(4))]
    fn c14_str_owned() { str_program(2, 2) }
    #[cfg_attr(kani, kani::unwind(4))]
    fn c14_str_shared() { str_program(3, 2) }
    #[cfg_attr(kani, kani::unwind(4))]
    fn c14_str_from_std() { str_program(4, 2) }
    #[cfg_attr(kani, kani::unwind(5))]
    fn c14_slice_owned_3() { program(2, 3) }
    #[cfg_attr(kani, kani::unwind(5))]
    fn c14_slice_shared_3() { program(3, 3) }
    #[cfg_attr(kani, kani::unwind(5))]
    fn c14_str_owned_3() { str_program(2, 3) }
    #[cfg_attr(kani, kani::unwind(5))]
    fn c14_str_shared_3() { str_program(3, 3) }
}

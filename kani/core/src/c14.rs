//! C14: the copy-on-write pointer owns its memory correctly on every path.
//! Needs `--cfg metrics_verif` (hook: `metrics::VerifCow` re-exports the private `cow::Cow`).
//! Operation sequences are fixed per harness (scenario S = 0..5); length, capacity and contents are symbolic.
use metrics::SharedString;
use nd::{cover, harnesses};
use std::sync::atomic::{AtomicIsize, Ordering::SeqCst};
use std::sync::Arc;

static LIVE: AtomicIsize = AtomicIsize::new(0);

/// Element with a destructor and a counted clone.
#[derive(Debug, PartialEq, Eq)]
pub struct D(pub u8);
impl D {
    fn new(x: u8) -> D {
        LIVE.fetch_add(1, SeqCst);
        D(x)
    }
}
impl Clone for D {
    fn clone(&self) -> D {
        D::new(self.0)
    }
}
impl Drop for D {
    fn drop(&mut self) {
        LIVE.fetch_sub(1, SeqCst);
    }
}

#[cfg(metrics_verif)]
mod slice {
    use super::*;
    use metrics::VerifCow as Cow;

    fn same(c: &Cow<'static, [D]>, model: &[u8]) -> bool {
        let s: &[D] = c;
        if s.len() != model.len() {
            return false;
        }
        let mut i = 0;
        while i < model.len() {
            if s[i].0 != model[i] {
                return false;
            }
            i += 1;
        }
        true
    }
    fn same_vec(v: &[D], model: &[u8]) -> bool {
        v.len() == model.len() && (model.is_empty() || (v[0].0 == model[0] && (model.len() < 2 || v[1].0 == model[1])))
    }

    /// kind: 0 borrowed (from_borrowed), 1 borrowed (const_slice), 2 owned, 3 shared
    pub fn program(kind: usize, scenario: usize) {
        LIVE.store(0, SeqCst);
        // Arc<[D]> with a symbolic length means a symbolic allocation layout, which the SAT back end cannot afford
        let len = if kind == 3 { 2 } else { nd::below(3) };
        let model_full = [nd::any::<u8>(), nd::any::<u8>()];
        let model = &model_full[..len];
        let extra_cap = nd::below(2);
        let mut keep_arc: Option<Arc<[D]>> = None;
        let mut leaked_live: isize = 0;
        let mut owned_buf: Option<(*const D, usize)> = None;
        let first: Cow<'static, [D]> = match kind {
            0 | 1 => {
                let v: Vec<D> = model.iter().map(|x| D::new(*x)).collect();
                leaked_live = len as isize;
                let s: &'static [D] = Box::leak(v.into_boxed_slice());
                if kind == 0 { Cow::from_borrowed(s) } else { Cow::const_slice(s) }
            }
            2 => {
                let mut v: Vec<D> = Vec::with_capacity(len + extra_cap);
                for x in model {
                    v.push(D::new(*x));
                }
                owned_buf = Some((v.as_ptr(), v.capacity()));
                Cow::from_owned(v)
            }
            _ => {
                let v: Vec<D> = model.iter().map(|x| D::new(*x)).collect();
                let a: Arc<[D]> = Arc::from(v);
                keep_arc = Some(a.clone());
                Cow::from_shared(a)
            }
        };
        assert!(same(&first, model), "content_after_construct");
        match scenario {
            0 => drop(first),
            1 => {
                let v = first.into_owned();
                assert!(same_vec(&v, model), "into_owned_content");
                if let Some((p, cap)) = owned_buf {
                    // an owned allocation is handed back as it is: neither copied nor left behind (a buffer that is not handed
                    // back here is one that drop() would not release either)
                    assert!(cap == 0 || (v.as_ptr() == p && v.capacity() == cap), "owned_allocation_handed_back");
                }
            }
            2 => {
                let c = first.clone();
                assert!(same(&c, model), "content_after_clone");
                drop(first);
                assert!(same(&c, model), "clone_survives_drop_of_original");
                let v = c.into_owned();
                assert!(same_vec(&v, model), "into_owned_of_clone_content");
            }
            3 => {
                let c = first.clone();
                let v = first.into_owned();
                assert!(same_vec(&v, model), "into_owned_content");
                assert!(same(&c, model), "clone_survives_into_owned_of_original");
                drop(v);
                assert!(same(&c, model), "clone_survives_drop_of_owned_value");
            }
            4 => {
                let c = first.clone();
                let c2 = c.clone();
                drop(c);
                drop(first);
                assert!(same(&c2, model), "second_clone_survives");
            }
            _ => {
                let c = first.clone();
                assert!(c == first, "clone_compares_equal");
                let v1 = c.into_owned();
                let v2 = first.into_owned();
                assert!(same_vec(&v1, model) && same_vec(&v2, model), "both_owned_values_have_the_content");
            }
        }
        if let Some(a) = keep_arc {
            assert!(Arc::strong_count(&a) == 1, "arc_refs_all_given_back");
            assert!(a.len() == len, "arc_content_intact");
            drop(a);
        }
        assert!(LIVE.load(SeqCst) == leaked_live, "every_element_dropped_exactly_once");
        cover!(kind == 3 || (len == 0 && extra_cap == 1), "empty with spare capacity reachable");
    }
}

/// kind: 0 const_str, 1 from_borrowed, 2 owned String (cap symbolic), 3 shared Arc<str>, 4 From<std Cow>
fn str_program(kind: usize, scenario: usize) {
    const T: &[&str] = &["", "a", "bc"];
    let s: &'static str = if kind == 3 { "bc" } else { crate::pick(T) };
    let extra_cap = nd::below(2);
    let mut keep_arc: Option<Arc<str>> = None;
    let mut owned_buf: Option<(*const u8, usize)> = None;
    let first: SharedString = match kind {
        0 => SharedString::const_str(s),
        1 => SharedString::from_borrowed(s),
        2 => {
            let mut o = String::with_capacity(s.len() + extra_cap);
            o.push_str(s);
            owned_buf = Some((o.as_ptr(), o.capacity()));
            SharedString::from_owned(o)
        }
        3 => {
            let a: Arc<str> = Arc::from(s);
            keep_arc = Some(a.clone());
            SharedString::from_shared(a)
        }
        _ => {
            if extra_cap == 0 {
                SharedString::from(std::borrow::Cow::Borrowed(s))
            } else {
                SharedString::from(std::borrow::Cow::Owned(s.to_string()))
            }
        }
    };
    assert!(&*first == s, "content_after_construct");
    match scenario {
        0 => drop(first),
        1 => {
            let o = first.into_owned();
            assert!(o == s, "into_owned_content");
            if let Some((p, cap)) = owned_buf {
                assert!(cap == 0 || (o.as_ptr() == p && o.capacity() == cap), "owned_allocation_handed_back");
            }
        }
        2 => {
            let c = first.clone();
            drop(first);
            assert!(&*c == s, "clone_survives_drop_of_original");
            assert!(c.into_owned() == s, "into_owned_of_clone_content");
        }
        3 => {
            let c = first.clone();
            let o = first.into_owned();
            assert!(o == s && &*c == s, "clone_survives_into_owned_of_original");
            drop(o);
            assert!(&*c == s, "clone_survives_drop_of_owned_value");
        }
        _ => {
            let c = first.clone();
            assert!(c == first, "clone_compares_equal");
            let c2 = c.clone();
            drop(c);
            drop(first);
            assert!(&*c2 == s, "second_clone_survives");
        }
    }
    if let Some(a) = keep_arc {
        assert!(Arc::strong_count(&a) == 1, "arc_refs_all_given_back");
        assert!(&*a == s, "arc_content_intact");
    }
}

#[cfg(metrics_verif)]
use slice::program;
#[cfg(not(metrics_verif))]
fn program(_k: usize, _s: usize) {
    panic!("built without --cfg metrics_verif");
}

macro_rules! c14 {
    ($($name:ident = $f:ident($k:expr, $s:expr);)*) => {
        harnesses! { $( #[cfg_attr(kani, kani::unwind(4))] fn $name() { $f($k, $s) } )* }
    };
}
c14! {
    c14_slice_borrowed_s1 = program(0, 1);
    c14_slice_borrowed_s2 = program(1, 2);
    c14_slice_owned_s0 = program(2, 0);
    c14_slice_owned_s1 = program(2, 1);
    c14_slice_owned_s2 = program(2, 2);
    c14_slice_owned_s3 = program(2, 3);
    c14_slice_owned_s4 = program(2, 4);
    c14_slice_owned_s5 = program(2, 5);
    c14_slice_shared_s0 = program(3, 0);
    c14_slice_shared_s1 = program(3, 1);
    c14_slice_shared_s2 = program(3, 2);
    c14_slice_shared_s3 = program(3, 3);
    c14_slice_shared_s4 = program(3, 4);
    c14_slice_shared_s5 = program(3, 5);
    c14_str_borrowed_s1 = str_program(0, 1);
    c14_str_borrowed_s2 = str_program(1, 2);
    c14_str_owned_s0 = str_program(2, 0);
    c14_str_owned_s1 = str_program(2, 1);
    c14_str_owned_s2 = str_program(2, 2);
    c14_str_owned_s3 = str_program(2, 3);
    c14_str_owned_s4 = str_program(2, 4);
    c14_str_shared_s0 = str_program(3, 0);
    c14_str_shared_s1 = str_program(3, 1);
    c14_str_shared_s2 = str_program(3, 2);
    c14_str_shared_s3 = str_program(3, 3);
    c14_str_shared_s4 = str_program(3, 4);
    c14_str_from_std_s1 = str_program(4, 1);
    c14_str_from_std_s3 = str_program(4, 3);
}

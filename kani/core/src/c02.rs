//! C02 (sequential part): installing the global recorder through the public API.
use dbl::*;
use metrics::{Key, KeyName, Level, Metadata, Recorder, SharedString};
use nd::{cover, harnesses};

static MD: Metadata<'static> = Metadata::new("t", Level::INFO, None);

fn emit() {
    metrics::with_recorder(|r| r.describe_counter(KeyName::from_const_str("m"), None, SharedString::const_str("d")));
}

fn seq_sized() {
    reset();
    emit();
    assert!(nlog() == 0, "emission_before_install_goes_nowhere");
    let first = nd::below(3) as u8 + 1;
    let r1 = metrics::set_global_recorder(Rec::tracked(first));
    assert!(r1.is_ok(), "first_install_succeeds");
    emit();
    assert!(nlog() == 1 && ev(0).rec == first, "emission_after_install_reaches_winner");
    let second = nd::below(3) as u8 + 4;
    match metrics::set_global_recorder(Rec::tracked(second)) {
        Ok(()) => assert!(false, "second_install_must_fail"),
        Err(e) => {
            assert!(dropped(second) == 0, "loser_not_dropped_by_library");
            let back: Rec = e.into_inner();
            assert!(back.id == second, "loser_handed_back_intact");
            std::mem::forget(back);
        }
    }
    emit();
    assert!(nlog() == 2 && ev(1).rec == first, "still_the_same_recorder");
    match metrics::set_global_recorder(Rec::tracked(7)) {
        Ok(()) => assert!(false, "third_install_must_fail"),
        Err(e) => {
            drop(e);
            assert!(dropped(7) == 1, "dropping_the_error_drops_the_loser_once");
        }
    }
    emit();
    assert!(nlog() == 3 && ev(2).rec == first && dropped(first) == 0, "winner_never_dropped");
}

// zero-sized recorders: a Box of a ZST does not allocate, so identity by address cannot tell them apart
macro_rules! zst {
    ($name:ident, $flag:ident, $drops:ident) => {
        static mut $flag: u32 = 0;
        static mut $drops: u32 = 0;
        struct $name;
        impl Drop for $name {
            fn drop(&mut self) { unsafe { $drops += 1 } }
        }
        impl Recorder for $name {
            fn describe_counter(&self, _: KeyName, _: Option<metrics::Unit>, _: SharedString) { unsafe { $flag += 1 } }
            fn describe_gauge(&self, _: KeyName, _: Option<metrics::Unit>, _: SharedString) {}
            fn describe_histogram(&self, _: KeyName, _: Option<metrics::Unit>, _: SharedString) {}
            fn register_counter(&self, _: &Key, _: &Metadata<'_>) -> metrics::Counter { metrics::Counter::noop() }
            fn register_gauge(&self, _: &Key, _: &Metadata<'_>) -> metrics::Gauge { metrics::Gauge::noop() }
            fn register_histogram(&self, _: &Key, _: &Metadata<'_>) -> metrics::Histogram { metrics::Histogram::noop() }
        }
    };
}
zst!(Z1, Z1_CALLS, Z1_DROPS);
zst!(Z2, Z2_CALLS, Z2_DROPS);
zst!(Z3, Z3_CALLS, Z3_DROPS);

fn seq_zst() {
    unsafe {
        assert!(metrics::set_global_recorder(Z1).is_ok(), "first_install_succeeds");
        emit();
        assert!(Z1_CALLS == 1, "emission_reaches_winner");
        let r2 = metrics::set_global_recorder(Z2);
        assert!(r2.is_err(), "second_install_must_fail");
        assert!(Z2_DROPS == 0, "loser_not_dropped_by_library");
        drop(r2);
        assert!(Z2_DROPS == 1, "loser_owned_by_caller");
        let r3 = metrics::set_global_recorder(Z3);
        assert!(r3.is_err(), "third_install_must_fail");
        std::mem::forget(r3);
        emit();
        assert!(Z1_CALLS == 2 && Z2_CALLS == 0 && Z3_CALLS == 0, "still_the_same_recorder");
        assert!(Z1_DROPS == 0, "winner_never_dropped");
    }
}

harnesses! {
    #[cfg_attr(kani, kani::unwind(8))]
    fn c02_seq_sized() { seq_sized() }
    #[cfg_attr(kani, kani::unwind(8))]
    fn c02_seq_zst() { seq_zst() }
}

//! C04: Counter / Gauge / Histogram handles apply every update exactly once (sequential part).
use metrics::atomics::AtomicU64;
use metrics::{Counter, CounterFn, Gauge, GaugeFn, Histogram, HistogramFn, IntoF64};
use nd::{cover, harnesses};
use std::sync::atomic::{AtomicUsize, Ordering::SeqCst};
use std::sync::Arc;

fn counter_seq() {
    let cell = Arc::new(AtomicU64::new(0));
    let h1 = Counter::from_arc(cell.clone());
    let h2 = h1.clone();
    let noop = Counter::noop();
    let mut sum: u64 = 0;
    let mut only_inc = true;
    let mut max_abs: u64 = 0;
    let mut prev: u64 = 0;
    for _ in 0..4 {
        let v: u64 = nd::any();
        let which: bool = nd::any();
        let h = if which { &h1 } else { &h2 };
        match nd::below(3) {
            0 => {
                h.increment(v);
                sum = sum.wrapping_add(v);
                if only_inc {
                    assert!(cell.load(SeqCst) == sum, "increments_sum_mod_2_64");
                }
            }
            1 => {
                only_inc = false;
                h.absolute(v);
                if v > max_abs {
                    max_abs = v;
                }
                let now = cell.load(SeqCst);
                assert!(now >= prev, "absolute_never_decreases");
                assert!(now >= v, "absolute_at_least_value");
                assert!(now == if prev > v { prev } else { v }, "absolute_is_max");
            }
            _ => {
                noop.increment(v);
                noop.absolute(v);
                assert!(cell.load(SeqCst) == prev, "noop_has_no_effect");
            }
        }
        prev = cell.load(SeqCst);
    }
    cover!(only_inc && sum != 0, "increment-only history reachable");
    std::mem::forget((h1, h2, cell));
}

fn same_f64(a: f64, b: f64) -> bool {
    a.to_bits() == b.to_bits() || (a.is_nan() && b.is_nan())
}

fn gauge_seq() {
    let cell = Arc::new(AtomicU64::new(0));
    let h1 = Gauge::from_arc(cell.clone());
    let h2 = h1.clone();
    let noop = Gauge::noop();
    let mut model: f64 = 0.0;
    for _ in 0..3 {
        let v: f64 = nd::any();
        let which: bool = nd::any();
        let h = if which { &h1 } else { &h2 };
        match nd::below(4) {
            0 => {
                h.increment(v);
                model = model + v;
            }
            1 => {
                h.decrement(v);
                model = model - v;
            }
            2 => {
                h.set(v);
                model = v;
                assert!(cell.load(SeqCst) == v.to_bits(), "set_leaves_exact_bits");
            }
            _ => {
                noop.increment(v);
                noop.decrement(v);
                noop.set(v);
            }
        }
        let now = f64::from_bits(cell.load(SeqCst));
        assert!(same_f64(now, model), "gauge_matches_sequential_model");
    }
    std::mem::forget((h1, h2, cell));
}

struct LogHist {
    n: AtomicUsize,
    bits: [std::sync::atomic::AtomicU64; 6],
}
impl HistogramFn for LogHist {
    fn record(&self, value: f64) {
        let i = self.n.fetch_add(1, SeqCst);
        self.bits[i].store(value.to_bits(), SeqCst);
    }
}

fn hist_seq() {
    let z = || std::sync::atomic::AtomicU64::new(0);
    let log = Arc::new(LogHist { n: AtomicUsize::new(0), bits: [z(), z(), z(), z(), z(), z()] });
    let h = Histogram::from_arc(log.clone());
    let h2 = h.clone();
    let noop = Histogram::noop();
    let v: f64 = nd::any();
    let w: f64 = nd::any();
    let n = nd::below(5);
    h.record(v);
    h2.record_many(w, n);
    noop.record(v);
    noop.record_many(w, n);
    assert!(log.n.load(SeqCst) == 1 + n, "record_many_delivers_exactly_n");
    assert!(log.bits[0].load(SeqCst) == v.to_bits(), "record_delivers_value");
    let mut i = 0;
    while i < n {
        assert!(log.bits[1 + i].load(SeqCst) == w.to_bits(), "record_many_delivers_value");
        i += 1;
    }
    cover!(n == 4, "n=4 reachable");
    std::mem::forget((h, h2, log));
}

struct One(std::sync::atomic::AtomicU64, AtomicUsize);
impl HistogramFn for One {
    fn record(&self, value: f64) {
        self.0.store(value.to_bits(), SeqCst);
        self.1.fetch_add(1, SeqCst);
    }
}
impl GaugeFn for One {
    fn increment(&self, value: f64) { self.0.store(value.to_bits(), SeqCst); self.1.fetch_add(1, SeqCst); }
    fn decrement(&self, value: f64) { self.0.store(value.to_bits(), SeqCst); self.1.fetch_add(1, SeqCst); }
    fn set(&self, value: f64) { self.0.store(value.to_bits(), SeqCst); self.1.fetch_add(1, SeqCst); }
}

fn conv<T: IntoF64 + Copy>(x: T, expect: f64) {
    let one = Arc::new(One(std::sync::atomic::AtomicU64::new(1), AtomicUsize::new(0)));
    let h = Histogram::from_arc(one.clone());
    h.record(x);
    assert!(one.1.load(SeqCst) == 1, "delivered_once");
    assert!(same_f64(f64::from_bits(one.0.load(SeqCst)), expect), "converted_as_documented");
    let g = Gauge::from_arc(one.clone());
    g.set(x);
    assert!(same_f64(f64::from_bits(one.0.load(SeqCst)), expect), "gauge_converted_as_documented");
    g.increment(x);
    g.decrement(x);
    assert!(one.1.load(SeqCst) == 4, "each_delivered_once");
    std::mem::forget((h, g, one));
}

fn conversions() {
    let a: i8 = nd::any(); conv(a, a as f64);
    let a: u8 = nd::any(); conv(a, a as f64);
    let a: i16 = nd::any(); conv(a, a as f64);
    let a: u16 = nd::any(); conv(a, a as f64);
    let a: i32 = nd::any(); conv(a, a as f64);
    let a: u32 = nd::any(); conv(a, a as f64);
    let a: f64 = nd::any(); conv(a, a);
}

fn conv_f32() {
    let a: f32 = nd::any();
    conv(a, a as f64);
}

fn conv_duration() {
    let secs: u64 = nd::any();
    let nanos: u32 = nd::any();
    nd::assume(nanos < 1_000_000_000);
    let d = std::time::Duration::new(secs, nanos);
    let one = Arc::new(One(std::sync::atomic::AtomicU64::new(1), AtomicUsize::new(0)));
    let h = Histogram::from_arc(one.clone());
    h.record(d);
    assert!(one.1.load(SeqCst) == 1, "delivered_once");
    let got = f64::from_bits(one.0.load(SeqCst));
    assert!(got >= 0.0 && got.is_finite(), "duration_nonnegative_finite");
    assert!(got >= secs as f64 - 1.0 || secs > (1u64 << 53), "duration_at_least_secs");
    std::mem::forget((h, one));
}

harnesses! {
    #[cfg_attr(kani, kani::unwind(6))]
    fn c04_counter_seq() { counter_seq() }
    #[cfg_attr(kani, kani::unwind(5))]
    fn c04_gauge_seq() { gauge_seq() }
    #[cfg_attr(kani, kani::unwind(7))]
    fn c04_hist_seq() { hist_seq() }
    #[cfg_attr(kani, kani::unwind(3))]
    fn c04_conversions() { conversions() }
    #[cfg_attr(kani, kani::unwind(3))]
    fn c04_conv_f32() { conv_f32() }
    #[cfg_attr(kani, kani::unwind(3))]
    fn c04_conv_duration() { conv_duration() }
}

#[cfg(not(kani))]
#[global_allocator]
static CHECKED: nd::checkalloc::CheckAlloc = nd::checkalloc::CheckAlloc;

#[cfg(not(kani))]
fn main() {
    nd::replay_main(vk_core::TABLES)
}
#[cfg(kani)]
fn main() {}

#[cfg(not(kani))]
fn main() {
    nd::replay_main(vk_core::TABLES)
}
#[cfg(kani)]
fn main() {}

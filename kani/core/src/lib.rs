//! Kani proof harnesses over the `metrics` crate (engine E1 of /verif/DESIGN.md).
#![allow(dead_code, unused_imports, static_mut_refs)]
pub mod c02;
pub mod c03;
pub mod c04;
pub mod c14;
pub const TABLES: &[&[(&str, fn())]] = &[c02::TABLE, c03::TABLE, c04::TABLE, c14::TABLE];

/// Picks one of a small table of static strings by a symbolic index.
pub fn pick(table: &'static [&'static str]) -> &'static str {
    table[nd::below(table.len())]
}

/// One-byte string over {a, b}: fresh buffer, concrete pointer and length, symbolic content
/// (much cheaper for the SAT back end than a symbolic pointer or length).
pub fn s1() -> &'static str {
    let b: u8 = if nd::any::<bool>() { b'a' } else { b'b' };
    let buf: &'static [u8; 1] = Box::leak(Box::new([b]));
    // SAFETY: ASCII
    unsafe { std::str::from_utf8_unchecked(&buf[..]) }
}

static BASE: [u8; 2] = *b"ab";
/// "", "a" or "ab", all starting at the same address (aliasing prefixes of one static buffer).
pub fn alias() -> &'static str {
    let l = nd::below(3);
    // SAFETY: ASCII
    unsafe { std::str::from_utf8_unchecked(&BASE[..l]) }
}

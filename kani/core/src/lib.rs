//! Kani proof harnesses over the `metrics` crate (engine E1 of /verif/DESIGN.md).
#![allow(dead_code, unused_imports)]
pub mod c03;
pub const TABLES: &[&[(&str, fn())]] = &[c03::TABLE];

/// Picks one of a small table of static strings by a symbolic index.
pub fn pick(table: &'static [&'static str]) -> &'static str {
    table[nd::below(table.len())]
}

// helpers live in vreplay

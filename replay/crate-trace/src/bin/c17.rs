//! Native confirmation for C17: a battery of span trees / metric label sets through the public API
//! (TracingContextLayer over a DebuggingRecorder, tracing-subscriber registry + MetricsLayer), each checked against the
//! precedence rule metric > inner span > outer span, later record() wins, no name twice, unchanged without span fields.
use metrics::Label;
use metrics_tracing_context::{LabelFilter, MetricsLayer, TracingContextLayer};
use metrics_util::debugging::{DebuggingRecorder, Snapshotter};
use metrics_util::layers::Layer;
use tracing::{span, Level};
use tracing_subscriber::layer::SubscriberExt;
use vreplay::*;

fn labels_of(s: &Snapshotter, name: &str) -> Vec<(String, String)> {
    s.snapshot().into_vec().into_iter().filter(|e| e.0.key().name() == name).flat_map(|e| e.0.key().labels().map(|l| (l.key().to_string(), l.value().to_string())).collect::<Vec<_>>()).collect()
}

#[derive(Clone)]
struct OnlyA;
impl LabelFilter for OnlyA {
    fn should_include_label(&self, _name: &metrics::KeyName, label: &Label) -> bool { label.key() == "a" }
}

fn main() {
    let plan = load_plan(&std::env::args().nth(1).expect("plan"));
    let subscriber = tracing_subscriber::registry().with(MetricsLayer::new());
    let mut v: Vec<&str> = vec![];
    tracing::subscriber::with_default(subscriber, || {
        let rec = DebuggingRecorder::new();
        let snap = rec.snapshotter();
        let rec = TracingContextLayer::all().layer(rec);
        metrics::with_local_recorder(&rec, || {
            // 1. no span: unchanged
            metrics::counter!("m1", "own" => "x").increment(1);
            let l = labels_of(&snap, "m1");
            if l != vec![("own".to_string(), "x".to_string())] { println!("m1 {:?}", l); v.push("unchanged_without_span_labels"); }
            // 2. inner over outer, metric over both, no duplicates
            let outer = span!(Level::INFO, "outer", a = "outer_a", b = "outer_b", c = "outer_c");
            let _o = outer.enter();
            let inner = span!(Level::INFO, "inner", b = "inner_b", c = "inner_c");
            let _i = inner.enter();
            metrics::counter!("m2", "c" => "metric_c").increment(1);
            let mut l = labels_of(&snap, "m2");
            l.sort();
            let want = vec![("a".to_string(), "outer_a".to_string()), ("b".to_string(), "inner_b".to_string()), ("c".to_string(), "metric_c".to_string())];
            if l != want {
                println!("m2 {:?}", l);
                v.push("precedence"); v.push("metric_label_wins"); v.push("no_duplicate_names"); v.push("nothing_dropped"); v.push("span_labels_follow_the_rule");
            }
            // 3. a later record replaces
            let s3 = span!(Level::INFO, "s3", r = "first", late = tracing::field::Empty);
            let _e3 = s3.enter();
            s3.record("late", "second");
            s3.record("r", "replaced");
            metrics::counter!("m3").increment(1);
            let l = labels_of(&snap, "m3");
            let get = |k: &str| l.iter().find(|x| x.0 == k).map(|x| x.1.clone());
            if get("r").as_deref() != Some("replaced") || get("late").as_deref() != Some("second") || l.iter().filter(|x| x.0 == "r").count() != 1 {
                println!("m3 {:?}", l);
                v.push("precedence"); v.push("span_labels_follow_the_rule"); v.push("no_duplicate_names");
            }
            // 5. a descendant sees the fields its ancestors had when it was created: a later record() on the ancestor does not reach it
            let parent = span!(Level::INFO, "p5", early = "e", later = tracing::field::Empty);
            let _p = parent.enter();
            let child = span!(Level::INFO, "c5", own = "o");
            let _c = child.enter();
            parent.record("later", "too_late");
            parent.record("early", "changed");
            metrics::counter!("m5").increment(1);
            let l = labels_of(&snap, "m5");
            let get = |k: &str| l.iter().find(|x| x.0 == k).map(|x| x.1.clone());
            if get("early").as_deref() != Some("e") || get("later").is_some() || get("own").as_deref() != Some("o") {
                println!("m5 {:?}", l);
                v.push("span_labels_follow_the_rule"); v.push("precedence");
            }
            // 7. field value types: str as is, bool as true/false, integers in decimal (u64 beyond i64::MAX included), anything else by Debug;
            //    a later record of another type replaces the value
            let s7 = span!(Level::INFO, "s7", fs = "text", fb = true, fb2 = false, fi = -5i64, fu = u64::MAX, fd = ?vec![1, 2], late = tracing::field::Empty);
            let _e7 = s7.enter();
            s7.record("late", 18446744073709551615u64);
            s7.record("fs", false);
            metrics::counter!("m7").increment(1);
            let l = labels_of(&snap, "m7");
            let get = |k: &str| l.iter().find(|x| x.0 == k).map(|x| x.1.clone());
            let want = [("fs", "false"), ("fb", "true"), ("fb2", "false"), ("fi", "-5"), ("fu", "18446744073709551615"), ("fd", "[1, 2]"), ("late", "18446744073709551615")];
            if want.iter().any(|(k, v)| get(k).as_deref() != Some(*v)) || l.len() != want.len() {
                println!("m7 {:?}", l);
                v.push("field_value_text");
            }
        });
        // 4. filter
        let rec = DebuggingRecorder::new();
        let snap = rec.snapshotter();
        let rec = TracingContextLayer::new(OnlyA).layer(rec);
        metrics::with_local_recorder(&rec, || {
            let sp = span!(Level::INFO, "f", a = "1", z = "2");
            let _e = sp.enter();
            metrics::counter!("m4", "z" => "own").increment(1);
            let mut l = labels_of(&snap, "m4");
            l.sort();
            if l != vec![("a".to_string(), "1".to_string()), ("z".to_string(), "own".to_string())] { println!("m4 {:?}", l); v.push("filter_respected"); v.push("nothing_dropped"); v.push("metric_label_wins"); }
        });
    });
    finish(&v, &plan)
}

//! Native replay for C17 span trees: the tree, the field / label names and values and the filter's verdicts of a solver
//! model are replayed through the public API (tracing-subscriber registry + MetricsLayer, TracingContextLayer over a
//! DebuggingRecorder); the key that reaches the inner recorder is compared with the rule computed independently here.
use metrics::{Key, Label, Level as MLevel, Metadata, Recorder};
use metrics_tracing_context::{LabelFilter, MetricsLayer, TracingContextLayer};
use metrics_util::debugging::DebuggingRecorder;
use metrics_util::layers::Layer;
use tracing::field::Empty;
use tracing::{span, Level, Span};
use tracing_subscriber::layer::SubscriberExt;
use vreplay::*;

#[derive(Clone)]
struct Admit(Vec<bool>);
impl LabelFilter for Admit {
    fn should_include_label(&self, _name: &metrics::KeyName, label: &Label) -> bool {
        let i: usize = label.key()[1..].parse().unwrap();
        self.0[i]
    }
}

macro_rules! mk {
    ($k:expr, $val:expr, $($head:tt)*) => {
        match $k {
            Some(0) => span!($($head)* n0 = $val, n1 = Empty, n2 = Empty, n3 = Empty, n4 = Empty, n5 = Empty, n6 = Empty, n7 = Empty),
            Some(1) => span!($($head)* n0 = Empty, n1 = $val, n2 = Empty, n3 = Empty, n4 = Empty, n5 = Empty, n6 = Empty, n7 = Empty),
            Some(2) => span!($($head)* n0 = Empty, n1 = Empty, n2 = $val, n3 = Empty, n4 = Empty, n5 = Empty, n6 = Empty, n7 = Empty),
            Some(3) => span!($($head)* n0 = Empty, n1 = Empty, n2 = Empty, n3 = $val, n4 = Empty, n5 = Empty, n6 = Empty, n7 = Empty),
            Some(4) => span!($($head)* n0 = Empty, n1 = Empty, n2 = Empty, n3 = Empty, n4 = $val, n5 = Empty, n6 = Empty, n7 = Empty),
            Some(5) => span!($($head)* n0 = Empty, n1 = Empty, n2 = Empty, n3 = Empty, n4 = Empty, n5 = $val, n6 = Empty, n7 = Empty),
            Some(6) => span!($($head)* n0 = Empty, n1 = Empty, n2 = Empty, n3 = Empty, n4 = Empty, n5 = Empty, n6 = $val, n7 = Empty),
            Some(7) => span!($($head)* n0 = Empty, n1 = Empty, n2 = Empty, n3 = Empty, n4 = Empty, n5 = Empty, n6 = Empty, n7 = $val),
            _ => span!($($head)* n0 = Empty, n1 = Empty, n2 = Empty, n3 = Empty, n4 = Empty, n5 = Empty, n6 = Empty, n7 = Empty),
        }
    };
}

const NAMES: [&str; 8] = ["n0", "n1", "n2", "n3", "n4", "n5", "n6", "n7"];

type Job = Box<dyn FnOnce() + Send>;

/// a persistent worker thread (thread 2 of a tree) with the same subscriber installed: jobs run one at a time, in order
struct Worker { tx: std::sync::mpsc::Sender<Job>, done: std::sync::mpsc::Receiver<()> }
impl Worker {
    fn new(dispatch: tracing::Dispatch) -> Worker {
        let (tx, rx) = std::sync::mpsc::channel::<Job>();
        let (dtx, drx) = std::sync::mpsc::channel::<()>();
        std::thread::spawn(move || {
            tracing::dispatcher::with_default(&dispatch, || {
                while let Ok(job) = rx.recv() { job(); let _ = dtx.send(()); }
            });
        });
        Worker { tx, done: drx }
    }
    fn run(&self, job: Job) { self.tx.send(job).unwrap(); self.done.recv_timeout(std::time::Duration::from_secs(20)).expect("worker"); }
}

struct World {
    spans: std::collections::HashMap<u64, Span>,
    lab: std::collections::HashMap<u64, Vec<(usize, String)>>,      // the rule, computed independently: priority lists (first match wins)
    stacks: std::collections::HashMap<u64, Vec<u64>>,
    v: Vec<&'static str>,
}

fn main() {
    let plan = std::sync::Arc::new(load_plan(&std::env::args().nth(1).expect("plan")));
    let g = { let plan = plan.clone(); move |k: &str| *plan.inputs.get(k).unwrap_or_else(|| panic!("input {k}")) };
    let nops = g("nops") as usize;
    let admit = Admit((0..8).map(|i| plan.inputs.get(&format!("admit_{i}")).copied().unwrap_or(1) == 1).collect());
    let dispatch = tracing::Dispatch::new(tracing_subscriber::registry().with(MetricsLayer::new()));
    let rec0 = DebuggingRecorder::new();
    let snap = rec0.snapshotter();
    let rec = std::sync::Arc::new(TracingContextLayer::new(admit.clone()).layer(rec0));
    let world = std::sync::Arc::new(std::sync::Mutex::new(World { spans: Default::default(), lab: Default::default(), stacks: Default::default(), v: vec![] }));
    let worker = Worker::new(dispatch.clone());
    let mut thread = 1u64;
    let mut nemit = 0u64;
    tracing::dispatcher::with_default(&dispatch, || {
        for i in 0..nops {
            let kind = g(&format!("op{i}_kind"));
            if kind == 5 { thread = g(&format!("op{i}_thread")); continue; }
            if kind == 4 { nemit += 1; }
            let (plan, world, rec, snap, admit, th, ne) = (plan.clone(), world.clone(), rec.clone(), snap.clone(), admit.clone(), thread, nemit);
            let job: Job = Box::new(move || {
                let g = |k: &str| *plan.inputs.get(k).unwrap_or_else(|| panic!("input {k}"));
                let mut w = world.lock().unwrap();
                let sid = plan.inputs.get(&format!("op{i}_span")).copied().unwrap_or(0);
                let name = plan.inputs.get(&format!("op{i}_name")).map(|x| *x as usize);
                let val = format!("v{}", plan.inputs.get(&format!("op{i}_val")).copied().unwrap_or(0));
                match kind {
                    0 => {
                        let pk = g(&format!("op{i}_parent"));       // 0 contextual, 1 explicit root, 2+k explicit parent k
                        let vs = val.as_str();
                        let (sp, parent) = if pk == 0 {
                            (mk!(name, vs, Level::INFO, "s",), w.stacks.get(&th).and_then(|s| s.last().copied()))
                        } else {
                            let pid: Option<tracing::Id> = if pk == 1 { None } else { w.spans[&(pk - 2)].id() };
                            (mk!(name, vs, parent: pid, Level::INFO, "s",), if pk == 1 { None } else { Some(pk - 2) })
                        };
                        let mut l: Vec<(usize, String)> = name.map(|n| vec![(n, val.clone())]).unwrap_or_default();
                        if let Some(p) = parent { let pl = w.lab[&p].clone(); l.extend(pl); }
                        w.lab.insert(sid, l);
                        w.spans.insert(sid, sp);
                    }
                    1 => { w.spans[&sid].with_subscriber(|(id, d)| d.enter(id)); w.stacks.entry(th).or_default().push(sid); }
                    2 => { let s = w.stacks.entry(th).or_default().pop().unwrap(); w.spans[&s].with_subscriber(|(id, d)| d.exit(id)); }
                    3 => {
                        w.spans[&sid].record(NAMES[name.unwrap()], val.as_str());
                        w.lab.get_mut(&sid).unwrap().insert(0, (name.unwrap(), val.clone()));
                    }
                    4 => {
                        let nl = g(&format!("op{i}_nl")) as usize;
                        let own: Vec<(usize, String)> = (0..nl).map(|j| (g(&format!("m{j}_name")) as usize, format!("v{}", g(&format!("m{j}_val"))))).collect();
                        // one metric name per emission, so that each emission's key is read back separately
                        let mname = format!("m{ne}");
                        let key = Key::from_parts(mname.clone(), own.iter().map(|(n, x)| Label::new(NAMES[*n].to_string(), x.clone())).collect::<Vec<_>>());
                        static META: Metadata<'static> = Metadata::new("t", MLevel::INFO, None);
                        match g("kind") {
                            0 => { rec.register_counter(&key, &META).increment(1); }
                            1 => { rec.register_gauge(&key, &META).set(1.0); }
                            _ => { rec.register_histogram(&key, &META).record(1.0); }
                        }
                        let got: Vec<Vec<(String, String)>> = snap.snapshot().into_vec().into_iter().filter(|e| e.0.key().name() == mname)
                            .map(|e| e.0.key().labels().map(|l| (l.key().to_string(), l.value().to_string())).collect()).collect();
                        if got.len() != 1 { println!("entries {:?}", got); w.v.push("registers_once"); return; }
                        let got = &got[0];
                        let mut want: Vec<(String, String)> = vec![];
                        for (n, x) in own.iter() { if !want.iter().any(|q| q.0 == NAMES[*n]) { want.push((NAMES[*n].to_string(), x.clone())); } }
                        if let Some(cur) = w.stacks.get(&th).and_then(|s| s.last()) {
                            for (n, x) in w.lab[cur].iter() {
                                if admit.0[*n] && !want.iter().any(|q| q.0 == NAMES[*n]) { want.push((NAMES[*n].to_string(), x.clone())); }
                            }
                        }
                        let mut a = got.clone(); a.sort();
                        let mut b = want.clone(); b.sort();
                        println!("thread {} emission {}: got {:?} want {:?}", th, ne, a, b);
                        let dup = (0..a.len()).any(|x| (x + 1..a.len()).any(|y| a[x].0 == a[y].0));
                        if dup { w.v.push("no_duplicate_names"); }
                        if a != b { w.v.push("span_tree_labels_follow_the_rule"); }
                    }
                    _ => panic!("op kind"),
                }
            });
            if thread == 1 { job(); } else { worker.run(job); }
        }
        let mut w = world.lock().unwrap();
        let mine = w.stacks.remove(&1).unwrap_or_default();
        for s in mine.iter().rev() { w.spans[s].with_subscriber(|(id, d)| d.exit(id)); }
    });
    let v = world.lock().unwrap().v.clone();
    finish(&v, &plan)
}

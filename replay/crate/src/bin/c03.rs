//! Replay of C03 get_hash race counterexamples: real threads on one lazily hashed static key.
use metrics::{Key, Label};
use std::sync::{Arc, Mutex};
use vreplay::*;

static LABELS: [Label; 2] = [Label::from_static_parts("a", "1"), Label::from_static_parts("b", "2")];
static KEY: Key = Key::from_static_parts("the_key", &LABELS);

fn main() {
    let plan = load_plan(&std::env::args().nth(1).expect("plan"));
    // the reference hash from an equal, eagerly hashed key (computed before the scheduler is installed)
    let expect = Key::from_parts("the_key", vec![Label::new("a", "1"), Label::new("b", "2")]).get_hash();
    install(plan.sched.clone());
    let res: Arc<Mutex<Vec<(usize, Vec<u64>)>>> = Arc::new(Mutex::new(vec![]));
    let mut hs = vec![];
    for (tid, role) in plan.threads.clone() {
        let res = res.clone();
        hs.push(std::thread::spawn(move || {
            set_thread(tid);
            let out = match role.as_str() {
                "get" => vec![KEY.get_hash()],
                "get_get" => vec![KEY.get_hash(), KEY.get_hash()],
                _ => {
                    let c = KEY.clone();
                    vec![c.get_hash(), KEY.get_hash()]
                }
            };
            res.lock().unwrap().push((tid, out));
            thread_done();
        }));
    }
    let mut panicked = false;
    for h in hs { if h.join().is_err() { panicked = true; } }
    let res = res.lock().unwrap().clone();
    println!("expected {:#x} got {:x?}", expect, res);
    let mut v = vec![];
    if res.iter().any(|(_, o)| o.iter().any(|x| *x != expect)) { v.push("get_hash_is_the_key_hash_on_every_thread"); }
    if panicked { v.push("no_panic"); }
    finish(&v, &plan)
}

//! Replay of C01 counterexamples: the scenario programs of /verif/mirharness linked against the real `metrics` crate,
//! with the solver's branch choices, recorder doubles that log dispatches and the same ghost scope list as oracle.
use metrics::{Counter, Gauge, Histogram, Key, KeyName, Metadata, Recorder, SharedString, Unit};
use std::cell::RefCell;
use vreplay::*;

thread_local! {
    static ND: RefCell<(Vec<bool>, usize)> = RefCell::new((vec![], 0));
    static GHOST: RefCell<Vec<usize>> = RefCell::new(vec![]);
    static ENDED: RefCell<Vec<usize>> = RefCell::new(vec![]);
    static BAD_TARGET: RefCell<bool> = RefCell::new(false);
    static BAD_AFTER_END: RefCell<bool> = RefCell::new(false);
    static LOG: RefCell<Vec<(usize, usize)>> = RefCell::new(vec![]);
}

struct R(usize);
impl R {
    fn hit(&self) {
        let top = GHOST.with(|g| g.borrow().last().copied().unwrap_or(0));
        LOG.with(|l| l.borrow_mut().push((self.0, top)));
        if top != self.0 { BAD_TARGET.with(|b| *b.borrow_mut() = true); }
        if ENDED.with(|e| e.borrow().contains(&self.0)) { BAD_AFTER_END.with(|b| *b.borrow_mut() = true); }
    }
}
impl Recorder for R {
    fn describe_counter(&self, _: KeyName, _: Option<Unit>, _: SharedString) { self.hit() }
    fn describe_gauge(&self, _: KeyName, _: Option<Unit>, _: SharedString) { self.hit() }
    fn describe_histogram(&self, _: KeyName, _: Option<Unit>, _: SharedString) { self.hit() }
    fn register_counter(&self, _: &Key, _: &Metadata<'_>) -> Counter { self.hit(); Counter::noop() }
    fn register_gauge(&self, _: &Key, _: &Metadata<'_>) -> Gauge { self.hit(); Gauge::noop() }
    fn register_histogram(&self, _: &Key, _: &Metadata<'_>) -> Histogram { self.hit(); Histogram::noop() }
}
static R1: R = R(1);
static R2: R = R(2);
static R3: R = R(3);

#[no_mangle]
pub fn nd_bool() -> bool {
    ND.with(|n| { let mut n = n.borrow_mut(); let i = n.1; n.1 += 1; n.0.get(i).copied().unwrap_or(false) })
}
static GLOBAL_HITS: std::sync::atomic::AtomicUsize = std::sync::atomic::AtomicUsize::new(0);
#[no_mangle]
pub fn mark_global_hit() { GLOBAL_HITS.fetch_add(1, std::sync::atomic::Ordering::SeqCst); }
#[no_mangle]
pub fn nd_panic() -> ! { panic!("scenario panic") }
#[no_mangle]
pub fn rec(i: usize) -> &'static dyn Recorder { match i { 1 => &R1, 2 => &R2, _ => &R3 } }
#[no_mangle]
pub fn mark_install(i: usize) { GHOST.with(|g| g.borrow_mut().push(i)); }
#[no_mangle]
pub fn mark_scope_end(i: usize) {
    GHOST.with(|g| { let mut g = g.borrow_mut(); if let Some(p) = g.iter().rposition(|x| *x == i) { g.remove(p); } });
    ENDED.with(|e| e.borrow_mut().push(i));
}

fn main() {
    let plan = load_plan(&std::env::args().nth(1).expect("plan"));
    let mut nd = vec![];
    let mut i = 0;
    while let Some(v) = plan.inputs.get(&format!("nd{}", i)) { nd.push(*v != 0); i += 1; }
    ND.with(|n| *n.borrow_mut() = (nd, 0));
    let calls: Vec<String> = plan.threads.first().map(|t| t.1.split_whitespace().map(|s| s.to_string()).collect()).unwrap_or_default();
    std::panic::set_hook(Box::new(|_| {}));
    for c in &calls {
        let r = std::panic::catch_unwind(|| match c.as_str() {
            "s_nested" => mirharness::s_nested(),
            "s_guards_lifo" => mirharness::s_guards_lifo(),
            "s_guards_any_order" => mirharness::s_guards_any_order(),
            "s_guard_forget" => mirharness::s_guard_forget(),
            "s_panic_in_scope" => mirharness::s_panic_in_scope(),
            "end_scope2" => mirharness::end_scope2(),
            "s_global" => mirharness::s_global(),
            _ => mirharness::emit(),
        });
        let _ = r;
    }
    println!("dispatch log (recorder, expected innermost live): {:?}", LOG.with(|l| l.borrow().clone()));
    let mut v: Vec<&str> = vec![];
    if BAD_TARGET.with(|b| *b.borrow()) { v.push("dispatch_to_innermost_live_recorder"); }
    if BAD_AFTER_END.with(|b| *b.borrow()) { v.push("no_dispatch_after_scope_end"); }
    if calls.iter().any(|c| c == "s_global") {
        // expected: no-op, global, local rec1, global, global
        let log = LOG.with(|l| l.borrow().clone());
        let g = GLOBAL_HITS.load(std::sync::atomic::Ordering::SeqCst);
        println!("global hits {}", g);
        if g != 3 || log.len() != 1 || log[0].0 != 1 { v.push("fallthrough_local_global_noop"); v.push("exactly_once"); }
    }
    if !v.is_empty() { v.push("K_K1_guard_dropped_while_a_later_guard_is_alive"); v.push("K_K2_guard_leaked_with_mem_forget"); }
    finish(&v, &plan)
}

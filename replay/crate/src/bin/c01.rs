//! Replay of C01 counterexamples: the scenario programs of /verif/mirharness linked against the real `metrics` crate,
//! with the solver's branch choices, recorder doubles that log dispatches and the same ghost scope list as oracle.
use metrics::{Counter, Gauge, Histogram, Key, KeyName, Metadata, Recorder, SharedString, Unit};
use std::cell::RefCell;
use vreplay::*;

thread_local! {
    static ND: RefCell<(Vec<bool>, usize)> = RefCell::new((vec![], 0));
    static GHOST: RefCell<Vec<usize>> = RefCell::new(vec![]);
    static ENDED: RefCell<Vec<usize>> = RefCell::new(vec![]);
    static BAD_TARGET: RefCell<bool> = RefCell::new(false);
    static BAD_AFTER_END: RefCell<bool> = RefCell::new(false);
    static LOG: RefCell<Vec<(usize, usize)>> = RefCell::new(vec![]);
    static DETAIL: RefCell<Vec<(String, String, String, String, String, String, String)>> = RefCell::new(vec![]);
}

fn level_name(l: &metrics::Level) -> &'static str {
    use metrics::Level;
    if *l == Level::TRACE { "TRACE" } else if *l == Level::DEBUG { "DEBUG" } else if *l == Level::INFO { "INFO" } else if *l == Level::WARN { "WARN" } else { "ERROR" }
}
fn reg(op: &str, k: &Key, m: &Metadata<'_>) {
    let labels = k.labels().map(|l| format!("{}={}", l.key(), l.value())).collect::<Vec<_>>().join(",");
    let module_ok = m.module_path() == Some("mirharness");
    DETAIL.with(|d| d.borrow_mut().push((op.to_string(), k.name().to_string(), labels, level_name(m.level()).to_string(),
                                         if module_ok { m.target().to_string() } else { format!("{} (module_path {:?})", m.target(), m.module_path()) }, String::new(), String::new())));
}
fn desc(op: &str, k: &KeyName, u: &Option<Unit>, d: &SharedString) {
    DETAIL.with(|x| x.borrow_mut().push((op.to_string(), k.as_str().to_string(), String::new(), String::new(), String::new(), u.as_ref().map(|u| u.as_str().to_string()).unwrap_or_default(), d.to_string())));
}

struct R(usize);
impl R {
    fn hit(&self) {
        let top = GHOST.with(|g| g.borrow().last().copied().unwrap_or(0));
        LOG.with(|l| l.borrow_mut().push((self.0, top)));
        if top != self.0 { BAD_TARGET.with(|b| *b.borrow_mut() = true); }
        if ENDED.with(|e| e.borrow().contains(&self.0)) { BAD_AFTER_END.with(|b| *b.borrow_mut() = true); }
    }
}
impl Recorder for R {
    fn describe_counter(&self, k: KeyName, u: Option<Unit>, d: SharedString) { self.hit(); desc("describe_counter", &k, &u, &d) }
    fn describe_gauge(&self, k: KeyName, u: Option<Unit>, d: SharedString) { self.hit(); desc("describe_gauge", &k, &u, &d) }
    fn describe_histogram(&self, k: KeyName, u: Option<Unit>, d: SharedString) { self.hit(); desc("describe_histogram", &k, &u, &d) }
    fn register_counter(&self, k: &Key, m: &Metadata<'_>) -> Counter { self.hit(); reg("register_counter", k, m); Counter::noop() }
    fn register_gauge(&self, k: &Key, m: &Metadata<'_>) -> Gauge { self.hit(); reg("register_gauge", k, m); Gauge::noop() }
    fn register_histogram(&self, k: &Key, m: &Metadata<'_>) -> Histogram { self.hit(); reg("register_histogram", k, m); Histogram::noop() }
}
static R1: R = R(1);
static R2: R = R(2);
static R3: R = R(3);

#[no_mangle]
pub fn nd_bool() -> bool {
    ND.with(|n| { let mut n = n.borrow_mut(); let i = n.1; n.1 += 1; n.0.get(i).copied().unwrap_or(false) })
}
static GLOBAL_HITS: std::sync::atomic::AtomicUsize = std::sync::atomic::AtomicUsize::new(0);
#[no_mangle]
pub fn mark_global_hit() { GLOBAL_HITS.fetch_add(1, std::sync::atomic::Ordering::SeqCst); }
#[no_mangle]
pub fn nd_panic() -> ! { panic!("scenario panic") }
#[no_mangle]
pub fn rec(i: usize) -> &'static dyn Recorder { match i { 1 => &R1, 2 => &R2, _ => &R3 } }
#[no_mangle]
pub fn mark_install(i: usize) { GHOST.with(|g| g.borrow_mut().push(i)); }
#[no_mangle]
pub fn mark_scope_end(i: usize) {
    GHOST.with(|g| { let mut g = g.borrow_mut(); if let Some(p) = g.iter().rposition(|x| *x == i) { g.remove(p); } });
    ENDED.with(|e| e.borrow_mut().push(i));
}

fn main() {
    let plan = load_plan(&std::env::args().nth(1).expect("plan"));
    let mut nd = vec![];
    let mut i = 0;
    while let Some(v) = plan.inputs.get(&format!("nd{}", i)) { nd.push(*v != 0); i += 1; }
    ND.with(|n| *n.borrow_mut() = (nd, 0));
    let calls: Vec<String> = plan.threads.first().map(|t| t.1.split_whitespace().map(|s| s.to_string()).collect()).unwrap_or_default();
    std::panic::set_hook(Box::new(|_| {}));
    for c in &calls {
        let r = std::panic::catch_unwind(|| match c.as_str() {
            "s_nested" => mirharness::s_nested(),
            "s_guards_lifo" => mirharness::s_guards_lifo(),
            "s_guards_any_order" => mirharness::s_guards_any_order(),
            "s_guard_forget" => mirharness::s_guard_forget(),
            "s_panic_in_scope" => mirharness::s_panic_in_scope(),
            "end_scope2" => mirharness::end_scope2(),
            "s_global" => mirharness::s_global(),
            "s_global_late" => mirharness::s_global_late(),
            "m_forms" => mirharness::m_forms(),
            "m_dynamic" => mirharness::m_dynamic(),
            _ => mirharness::emit(),
        });
        let _ = r;
    }
    println!("dispatch log (recorder, expected innermost live): {:?}", LOG.with(|l| l.borrow().clone()));
    let mut v: Vec<&str> = vec![];
    if BAD_TARGET.with(|b| *b.borrow()) { v.push("dispatch_to_innermost_live_recorder"); }
    if BAD_AFTER_END.with(|b| *b.borrow()) { v.push("no_dispatch_after_scope_end"); }
    if calls.iter().any(|c| c == "s_global") {
        // expected: no-op, global, local rec1, global, global
        let log = LOG.with(|l| l.borrow().clone());
        let g = GLOBAL_HITS.load(std::sync::atomic::Ordering::SeqCst);
        println!("global hits {}", g);
        if g != 3 || log.len() != 1 || log[0].0 != 1 { v.push("fallthrough_local_global_noop"); v.push("exactly_once"); }
    }
    if calls.iter().any(|c| c == "s_global_late") {
        // expected: local rec1, local rec2, local rec2, global
        let log = LOG.with(|l| l.borrow().clone());
        let g = GLOBAL_HITS.load(std::sync::atomic::Ordering::SeqCst);
        println!("global hits {}", g);
        if g != 1 || log.len() != 3 || log[0].0 != 1 || log[1].0 != 2 || log[2].0 != 2 { v.push("fallthrough_local_global_noop"); v.push("exactly_once"); }
    }
    if calls.iter().any(|c| c == "m_forms") {
        let got = DETAIL.with(|d| d.borrow().clone());
        let want: Vec<_> = mirharness::FORMS.iter().map(|f| (f.0.to_string(), f.1.to_string(), f.2.to_string(), f.3.to_string(), f.4.to_string(), f.5.to_string(), f.6.to_string())).collect();
        for (i, (g, w)) in got.iter().zip(want.iter()).enumerate() {
            if g != w { println!("call site {}: delivered {:?}, spelled {:?}", i, g, w); }
        }
        if got != want || BAD_TARGET.with(|b| *b.borrow()) { println!("delivered {} calls, {} call sites", got.len(), want.len()); v.push("delivered_exactly_once_as_spelled"); }
    }
    if !v.is_empty() && !calls.iter().any(|c| c == "m_forms") { v.push("K_K1_guard_dropped_while_a_later_guard_is_alive"); v.push("K_K2_guard_leaked_with_mem_forget"); }
    finish(&v, &plan)
}

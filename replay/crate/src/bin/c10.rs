//! Replay of C10 storage counterexamples (update thread || flush thread, then a quiescent flush).
use metrics_exporter_dogstatsd::verif::{Counter, Gauge};
use std::sync::{Arc, Mutex};
use vreplay::*;

/// State::flush history: per flush cycle the counter is either incremented before the flush ("active") or left alone.
/// Independent oracle on the payloads: a cycle must carry the counter iff it was active or it is the first idle cycle after activity.
fn flush_history(plan: &Plan) -> ! {
    let n = plan.inputs.get("n").copied().unwrap_or(0) as usize;
    let mut h = metrics_exporter_dogstatsd::verif::FlushHarness::new(false);
    let key = metrics::Key::from_static_name("c10_probe");
    let c = h.counter(&key);
    let mut v: Vec<&str> = vec![];
    let mut idle = false;
    for i in 0..n {
        let active = plan.inputs.get(&format!("active{}", i)).copied().unwrap_or(0) != 0;
        if active { c.increment(3); }
        let payloads = h.flush();
        let lines: Vec<String> = payloads.iter().map(|p| String::from_utf8_lossy(p).to_string()).filter(|l| l.starts_with("c10_probe:")).collect();
        let expect = active || !idle;
        println!("cycle {} active={} payloads {:?} (expected {})", i, active, lines, if expect { "one" } else { "none" });
        if lines.len() != expect as usize { v.push("idle_protocol"); }
        if let Some(l) = lines.first() {
            let want = if active { "c10_probe:3|c" } else { "c10_probe:0|c" };
            if !l.starts_with(want) { v.push("sends_the_flushed_delta"); }
        }
        idle = !active;
    }
    finish(&v, plan)
}

/// histogram (sampling off): record(a); flush || record(x); flush; flush -- native search for the position of the concurrent record
/// inside the flush at which a value is sent in no flush or in two (the solver has decided that such a position exists)
fn histogram_flush_vs_record(plan: &Plan) -> ! {
    let (a, x) = (1.25f64, 7.5f64);
    let key = metrics::Key::from_static_name("c10_hist");
    let mut v: Vec<&str> = vec![];
    for p in 0..600usize {
        let mut h = metrics_exporter_dogstatsd::verif::FlushHarness::new(false);
        let hist = h.histogram(&key);
        hist.record(a);
        let mut sched = vec![1usize; p];
        sched.extend(std::iter::repeat(2usize).take(4000));
        install(sched);
        let hist2 = hist.clone();
        let t1 = std::thread::spawn(move || { set_thread(1); let p1 = h.flush(); thread_done(); (h, p1) });
        let t2 = std::thread::spawn(move || { set_thread(2); hist2.record(x); thread_done(); });
        let (mut h, p1) = t1.join().unwrap();
        t2.join().unwrap();
        let (pos, _) = consumed();
        install(vec![]);
        let p2 = h.flush();
        let p3 = h.flush();
        let text = |ps: &Vec<Vec<u8>>| ps.iter().map(|p| String::from_utf8_lossy(p).to_string()).filter(|l| l.starts_with("c10_hist:")).collect::<Vec<_>>().join("");
        let all = format!("{}{}{}", text(&p1), text(&p2), text(&p3));
        let count = |needle: &str| all.matches(needle).count();
        let (nx, na) = (count(":7.5"), count(":1.25"));
        if nx != 1 || na != 1 {
            println!("record() after {} steps of the flush: value recorded during the flush sent {} times, earlier value {} times; flushes: {:?} / {:?} / {:?}", p, nx, na, text(&p1), text(&p2), text(&p3));
            v.push("every_value_in_exactly_one_flush");
            break;
        }
        if pos < p { println!("the flush has {} instrumented steps; every position tried", pos); break; }
    }
    finish(&v, plan)
}

fn main() {
    let plan = load_plan(&std::env::args().nth(1).expect("plan"));
    if plan.scenario == "c10_histogram_flush_vs_record" { histogram_flush_vs_record(&plan); }
    if plan.scenario == "c10_flush_history" { flush_history(&plan); }
    let a = plan.inputs.get("a").copied().unwrap_or(0);
    let b = plan.inputs.get("b").copied().unwrap_or(0);
    install(plan.sched.clone());
    let c = Arc::new(Counter::new());
    let g = Arc::new(Gauge::new());
    let res: Arc<Mutex<Vec<(u64, u64)>>> = Arc::new(Mutex::new(vec![]));
    let mut kind = String::new();
    let mut hs = vec![];
    for (tid, role) in plan.threads.clone() {
        let (c, g, res) = (c.clone(), g.clone(), res.clone());
        let parts: Vec<String> = role.split_whitespace().map(|x| x.to_string()).collect();
        if parts[0] == "updater" { kind = parts[1].clone(); }
        let k2 = plan.threads.iter().find(|t| t.1.starts_with("updater")).map(|t| t.1.split_whitespace().nth(1).unwrap().to_string()).unwrap_or_default();
        hs.push(std::thread::spawn(move || {
            set_thread(tid);
            if parts[0] == "updater" {
                match parts[1].as_str() {
                    "inc_flush" => c.increment(a),
                    "inc2_flush2" => { c.increment(a); c.increment(b); }
                    "abs2_flush" => { c.absolute(a); c.absolute(b); }
                    "gauge_set_flush" => g.set(f64::from_bits(a)),
                    _ => { g.set(f64::from_bits(a)); g.increment(f64::from_bits(b)); }
                }
            } else {
                let n: usize = parts[1].parse().unwrap();
                for _ in 0..n {
                    let r = if k2.starts_with("gauge") { let (x, u) = g.flush(); (x.to_bits(), u) } else { c.flush() };
                    res.lock().unwrap().push(r);
                }
            }
            thread_done();
        }));
    }
    let mut panicked = false;
    for h in hs { if h.join().is_err() { panicked = true; } }
    metrics::verif_sched::set_hook(None);
    let fin = if kind.starts_with("gauge") { let (x, u) = g.flush(); (x.to_bits(), u) } else { c.flush() };
    let mut all = res.lock().unwrap().clone();
    all.push(fin);
    println!("kind {} a={} b={} flushes {:?}", kind, a, b, all);
    let mut v: Vec<&str> = vec![];
    let sum = all.iter().fold(0u64, |s, x| s.wrapping_add(x.0));
    let ups: u64 = all.iter().map(|x| x.1).sum();
    match kind.as_str() {
        "inc_flush" | "inc2_flush2" => {
            let total = if kind == "inc_flush" { a } else { a.wrapping_add(b) };
            if sum != total { v.push("deltas_sum_to_increments"); }
            if ups != if kind == "inc_flush" { 1 } else { 2 } { v.push("update_counts_sum_to_updates"); }
            if all.iter().any(|x| x.0 != 0 && x.1 == 0) { v.push("K6_nonzero_delta_reported_with_zero_updates"); }
        }
        "abs2_flush" => {
            if sum != b.wrapping_sub(a) { v.push("absolute_deltas_sum_to_last_minus_first"); }
            if all.iter().any(|x| x.0 > b.wrapping_sub(a)) { v.push("K7_first_absolute_racing_flush_gives_wrapped_delta"); v.push("no_delta_exceeds_what_was_added"); }
        }
        "gauge_set_flush" => {
            if all[0].0 != 0 && all[0].0 != a { v.push("flush_sends_a_value_that_was_set"); }
            if all[1].0 != a { v.push("final_flush_sends_most_recent_value"); }
        }
        _ => {
            let want = (f64::from_bits(a) + f64::from_bits(b)).to_bits();
            if all[1].0 != want { v.push("final_flush_sends_most_recent_value"); }
            if all[0].0 != 0 && all[0].0 != a && all[0].0 != want { v.push("flush_sends_an_intermediate_value"); }
        }
    }
    if panicked { v.push("no_panic"); }
    finish(&v, &plan)
}

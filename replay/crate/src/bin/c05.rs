//! Replay of C05 counterexamples: pushers / clearers / snapshot readers on one AtomicBucket (block size 2 in the
//! instrumented scratch copy), then a quiescent final snapshot.
use metrics_util::storage::AtomicBucket;
use std::sync::atomic::{AtomicU64, Ordering};
use std::sync::{Arc, Mutex};
use vreplay::*;

/// logical clock: the scheduler lets one thread run at a time, so ticks taken between instrumented steps are totally ordered
static CLOCK: AtomicU64 = AtomicU64::new(1);
fn tick() -> u64 {
    // the marker is a scheduled step of its own (the encoding has an event at the same point)
    metrics::verif_sched::yield_point("mark");
    CLOCK.fetch_add(1, Ordering::SeqCst)
}

fn main() {
    let plan = load_plan(&std::env::args().nth(1).expect("plan"));
    install(plan.sched.clone());
    let bucket: Arc<AtomicBucket<u64>> = Arc::new(AtomicBucket::new());
    let cleared: Arc<Mutex<Vec<u64>>> = Arc::new(Mutex::new(vec![]));
    let snaps: Arc<Mutex<Vec<u64>>> = Arc::new(Mutex::new(vec![]));
    let mut pushed: Vec<u64> = vec![];
    // values pushed by the setup (this, unscheduled, thread) before any other thread starts: the full tail block of the scenario
    for k in 0..plan.inputs.get("prefill").copied().unwrap_or(0) { bucket.push(500 + k); pushed.push(500 + k); }
    let mut hs = vec![];
    let done_at: Arc<Mutex<Vec<(u64, u64)>>> = Arc::new(Mutex::new(vec![]));          // (value, tick at which its push had returned)
    let reads: Arc<Mutex<Vec<(u64, Vec<u64>)>>> = Arc::new(Mutex::new(vec![]));       // (tick at which the snapshot began, what it saw)
    let empties: Arc<Mutex<Vec<(u64, bool)>>> = Arc::new(Mutex::new(vec![]));          // (tick at which is_empty began, its answer)
    for (tid, role) in plan.threads.clone() {
        let b = bucket.clone();
        let cleared = cleared.clone();
        let snaps = snaps.clone();
        let (done_at, reads, empties) = (done_at.clone(), reads.clone(), empties.clone());
        let parts: Vec<String> = role.split_whitespace().map(|x| x.to_string()).collect();
        if parts[0] == "push" {
            let n: u64 = parts[1].parse().unwrap();
            for k in 0..n { pushed.push(1000 * tid as u64 + k); }
        }
        hs.push(std::thread::spawn(move || {
            set_thread(tid);
            match parts[0].as_str() {
                "push" => {
                    let n: u64 = parts[1].parse().unwrap();
                    for k in 0..n { b.push(1000 * tid as u64 + k); let t = tick(); done_at.lock().unwrap().push((1000 * tid as u64 + k, t)); }
                }
                "clear" => b.clear_with(|vs| cleared.lock().unwrap().extend_from_slice(vs)),
                "data" => {
                    let t = tick();
                    let mut mine: Vec<u64> = vec![];
                    b.data_with(|vs| mine.extend_from_slice(vs));
                    snaps.lock().unwrap().extend_from_slice(&mine);
                    reads.lock().unwrap().push((t, mine));
                }
                _ => { let t = tick(); let e = b.is_empty(); empties.lock().unwrap().push((t, e)); }
            }
            thread_done();
        }));
    }
    let mut panicked = false;
    for h in hs { if h.join().is_err() { panicked = true; } }
    metrics::verif_sched::set_hook(None);
    let mut remaining: Vec<u64> = vec![];
    bucket.data_with(|vs| remaining.extend_from_slice(vs));
    let cleared = cleared.lock().unwrap().clone();
    let snaps = snaps.lock().unwrap().clone();
    println!("pushed {:?} cleared {:?} remaining {:?} snapshots {:?}", pushed, cleared, remaining, snaps);
    let mut v: Vec<&str> = vec![];
    for t in &pushed {
        let c = cleared.iter().filter(|x| *x == t).count() + remaining.iter().filter(|x| *x == t).count();
        if c == 0 { v.extend_from_slice(&["no_value_lost", "K3_push_into_detached_block", "K4_handover_publishes_before_linking"]); }
        if c > 1 { v.push("no_value_duplicated"); }
    }
    if cleared.iter().chain(remaining.iter()).chain(snaps.iter()).any(|x| !pushed.contains(x)) { v.push("no_value_fabricated_or_read_before_written"); }
    let has_clear = plan.threads.iter().any(|t| t.1.starts_with("clear"));
    if !has_clear {
        let done_at = done_at.lock().unwrap().clone();
        for (t0, seen) in reads.lock().unwrap().iter() {
            for (val, td) in &done_at { if td < t0 && !seen.contains(val) { println!("snapshot begun at tick {} misses {} whose push returned at tick {}", t0, val, td); v.push("snapshot_sees_every_completed_push"); } }
        }
        for (t0, e) in empties.lock().unwrap().iter() {
            if *e && done_at.iter().any(|(_, td)| td < t0) { println!("is_empty() begun at tick {} says true after a completed push", t0); v.push("is_empty_is_truthful"); }
        }
    }
    // values of one pusher inside one read appear in push order
    for (_, seen) in reads.lock().unwrap().iter() {
        for w in seen.windows(2) { if w[0] / 1000 == w[1] / 1000 && w[0] > w[1] { v.push("block_values_in_push_order"); } }
    }
    if panicked { v.push("no_panic"); }
    finish(&v, &plan)
}

//! Replay of C05 counterexamples: pushers / clearers / snapshot readers on one AtomicBucket (block size 2 in the
//! instrumented scratch copy), then a quiescent final snapshot.
use metrics_util::storage::AtomicBucket;
use std::sync::{Arc, Mutex};
use vreplay::*;

fn main() {
    let plan = load_plan(&std::env::args().nth(1).expect("plan"));
    install(plan.sched.clone());
    let bucket: Arc<AtomicBucket<u64>> = Arc::new(AtomicBucket::new());
    let cleared: Arc<Mutex<Vec<u64>>> = Arc::new(Mutex::new(vec![]));
    let snaps: Arc<Mutex<Vec<u64>>> = Arc::new(Mutex::new(vec![]));
    let mut pushed: Vec<u64> = vec![];
    let mut hs = vec![];
    for (tid, role) in plan.threads.clone() {
        let b = bucket.clone();
        let cleared = cleared.clone();
        let snaps = snaps.clone();
        let parts: Vec<String> = role.split_whitespace().map(|x| x.to_string()).collect();
        if parts[0] == "push" {
            let n: u64 = parts[1].parse().unwrap();
            for k in 0..n { pushed.push(1000 * tid as u64 + k); }
        }
        hs.push(std::thread::spawn(move || {
            set_thread(tid);
            match parts[0].as_str() {
                "push" => {
                    let n: u64 = parts[1].parse().unwrap();
                    for k in 0..n { b.push(1000 * tid as u64 + k); }
                }
                "clear" => b.clear_with(|vs| cleared.lock().unwrap().extend_from_slice(vs)),
                "data" => b.data_with(|vs| snaps.lock().unwrap().extend_from_slice(vs)),
                _ => { let _ = b.is_empty(); }
            }
            thread_done();
        }));
    }
    let mut panicked = false;
    for h in hs { if h.join().is_err() { panicked = true; } }
    metrics::verif_sched::set_hook(None);
    let mut remaining: Vec<u64> = vec![];
    bucket.data_with(|vs| remaining.extend_from_slice(vs));
    let cleared = cleared.lock().unwrap().clone();
    let snaps = snaps.lock().unwrap().clone();
    println!("pushed {:?} cleared {:?} remaining {:?} snapshots {:?}", pushed, cleared, remaining, snaps);
    let mut v: Vec<&str> = vec![];
    for t in &pushed {
        let c = cleared.iter().filter(|x| *x == t).count() + remaining.iter().filter(|x| *x == t).count();
        if c == 0 { v.extend_from_slice(&["no_value_lost", "K3_push_into_detached_block", "K4_handover_publishes_before_linking"]); }
        if c > 1 { v.push("no_value_duplicated"); }
    }
    if cleared.iter().chain(remaining.iter()).chain(snaps.iter()).any(|x| !pushed.contains(x)) { v.push("no_value_fabricated_or_read_before_written"); }
    if panicked { v.push("no_panic"); }
    finish(&v, &plan)
}

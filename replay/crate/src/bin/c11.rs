//! Replay of C11 start-up counterexamples: build the TCP exporter with the given buffer configuration and check that
//! its transport thread is alive and serving (a client can connect and receives data after an emission).
use std::io::Read;
use std::net::TcpStream;
use std::time::Duration;
use vreplay::*;

/// A client that stalls while large frames are emitted, then reads everything: the stream must be a concatenation of whole
/// length-delimited frames (independent varint decoder), and with a buffer limit far above the number of frames none may be missing.
fn drive_scenario(plan: &Plan) -> ! {
    const N: usize = 48;
    const VAL: usize = 300_000;
    let port = { let l = std::net::TcpListener::bind("127.0.0.1:0").unwrap(); l.local_addr().unwrap().port() };
    let addr: std::net::SocketAddr = format!("127.0.0.1:{}", port).parse().unwrap();
    let rec = metrics_exporter_tcp::TcpBuilder::new().listen_address(addr).buffer_size(Some(4096)).build().expect("build");
    std::thread::sleep(Duration::from_millis(300));
    let mut c = TcpStream::connect_timeout(&addr, Duration::from_secs(2)).expect("connect");
    std::thread::sleep(Duration::from_millis(300));
    metrics::with_local_recorder(&rec, || {
        for i in 0..N {
            let letter = (b'A' + (i % 26) as u8) as char;
            let v: String = std::iter::repeat(letter).take(VAL).collect();
            metrics::gauge!("g", "seq" => format!("{}", i), "v" => v).set(i as f64);
            std::thread::sleep(Duration::from_millis(25));      // one wake-up of the transport thread per frame
        }
    });
    std::thread::sleep(Duration::from_millis(300));
    // now read until the stream is idle, then emit a few more frames to a client that is reading, and read again
    c.set_read_timeout(Some(Duration::from_millis(1500))).unwrap();
    let mut raw: Vec<u8> = Vec::new();
    let mut buf = vec![0u8; 1 << 16];
    for phase in 0..2 {
        loop {
            match c.read(&mut buf) {
                Ok(0) => break,
                Ok(k) => raw.extend_from_slice(&buf[..k]),
                Err(_) => break,
            }
        }
        if phase == 0 {
            metrics::with_local_recorder(&rec, || {
                for i in 0..4 {
                    let v: String = std::iter::repeat('Z').take(VAL).collect();
                    metrics::gauge!("g", "seq" => format!("{}", 1000 + i), "v" => v).set(0.0);
                    std::thread::sleep(Duration::from_millis(25));
                }
            });
        }
    }
    // independent decoder: varint length, then that many bytes
    let mut pos = 0usize;
    let mut whole = 0usize;
    let mut torn = false;
    let mut seen = vec![false; N];
    while pos < raw.len() {
        let mut len = 0usize;
        let mut shift = 0;
        loop {
            if pos >= raw.len() { break; }
            let b = raw[pos];
            pos += 1;
            len |= ((b & 0x7f) as usize) << shift;
            shift += 7;
            if b & 0x80 == 0 { break; }
            if shift > 35 { torn = true; break; }
        }
        if torn { break; }
        if pos + len > raw.len() { println!("last frame cut off by the end of the capture ({} of {} bytes)", raw.len() - pos, len); break; }
        let payload = &raw[pos..pos + len];
        pos += len;
        // a whole frame holds exactly one run of VAL identical capital letters
        let mut runs = vec![];
        let mut i = 0;
        while i < payload.len() {
            let ch = payload[i];
            let mut j = i;
            while j < payload.len() && payload[j] == ch { j += 1; }
            if ch.is_ascii_uppercase() && j - i >= 1000 { runs.push((ch, j - i)); }
            i = j;
        }
        if runs.len() == 1 && runs[0].1 >= VAL && runs[0].1 <= VAL + 2 && len < VAL + 200 {
            whole += 1;
            // the sequence number is the other label: find "seq" and the digits after it
            if let Some(p) = payload.windows(3).position(|w| w == b"seq") {
                let digits: String = payload[p + 3..].iter().skip_while(|b| !b.is_ascii_digit()).take_while(|b| b.is_ascii_digit()).map(|b| *b as char).collect();
                if let Ok(k) = digits.parse::<usize>() { if k < N { seen[k] = true; } }
            }
        } else if len > 1000 {
            println!("frame of {} bytes is not one whole message: letter runs {:?}", len, runs);
            torn = true;
            break;
        }
    }
    let missing: Vec<usize> = (0..N).filter(|k| !seen[*k]).collect();
    println!("captured {} bytes, {} whole frames, torn={}, missing seq {:?}", raw.len(), whole, torn, missing);
    let mut v = vec![];
    if torn { v.push("no_torn_frame"); v.push("no_frame_lost_by_a_failed_write"); }
    if !torn && !missing.is_empty() { v.push("no_frame_lost_by_a_failed_write"); }
    finish(&v, plan)
}

fn main() {
    let plan = load_plan(&std::env::args().nth(1).expect("plan"));
    if plan.scenario == "c11_drive" { drive_scenario(&plan); }
    let has = plan.inputs.get("has").copied().unwrap_or(0) != 0;
    let n = plan.inputs.get("n").copied().unwrap_or(0) as usize;
    // pick a free port
    let port = { let l = std::net::TcpListener::bind("127.0.0.1:0").unwrap(); l.local_addr().unwrap().port() };
    let addr: std::net::SocketAddr = format!("127.0.0.1:{}", port).parse().unwrap();
    let size = if has { Some(n) } else { None };
    let rec = metrics_exporter_tcp::TcpBuilder::new().listen_address(addr).buffer_size(size).build().expect("build");
    std::thread::sleep(Duration::from_millis(300));
    let mut served = false;
    if let Ok(mut c) = TcpStream::connect_timeout(&addr, Duration::from_secs(2)) {
        c.set_read_timeout(Some(Duration::from_secs(2))).unwrap();
        std::thread::sleep(Duration::from_millis(200));
        metrics::with_local_recorder(&rec, || {
            metrics::describe_counter!("hits", "d");
            for _ in 0..20 { metrics::counter!("hits").increment(1); std::thread::sleep(Duration::from_millis(10)); }
        });
        let mut buf = [0u8; 64];
        if let Ok(k) = c.read(&mut buf) { served = k > 0; }
    }
    println!("buffer_size={:?} served={}", size, served);
    let mut v = vec![];
    if !served { v.push("starts_with_no_limit"); v.push("starts_for_every_limit"); }
    finish(&v, &plan)
}

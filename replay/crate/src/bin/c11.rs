//! Replay of C11 start-up counterexamples: build the TCP exporter with the given buffer configuration and check that
//! its transport thread is alive and serving (a client can connect and receives data after an emission).
use std::io::Read;
use std::net::TcpStream;
use std::time::Duration;
use vreplay::*;

/// A client that stalls while large frames are emitted, then reads everything: the stream must be a concatenation of whole
/// length-delimited frames (independent varint decoder), and with a buffer limit far above the number of frames none may be missing.
fn drive_scenario(plan: &Plan) -> ! {
    const N: usize = 48;
    const VAL: usize = 300_000;
    let port = { let l = std::net::TcpListener::bind("127.0.0.1:0").unwrap(); l.local_addr().unwrap().port() };
    let addr: std::net::SocketAddr = format!("127.0.0.1:{}", port).parse().unwrap();
    let rec = metrics_exporter_tcp::TcpBuilder::new().listen_address(addr).buffer_size(Some(4096)).build().expect("build");
    std::thread::sleep(Duration::from_millis(300));
    let mut c = TcpStream::connect_timeout(&addr, Duration::from_secs(2)).expect("connect");
    std::thread::sleep(Duration::from_millis(300));
    metrics::with_local_recorder(&rec, || {
        for i in 0..N {
            let letter = (b'A' + (i % 26) as u8) as char;
            let v: String = std::iter::repeat(letter).take(VAL).collect();
            metrics::gauge!("g", "seq" => format!("{}", i), "v" => v).set(i as f64);
            std::thread::sleep(Duration::from_millis(25));      // one wake-up of the transport thread per frame
        }
    });
    std::thread::sleep(Duration::from_millis(300));
    // now read until the stream is idle, then emit a few more frames to a client that is reading, and read again
    c.set_read_timeout(Some(Duration::from_millis(1500))).unwrap();
    let mut raw: Vec<u8> = Vec::new();
    let mut buf = vec![0u8; 1 << 16];
    for phase in 0..2 {
        loop {
            match c.read(&mut buf) {
                Ok(0) => break,
                Ok(k) => raw.extend_from_slice(&buf[..k]),
                Err(_) => break,
            }
        }
        if phase == 0 {
            metrics::with_local_recorder(&rec, || {
                for i in 0..4 {
                    let v: String = std::iter::repeat('Z').take(VAL).collect();
                    metrics::gauge!("g", "seq" => format!("{}", 1000 + i), "v" => v).set(0.0);
                    std::thread::sleep(Duration::from_millis(25));
                }
            });
        }
    }
    // independent decoder: varint length, then that many bytes
    let mut pos = 0usize;
    let mut whole = 0usize;
    let mut torn = false;
    let mut seen = vec![false; N];
    while pos < raw.len() {
        let mut len = 0usize;
        let mut shift = 0;
        loop {
            if pos >= raw.len() { break; }
            let b = raw[pos];
            pos += 1;
            len |= ((b & 0x7f) as usize) << shift;
            shift += 7;
            if b & 0x80 == 0 { break; }
            if shift > 35 { torn = true; break; }
        }
        if torn { break; }
        if pos + len > raw.len() { println!("last frame cut off by the end of the capture ({} of {} bytes)", raw.len() - pos, len); break; }
        let payload = &raw[pos..pos + len];
        pos += len;
        // a whole frame holds exactly one run of VAL identical capital letters
        let mut runs = vec![];
        let mut i = 0;
        while i < payload.len() {
            let ch = payload[i];
            let mut j = i;
            while j < payload.len() && payload[j] == ch { j += 1; }
            if ch.is_ascii_uppercase() && j - i >= 1000 { runs.push((ch, j - i)); }
            i = j;
        }
        if runs.len() == 1 && runs[0].1 >= VAL && runs[0].1 <= VAL + 2 && len < VAL + 200 {
            whole += 1;
            // the sequence number is the other label: find "seq" and the digits after it
            if let Some(p) = payload.windows(3).position(|w| w == b"seq") {
                let digits: String = payload[p + 3..].iter().skip_while(|b| !b.is_ascii_digit()).take_while(|b| b.is_ascii_digit()).map(|b| *b as char).collect();
                if let Ok(k) = digits.parse::<usize>() { if k < N { seen[k] = true; } }
            }
        } else if len > 1000 {
            println!("frame of {} bytes is not one whole message: letter runs {:?}", len, runs);
            torn = true;
            break;
        }
    }
    let missing: Vec<usize> = (0..N).filter(|k| !seen[*k]).collect();
    println!("captured {} bytes, {} whole frames, torn={}, missing seq {:?}", raw.len(), whole, torn, missing);
    let mut v = vec![];
    if torn { v.push("no_torn_frame"); v.push("no_frame_lost_by_a_failed_write"); }
    if !torn && !missing.is_empty() { v.push("no_frame_lost_by_a_failed_write"); }
    finish(&v, plan)
}

/// independent decoder of the client stream: varint length + payload; returns (payloads, bytes left over at the end, framing broken)
fn frames_of(raw: &[u8]) -> (Vec<Vec<u8>>, usize, bool) {
    let mut pos = 0usize;
    let mut out = vec![];
    while pos < raw.len() {
        let start = pos;
        let mut len = 0usize;
        let mut shift = 0;
        let mut ok = false;
        while pos < raw.len() {
            let b = raw[pos];
            pos += 1;
            len |= ((b & 0x7f) as usize) << shift;
            shift += 7;
            if b & 0x80 == 0 { ok = true; break; }
            if shift > 35 { return (out, raw.len() - start, true); }
        }
        if !ok || pos + len > raw.len() { return (out, raw.len() - start, false); }
        out.push(raw[pos..pos + len].to_vec());
        pos += len;
    }
    (out, 0, false)
}

fn count(hay: &[u8], needle: &[u8]) -> usize {
    if needle.is_empty() || hay.len() < needle.len() { return 0; }
    hay.windows(needle.len()).filter(|w| *w == needle).count()
}

fn read_all(c: &mut TcpStream, idle_ms: u64) -> Vec<u8> {
    c.set_read_timeout(Some(Duration::from_millis(idle_ms))).unwrap();
    let mut raw = Vec::new();
    let mut buf = vec![0u8; 1 << 16];
    loop {
        match c.read(&mut buf) { Ok(0) => break, Ok(k) => raw.extend_from_slice(&buf[..k]), Err(_) => break }
    }
    raw
}

/// The event-loop scenarios of the encoding, driven through the public API over loopback sockets.
fn loop_scenario(plan: &Plan) -> ! {
    let which = plan.inputs.get("which").copied().unwrap_or(0);
    let port = { let l = std::net::TcpListener::bind("127.0.0.1:0").unwrap(); l.local_addr().unwrap().port() };
    let addr: std::net::SocketAddr = format!("127.0.0.1:{}", port).parse().unwrap();
    let mut v: Vec<&str> = vec![];
    let nap = |ms: u64| std::thread::sleep(Duration::from_millis(ms));
    match which {
        0 => {
            // two clients; one goes away; the other keeps reading and must get every metric emitted afterwards
            let rec = metrics_exporter_tcp::TcpBuilder::new().listen_address(addr).buffer_size(Some(64)).build().expect("build");
            nap(300);
            metrics::with_local_recorder(&rec, || metrics::describe_counter!("c11m", "c11desc10"));
            nap(100);
            let a = TcpStream::connect_timeout(&addr, Duration::from_secs(2)).expect("connect a");
            let mut b = TcpStream::connect_timeout(&addr, Duration::from_secs(2)).expect("connect b");
            nap(300);
            metrics::with_local_recorder(&rec, || metrics::counter!("c11m", "seq" => "s0e").increment(1));
            nap(200);
            drop(a);
            nap(200);
            let n = 12;
            metrics::with_local_recorder(&rec, || {
                for i in 1..=n { metrics::counter!("c11m", "seq" => format!("s{}e", i)).increment(1); nap(120); }
            });
            nap(300);
            let raw = read_all(&mut b, 800);
            let (frames, _rest, broken) = frames_of(&raw);
            let got: Vec<usize> = (0..=n).filter(|i| frames.iter().any(|f| count(f, format!("s{}e", i).as_bytes()) > 0)).collect();
            println!("reading client: {} frames, framing broken={}, metrics received {:?} of 0..={}", frames.len(), broken, got, n);
            // the first one or two emissions after the other client left may still go out before the loop notices; the tail must arrive
            if got.len() < n + 1 && !got.contains(&n) { v.push("client_bookkeeping"); v.push("reading_client_gets_everything"); }
            if broken { v.push("whole_frames_only"); }
        }
        1 => {
            // a metric is re-described between two connects: the later client must be told the latest unit/description, once, first
            let rec = metrics_exporter_tcp::TcpBuilder::new().listen_address(addr).buffer_size(Some(64)).build().expect("build");
            nap(300);
            metrics::with_local_recorder(&rec, || { metrics::describe_counter!("c11m", metrics::Unit::Bytes, "c11desc10"); metrics::describe_gauge!("c11g", "c11desc12"); });
            nap(150);
            let mut a = TcpStream::connect_timeout(&addr, Duration::from_secs(2)).expect("connect a");
            nap(300);
            metrics::with_local_recorder(&rec, || { metrics::describe_counter!("c11m", metrics::Unit::Seconds, "c11desc11"); metrics::counter!("c11m", "seq" => "s0e").increment(1); });
            nap(300);
            let mut b = TcpStream::connect_timeout(&addr, Duration::from_secs(2)).expect("connect b");
            nap(300);
            metrics::with_local_recorder(&rec, || metrics::counter!("c11m", "seq" => "s1e").increment(1));
            nap(300);
            let (fa, _, ba) = frames_of(&read_all(&mut a, 600));
            let (fb, _, bb) = frames_of(&read_all(&mut b, 600));
            let summary = |fs: &Vec<Vec<u8>>| fs.iter().map(|f| format!("[d10:{} d11:{} d12:{} s0:{} s1:{}]", count(f, b"c11desc10"), count(f, b"c11desc11"), count(f, b"c11desc12"), count(f, b"s0e"), count(f, b"s1e"))).collect::<Vec<_>>().join(" ");
            println!("client a: {}\nclient b: {}", summary(&fa), summary(&fb));
            let all = |fs: &Vec<Vec<u8>>, n: &[u8]| fs.iter().map(|f| count(f, n)).sum::<usize>();
            // b: latest description of c11m exactly once, the stale one never, metadata before metrics, s1 once, s0 never
            let meta_idx: Vec<usize> = fb.iter().enumerate().filter(|(_, f)| count(f, b"c11desc") > 0).map(|(i, _)| i).collect();
            let metric_idx: Vec<usize> = fb.iter().enumerate().filter(|(_, f)| count(f, b"s1e") + count(f, b"s0e") > 0).map(|(i, _)| i).collect();
            let ordered = meta_idx.iter().all(|m| metric_idx.iter().all(|x| m < x));
            if all(&fb, b"c11desc11") != 1 || all(&fb, b"c11desc10") != 0 || all(&fb, b"c11desc12") != 1 || !ordered || all(&fb, b"s0e") != 0 { v.push("metadata_first_current_then_metrics_in_order"); }
            if all(&fb, b"s1e") != 1 || all(&fa, b"s0e") != 1 || all(&fa, b"s1e") != 1 || all(&fa, b"c11desc10") != 1 { v.push("reading_client_gets_everything"); }
            if ba || bb { v.push("whole_frames_only"); }
        }
        _ => {
            // one client that stalls while large frames are emitted into a buffer of 2, then reads: only whole frames, in order
            const VAL: usize = 200_000;
            let rec = metrics_exporter_tcp::TcpBuilder::new().listen_address(addr).buffer_size(Some(2)).build().expect("build");
            nap(300);
            let mut c = TcpStream::connect_timeout(&addr, Duration::from_secs(2)).expect("connect");
            nap(300);
            let n = 60;
            metrics::with_local_recorder(&rec, || {
                for i in 0..n {
                    let letter = (b'A' + (i % 26) as u8) as char;
                    let big: String = std::iter::repeat(letter).take(VAL).collect();
                    metrics::gauge!("c11g", "seq" => format!("s{}e", i), "v" => big).set(i as f64);
                    nap(20);
                }
            });
            nap(300);
            let mut raw = read_all(&mut c, 1200);
            metrics::with_local_recorder(&rec, || { for i in 0..3 { metrics::gauge!("c11g", "seq" => format!("s{}e", 1000 + i)).set(0.0); nap(30); } });
            raw.extend(read_all(&mut c, 800));
            let (frames, rest, broken) = frames_of(&raw);
            let mut torn = broken || rest > 0;
            let mut last = -1i64;
            let mut order_ok = true;
            for f in &frames {
                let seqs: Vec<i64> = (0..n as i64).chain(1000..1003).filter(|i| count(f, format!("s{}e", i).as_bytes()) > 0).collect();
                if seqs.len() != 1 { torn = true; println!("a frame of {} bytes holds {} sequence markers", f.len(), seqs.len()); break; }
                if f.len() > 1000 && !(f.len() >= VAL && f.len() < VAL + 300) { torn = true; println!("a frame of {} bytes is not one whole message", f.len()); break; }
                if seqs[0] <= last { order_ok = false; }
                last = seqs[0];
            }
            println!("stalled client: {} bytes, {} frames, {} bytes left over, torn={}, in order={}", raw.len(), frames.len(), rest, torn, order_ok);
            if torn { v.push("whole_frames_only"); }
            if !order_ok { v.push("metadata_first_current_then_metrics_in_order"); }
        }
    }
    finish(&v, plan)
}

// ---- the wake-up protocol: a tracing subscriber parks the transport thread at its k-th trace event
mod park {
    use std::sync::atomic::{AtomicUsize, Ordering};
    use std::sync::{Condvar, Mutex};
    pub static SEEN: AtomicUsize = AtomicUsize::new(0);
    pub static PARK_AT: AtomicUsize = AtomicUsize::new(usize::MAX);
    pub static STATE: Mutex<(bool, bool)> = Mutex::new((false, false));      // (parked, released)
    pub static CV: Condvar = Condvar::new();
    pub static MAIN: Mutex<Option<std::thread::ThreadId>> = Mutex::new(None);
    pub struct Sub;
    impl tracing::Subscriber for Sub {
        fn enabled(&self, _: &tracing::Metadata<'_>) -> bool { true }
        fn new_span(&self, _: &tracing::span::Attributes<'_>) -> tracing::span::Id { tracing::span::Id::from_u64(1) }
        fn record(&self, _: &tracing::span::Id, _: &tracing::span::Record<'_>) {}
        fn record_follows_from(&self, _: &tracing::span::Id, _: &tracing::span::Id) {}
        fn enter(&self, _: &tracing::span::Id) {}
        fn exit(&self, _: &tracing::span::Id) {}
        fn event(&self, _: &tracing::Event<'_>) {
            if Some(std::thread::current().id()) == *MAIN.lock().unwrap() { return; }
            let k = SEEN.fetch_add(1, Ordering::SeqCst);
            if k == PARK_AT.load(Ordering::SeqCst) {
                let mut g = STATE.lock().unwrap();
                g.0 = true;
                CV.notify_all();
                let (g2, _) = CV.wait_timeout_while(g, std::time::Duration::from_secs(5), |s| !s.1).unwrap();
                drop(g2);
            }
        }
    }
    pub fn arm(k: usize) { SEEN.store(0, Ordering::SeqCst); *STATE.lock().unwrap() = (false, false); PARK_AT.store(k, Ordering::SeqCst); }
    pub fn wait_parked(ms: u64) -> bool {
        let g = STATE.lock().unwrap();
        let (g, _) = CV.wait_timeout_while(g, std::time::Duration::from_millis(ms), |s| !s.0).unwrap();
        g.0
    }
    pub fn release() { STATE.lock().unwrap().1 = true; PARK_AT.store(usize::MAX, Ordering::SeqCst); CV.notify_all(); }
}

/// The solver's counterexample: an emission by another thread lands at a point of the transport's drain-and-sleep cycle after which
/// the transport blocks with the event still in the channel. Native position search: the transport thread is parked at its p-th trace
/// event (p = 0, 1, ...), a second description is emitted, the transport is released and everything goes quiet; a client that connects
/// afterwards must be told about both descriptions.
fn wake_scenario(plan: &Plan) -> ! {
    *park::MAIN.lock().unwrap() = Some(std::thread::current().id());
    tracing::subscriber::set_global_default(park::Sub).expect("subscriber");
    let mut v: Vec<&str> = vec![];
    let nap = |ms: u64| std::thread::sleep(Duration::from_millis(ms));
    for p in 0..12usize {
        let port = { let l = std::net::TcpListener::bind("127.0.0.1:0").unwrap(); l.local_addr().unwrap().port() };
        let addr: std::net::SocketAddr = format!("127.0.0.1:{}", port).parse().unwrap();
        let rec = metrics_exporter_tcp::TcpBuilder::new().listen_address(addr).buffer_size(Some(64)).build().expect("build");
        nap(200);
        park::arm(p);
        metrics::with_local_recorder(&rec, || metrics::describe_counter!("c11wa", "c11wakeAdesc"));
        let parked = park::wait_parked(400);
        metrics::with_local_recorder(&rec, || metrics::describe_counter!("c11wb", "c11wakeBdesc"));
        park::release();
        nap(300);
        let mut c = TcpStream::connect_timeout(&addr, Duration::from_secs(2)).expect("connect");
        let raw = read_all(&mut c, 500);
        let (frames, _rest, _broken) = frames_of(&raw);
        let has = |needle: &str| frames.iter().any(|f| count(f, needle.as_bytes()) > 0);
        println!("transport parked at its trace event #{} ({}): a client connecting after both descriptions learns A: {} B: {}", p, if parked { "reached" } else { "not reached" }, has("c11wakeAdesc"), has("c11wakeBdesc"));
        if !(has("c11wakeAdesc") && has("c11wakeBdesc")) { v.push("no_lost_wakeup"); break; }
        if !parked { break; }
    }
    finish(&v, plan)
}

fn main() {
    let plan = load_plan(&std::env::args().nth(1).expect("plan"));
    if plan.scenario == "c11_drive" { drive_scenario(&plan); }
    if plan.scenario == "c11_loop" { loop_scenario(&plan); }
    if plan.scenario == "c11_wake" { wake_scenario(&plan); }
    let has = plan.inputs.get("has").copied().unwrap_or(0) != 0;
    let n = plan.inputs.get("n").copied().unwrap_or(0) as usize;
    // pick a free port
    let port = { let l = std::net::TcpListener::bind("127.0.0.1:0").unwrap(); l.local_addr().unwrap().port() };
    let addr: std::net::SocketAddr = format!("127.0.0.1:{}", port).parse().unwrap();
    let size = if has { Some(n) } else { None };
    let rec = metrics_exporter_tcp::TcpBuilder::new().listen_address(addr).buffer_size(size).build().expect("build");
    std::thread::sleep(Duration::from_millis(300));
    let mut served = false;
    if let Ok(mut c) = TcpStream::connect_timeout(&addr, Duration::from_secs(2)) {
        c.set_read_timeout(Some(Duration::from_secs(2))).unwrap();
        std::thread::sleep(Duration::from_millis(200));
        metrics::with_local_recorder(&rec, || {
            metrics::describe_counter!("hits", "d");
            for _ in 0..20 { metrics::counter!("hits").increment(1); std::thread::sleep(Duration::from_millis(10)); }
        });
        let mut buf = [0u8; 64];
        if let Ok(k) = c.read(&mut buf) { served = k > 0; }
    }
    println!("buffer_size={:?} served={}", size, served);
    let mut v = vec![];
    if !served { v.push("starts_with_no_limit"); v.push("starts_for_every_limit"); }
    finish(&v, &plan)
}

//! Replay of C11 start-up counterexamples: build the TCP exporter with the given buffer configuration and check that
//! its transport thread is alive and serving (a client can connect and receives data after an emission).
use std::io::Read;
use std::net::TcpStream;
use std::time::Duration;
use vreplay::*;

fn main() {
    let plan = load_plan(&std::env::args().nth(1).expect("plan"));
    let has = plan.inputs.get("has").copied().unwrap_or(0) != 0;
    let n = plan.inputs.get("n").copied().unwrap_or(0) as usize;
    // pick a free port
    let port = { let l = std::net::TcpListener::bind("127.0.0.1:0").unwrap(); l.local_addr().unwrap().port() };
    let addr: std::net::SocketAddr = format!("127.0.0.1:{}", port).parse().unwrap();
    let size = if has { Some(n) } else { None };
    let rec = metrics_exporter_tcp::TcpBuilder::new().listen_address(addr).buffer_size(size).build().expect("build");
    std::thread::sleep(Duration::from_millis(300));
    let mut served = false;
    if let Ok(mut c) = TcpStream::connect_timeout(&addr, Duration::from_secs(2)) {
        c.set_read_timeout(Some(Duration::from_secs(2))).unwrap();
        std::thread::sleep(Duration::from_millis(200));
        metrics::with_local_recorder(&rec, || {
            metrics::describe_counter!("hits", "d");
            for _ in 0..20 { metrics::counter!("hits").increment(1); std::thread::sleep(Duration::from_millis(10)); }
        });
        let mut buf = [0u8; 64];
        if let Ok(k) = c.read(&mut buf) { served = k > 0; }
    }
    println!("buffer_size={:?} served={}", size, served);
    let mut v = vec![];
    if !served { v.push("starts_with_no_limit"); v.push("starts_for_every_limit"); }
    finish(&v, &plan)
}

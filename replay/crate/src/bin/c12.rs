//! Replay of C12 counterexamples (sequential): the same key under two kinds, observed counter / gauge / counter.
use metrics::Key;
use metrics_util::registry::{GenerationalAtomicStorage, Recency, Registry};
use metrics_util::MetricKindMask;
use std::time::Duration;
use vreplay::*;

/// a usage history on one key: per step the kind observed, the number of updates since the previous step and the time passed
fn history(plan: &Plan) -> ! {
    use metrics::{CounterFn, GaugeFn, HistogramFn};
    let g = |k: &str| plan.inputs.get(k).copied().unwrap_or(0);
    let n = g("n") as usize;
    let mask = MetricKindMask::NONE
        | if g("mask") & 1 != 0 { MetricKindMask::COUNTER } else { MetricKindMask::NONE }
        | if g("mask") & 2 != 0 { MetricKindMask::GAUGE } else { MetricKindMask::NONE }
        | if g("mask") & 4 != 0 { MetricKindMask::HISTOGRAM } else { MetricKindMask::NONE };
    let timeout = if g("has_timeout") != 0 { Some(Duration::from_nanos(g("timeout"))) } else { None };
    let (clock, mock) = quanta::Clock::mock();
    let recency = Recency::new(clock, mask, timeout);
    let registry: Registry<Key, GenerationalAtomicStorage> = Registry::new(GenerationalAtomicStorage::atomic());
    let key = Key::from_name("k");
    // reference, from the property text: per kind (generation at the last change seen, time of that observation)
    let mut seen: [Option<(u64, u64)>; 3] = [None, None, None];
    let mut gen: [u64; 3] = [0, 0, 0];
    let mut total: [u64; 3] = [0, 0, 0];
    let mut now = 0u64;
    let mut v = vec![];
    for i in 0..n {
        let (kind, upd, dt) = (g(&format!("kind{}", i)) as usize, g(&format!("upd{}", i)), g(&format!("dt{}", i)));
        now += dt;
        mock.increment(dt);
        let real_gen;
        let got;
        match kind {
            0 => { let h = registry.get_or_create_counter(&key, |c| c.clone()); for _ in 0..upd { CounterFn::increment(&h, 1); } real_gen = h.get_generation(); got = recency.should_store_counter(&key, real_gen, &registry); }
            1 => { let h = registry.get_or_create_gauge(&key, |c| c.clone()); for _ in 0..upd { GaugeFn::increment(&h, 1.0); } real_gen = h.get_generation(); got = recency.should_store_gauge(&key, real_gen, &registry); }
            _ => { let h = registry.get_or_create_histogram(&key, |c| c.clone()); for _ in 0..upd { HistogramFn::record(&h, 1.0); } real_gen = h.get_generation(); got = recency.should_store_histogram(&key, real_gen, &registry); }
        }
        gen[kind] += upd;
        total[kind] += upd;
        let covered = timeout.is_some() && g("mask") & (1 << kind) != 0;
        let unchanged = matches!(seen[kind], Some((sg, _)) if sg == gen[kind]);
        let drop = covered && unchanged && now - seen[kind].unwrap().1 > g("timeout");
        println!("step {}: kind {} updates {} now {} generation {:?} -> should_store = {} (expected {})", i, kind, upd, now, real_gen, got, !drop);
        if got == drop { v.push("dropped_exactly_when_idle_longer_than_the_timeout"); }
        let present = match kind { 0 => registry.get_counter(&key).is_some(), 1 => registry.get_gauge(&key).is_some(), _ => registry.get_histogram(&key).is_some() };
        if present == drop { println!("  registry entry present = {} after expected drop = {}", present, drop); v.push("dropped_exactly_when_idle_longer_than_the_timeout"); }
        if drop { seen[kind] = None; gen[kind] = 0; total[kind] = 0; } else if covered && !unchanged { seen[kind] = Some((gen[kind], now)); }
        if kind == 0 && !drop {
            let val = registry.get_counter(&key).map(|c| c.get_inner().load(std::sync::atomic::Ordering::Relaxed));
            if val != Some(total[0]) { println!("  counter value {:?}, expected {} (full value / fresh series from zero)", val, total[0]); v.push("dropped_exactly_when_idle_longer_than_the_timeout"); }
        }
    }
    finish(&v, plan)
}

fn main() {
    let plan = load_plan(&std::env::args().nth(1).expect("plan"));
    if plan.scenario == "c12_history" { history(&plan); }
    let g = |k: &str| plan.inputs.get(k).copied().unwrap_or(0);
    let (now0, now1, now2, gen0, gen1, timeout) = (g("now0"), g("now1"), g("now2"), g("gen0"), g("gen1"), g("timeout"));
    let (clock, mock) = quanta::Clock::mock();
    let recency = Recency::new(clock, MetricKindMask::ALL, Some(Duration::from_nanos(timeout)));
    let registry: Registry<Key, GenerationalAtomicStorage> = Registry::new(GenerationalAtomicStorage::atomic());
    let key = Key::from_name("k");
    let c = registry.get_or_create_counter(&key, |c| c.clone());
    let ga = registry.get_or_create_gauge(&key, |g| g.clone());
    use metrics::{CounterFn, GaugeFn};
    for _ in 0..gen0 { CounterFn::increment(&c, 1); }
    for _ in 0..gen1 { GaugeFn::set(&ga, 1.0); }
    mock.increment(now0);
    let r0 = recency.should_store_counter(&key, c.get_generation(), &registry);
    mock.increment(now1 - now0);
    let r1 = recency.should_store_gauge(&key, ga.get_generation(), &registry);
    mock.increment(now2 - now1);
    let r2 = recency.should_store_counter(&key, c.get_generation(), &registry);
    let deleted = registry.get_counter(&key).is_none();
    let idle = now2 - now0 > timeout;
    println!("r0={} r1={} r2={} counter_deleted={} idle_longer_than_timeout={}", r0, r1, r2, deleted, idle);
    let mut v = vec![];
    if deleted != idle { v.push("counter_idle_clock_is_not_reset_by_the_gauge"); }
    if registry.get_gauge(&key).is_none() { v.push("gauge_is_not_dropped_by_the_counter_history"); }
    finish(&v, &plan)
}

//! Replay of C12 counterexamples (sequential): the same key under two kinds, observed counter / gauge / counter.
use metrics::Key;
use metrics_util::registry::{GenerationalAtomicStorage, Recency, Registry};
use metrics_util::MetricKindMask;
use std::time::Duration;
use vreplay::*;

fn main() {
    let plan = load_plan(&std::env::args().nth(1).expect("plan"));
    let g = |k: &str| plan.inputs.get(k).copied().unwrap_or(0);
    let (now0, now1, now2, gen0, gen1, timeout) = (g("now0"), g("now1"), g("now2"), g("gen0"), g("gen1"), g("timeout"));
    let (clock, mock) = quanta::Clock::mock();
    let recency = Recency::new(clock, MetricKindMask::ALL, Some(Duration::from_nanos(timeout)));
    let registry: Registry<Key, GenerationalAtomicStorage> = Registry::new(GenerationalAtomicStorage::atomic());
    let key = Key::from_name("k");
    let c = registry.get_or_create_counter(&key, |c| c.clone());
    let ga = registry.get_or_create_gauge(&key, |g| g.clone());
    use metrics::{CounterFn, GaugeFn};
    for _ in 0..gen0 { CounterFn::increment(&c, 1); }
    for _ in 0..gen1 { GaugeFn::set(&ga, 1.0); }
    mock.increment(now0);
    let r0 = recency.should_store_counter(&key, c.get_generation(), &registry);
    mock.increment(now1 - now0);
    let r1 = recency.should_store_gauge(&key, ga.get_generation(), &registry);
    mock.increment(now2 - now1);
    let r2 = recency.should_store_counter(&key, c.get_generation(), &registry);
    let deleted = registry.get_counter(&key).is_none();
    let idle = now2 - now0 > timeout;
    println!("r0={} r1={} r2={} counter_deleted={} idle_longer_than_timeout={}", r0, r1, r2, deleted, idle);
    let mut v = vec![];
    if deleted != idle { v.push("counter_idle_clock_is_not_reset_by_the_gauge"); }
    if registry.get_gauge(&key).is_none() { v.push("gauge_is_not_dropped_by_the_counter_history"); }
    finish(&v, &plan)
}

//! Replay of C02 counterexamples through the public API (one global cell per process).
use metrics::{Counter, Gauge, Histogram, Key, KeyName, Metadata, Recorder, SharedString, Unit};
use std::sync::atomic::{AtomicU64, AtomicUsize, Ordering::SeqCst};
use std::sync::{Arc, Mutex};
use vreplay::*;

static SEQ: AtomicUsize = AtomicUsize::new(0);
thread_local! { static SEEN: std::cell::Cell<u64> = std::cell::Cell::new(0); }

static DROPS: AtomicU64 = AtomicU64::new(0);
struct TagRec(u64);
impl Drop for TagRec {
    fn drop(&mut self) { DROPS.fetch_add(1, SeqCst); }
}
impl Recorder for TagRec {
    fn describe_counter(&self, _: KeyName, _: Option<Unit>, _: SharedString) { SEEN.with(|s| s.set(self.0)); }
    fn describe_gauge(&self, _: KeyName, _: Option<Unit>, _: SharedString) {}
    fn describe_histogram(&self, _: KeyName, _: Option<Unit>, _: SharedString) {}
    fn register_counter(&self, _: &Key, _: &Metadata<'_>) -> Counter { Counter::noop() }
    fn register_gauge(&self, _: &Key, _: &Metadata<'_>) -> Gauge { Gauge::noop() }
    fn register_histogram(&self, _: &Key, _: &Metadata<'_>) -> Histogram { Histogram::noop() }
}

fn main() {
    let plan = load_plan(&std::env::args().nth(1).expect("plan"));
    install(plan.sched.clone());
    // (tid, ok?, err tag) for installers; (tid, seen tag, start seq, end seq) for emitters
    let inst: Arc<Mutex<Vec<(usize, bool, u64, u64)>>> = Arc::new(Mutex::new(vec![]));
    let emit: Arc<Mutex<Vec<(usize, u64, usize, usize)>>> = Arc::new(Mutex::new(vec![]));
    let mut hs = vec![];
    for (tid, role) in plan.threads.clone() {
        let inst = inst.clone();
        let emit = emit.clone();
        let tag = plan.inputs.get(&format!("tag{}", tid)).copied().unwrap_or(100 + tid as u64);
        hs.push(std::thread::spawn(move || {
            set_thread(tid);
            if role.starts_with("installer") {
                match metrics::set_global_recorder(TagRec(tag)) {
                    Ok(()) => inst.lock().unwrap().push((tid, true, tag, tag)),
                    Err(e) => { let back = e.into_inner(); inst.lock().unwrap().push((tid, false, tag, back.0)); std::mem::forget(back); }
                }
            } else {
                // start = first instrumented access of the emission; the hook orders it
                let start = SEQ.fetch_add(1, SeqCst);
                metrics::with_recorder(|r| r.describe_counter(KeyName::from_const_str("m"), None, SharedString::const_str("d")));
                let end = SEQ.fetch_add(1, SeqCst);
                emit.lock().unwrap().push((tid, SEEN.with(|s| s.get()), start, end));
            }
            thread_done();
        }));
    }
    let mut panicked = false;
    for h in hs { if h.join().is_err() { panicked = true; } }
    let inst = inst.lock().unwrap().clone();
    let emit = emit.lock().unwrap().clone();
    println!("installers {:?} emitters {:?}", inst, emit);
    let mut v: Vec<&str> = vec![];
    let oks: Vec<_> = inst.iter().filter(|x| x.1).collect();
    if oks.len() != 1 { v.push("exactly_one_install_succeeds"); }
    if inst.iter().any(|x| !x.1 && x.2 != x.3) { v.push("loser_gets_its_recorder_back"); }
    let winner = oks.first().map(|x| x.2).unwrap_or(0);
    if emit.iter().any(|e| e.1 != 0 && e.1 != winner) { v.push("emission_goes_to_the_winner_fully_constructed"); }
    for a in &emit { for b in &emit {
        if a.0 != b.0 && a.1 != 0 && a.3 < b.2 && b.1 != a.1 { v.push("once_seen_always_seen"); }
    } }
    // an emission made after everything finished must still reach the winner
    SEEN.with(|s| s.set(0));
    metrics::with_recorder(|r| r.describe_counter(KeyName::from_const_str("m"), None, SharedString::const_str("d")));
    let late = SEEN.with(|s| s.get());
    if emit.iter().any(|e| e.1 != 0) && late != winner && !v.contains(&"once_seen_always_seen") { v.push("once_seen_always_seen"); }
    // the rejected recorders were forgotten by the callers above and the installed one lives on: any Drop was run by the library
    let drops = DROPS.load(SeqCst);
    println!("recorders finalised by the library: {}", drops);
    if drops != 0 { v.push("no_recorder_dropped_by_the_library"); }
    if panicked { v.push("no_panic"); }
    finish(&v, &plan)
}

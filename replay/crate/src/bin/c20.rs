//! Replay of C20 counterexamples: emitting threads through the installed wrapper vs into_inner / handle drop.
use metrics::{Counter, Gauge, Histogram, Key, KeyName, Metadata, Recorder, SharedString, Unit, Level};
use metrics_util::RecoverableRecorder;
use std::sync::atomic::{AtomicBool, AtomicUsize, Ordering::SeqCst};
use vreplay::*;

static INSIDE: AtomicUsize = AtomicUsize::new(0);
static ENDED: AtomicBool = AtomicBool::new(false);       // recovered or finalisation began
static BAD_INSIDE: AtomicBool = AtomicBool::new(false);
static BAD_AFTER: AtomicBool = AtomicBool::new(false);
static FINALS: AtomicUsize = AtomicUsize::new(0);
static ENTERED: AtomicUsize = AtomicUsize::new(0);
static MD: Metadata<'static> = Metadata::new("t", Level::INFO, None);

struct R(u64);
impl R {
    fn call(&self) {
        if ENDED.load(SeqCst) { BAD_AFTER.store(true, SeqCst); }
        ENTERED.fetch_add(1, SeqCst);
        INSIDE.fetch_add(1, SeqCst);
        metrics::verif_sched::yield_point("inside_recorder");   // lets the schedule place other threads' steps here
        if ENDED.load(SeqCst) || self.0 != 0x5EC0DE { BAD_INSIDE.store(true, SeqCst); }
        INSIDE.fetch_sub(1, SeqCst);
    }
}
impl Drop for R {
    fn drop(&mut self) {
        FINALS.fetch_add(1, SeqCst);
        ENDED.store(true, SeqCst);
        if INSIDE.load(SeqCst) != 0 { BAD_INSIDE.store(true, SeqCst); }
        self.0 = 0;
    }
}
impl Recorder for R {
    fn describe_counter(&self, _: KeyName, _: Option<Unit>, _: SharedString) { self.call() }
    fn describe_gauge(&self, _: KeyName, _: Option<Unit>, _: SharedString) { self.call() }
    fn describe_histogram(&self, _: KeyName, _: Option<Unit>, _: SharedString) { self.call() }
    fn register_counter(&self, _: &Key, _: &Metadata<'_>) -> Counter { self.call(); Counter::noop() }
    fn register_gauge(&self, _: &Key, _: &Metadata<'_>) -> Gauge { self.call(); Gauge::noop() }
    fn register_histogram(&self, _: &Key, _: &Metadata<'_>) -> Histogram { self.call(); Histogram::noop() }
}

fn main() {
    let plan = load_plan(&std::env::args().nth(1).expect("plan"));
    let handle = RecoverableRecorder::new(R(0x5EC0DE)).install().ok().expect("install");
    install_filtered(plan.sched.clone(), &["upgrade", "try_unwrap", "strong_count", "inside_recorder", "handle_drop"]);
    let mut hs = vec![];
    let mut handle = Some(handle);
    let mut recovered_ok = true;
    let mut mode = String::new();
    for (tid, role) in plan.threads.clone() {
        if role.starts_with("emitter") {
            let reg = role.contains("register");
            hs.push(std::thread::spawn(move || {
                set_thread(tid);
                let key = Key::from_static_name("m");
                metrics::with_recorder(|r| {
                    if reg { let _ = r.register_counter(&key, &MD); } else { r.describe_gauge(KeyName::from_const_str("m"), None, SharedString::const_str("d")); }
                });
                thread_done();
                true
            }));
        } else {
            mode = role.clone();
            let h = handle.take().unwrap();
            hs.push(std::thread::spawn(move || {
                set_thread(tid);
                let ok;
                if role == "into_inner" {
                    let r = h.into_inner();
                    if INSIDE.load(SeqCst) != 0 { BAD_INSIDE.store(true, SeqCst); }
                    ENDED.store(true, SeqCst);
                    ok = r.0 == 0x5EC0DE && FINALS.load(SeqCst) == 0;
                    std::mem::forget(r);
                } else {
                    metrics::verif_sched::yield_point("handle_drop");
                    drop(h);
                    ok = true;
                }
                thread_done();
                ok
            }));
        }
    }
    let mut panicked = false;
    for h in hs { match h.join() { Ok(ok) => { if !ok { recovered_ok = false; } } Err(_) => panicked = true } }
    println!("mode={} entered={} finals={} bad_inside={} bad_after={}", mode, ENTERED.load(SeqCst), FINALS.load(SeqCst), BAD_INSIDE.load(SeqCst), BAD_AFTER.load(SeqCst));
    let mut v = vec![];
    if panicked { v.push("no_panic"); }
    if BAD_INSIDE.load(SeqCst) { v.extend_from_slice(&["not_recovered_or_finalised_while_an_emission_is_inside", "recorder_state_intact_during_calls", "no_data_race_on_recorder_state"]); }
    if BAD_AFTER.load(SeqCst) { v.push("no_call_enters_after_recovery_or_finalisation"); }
    if !recovered_ok { v.push("into_inner_returns_the_original_recorder"); }
    if mode == "handle_drop" && FINALS.load(SeqCst) != 1 { v.push("dropped_exactly_once"); }
    finish(&v, &plan)
}

//! Replay of C13 counterexamples (router, filter layer) through the public API with recording recorder doubles.
//! The expected behaviour is recomputed here from the property text, independently of the Python oracle.
use std::sync::{Arc, Mutex};
use metrics::{Counter, Gauge, Histogram, Key, KeyName, Level, Metadata, Recorder, SharedString, Unit};
use metrics_util::layers::{FilterLayer, Layer};
use metrics_util::layers::RouterBuilder;
use metrics_util::MetricKindMask;
use vreplay::*;

#[derive(Clone)]
struct Rec { id: usize, log: Arc<Mutex<Vec<(usize, String, String)>>> }
impl Rec {
    fn hit(&self, op: &str, name: &str) { self.log.lock().unwrap().push((self.id, op.to_string(), name.to_string())); }
}
impl Recorder for Rec {
    fn describe_counter(&self, k: KeyName, _u: Option<Unit>, _d: SharedString) { self.hit("describe_counter", k.as_str()); }
    fn describe_gauge(&self, k: KeyName, _u: Option<Unit>, _d: SharedString) { self.hit("describe_gauge", k.as_str()); }
    fn describe_histogram(&self, k: KeyName, _u: Option<Unit>, _d: SharedString) { self.hit("describe_histogram", k.as_str()); }
    fn register_counter(&self, k: &Key, _m: &Metadata<'_>) -> Counter { self.hit("register_counter", k.name()); Counter::noop() }
    fn register_gauge(&self, k: &Key, _m: &Metadata<'_>) -> Gauge { self.hit("register_gauge", k.name()); Gauge::noop() }
    fn register_histogram(&self, k: &Key, _m: &Metadata<'_>) -> Histogram { self.hit("register_histogram", k.name()); Histogram::noop() }
}

fn text(plan: &Plan, prefix: &str) -> String {
    let n = plan.inputs.get(&format!("{}_len", prefix)).copied().unwrap_or(0);
    (0..n).map(|i| char::from_u32(plan.inputs[&format!("{}_{}", prefix, i)] as u32).unwrap_or('?')).collect()
}

fn apply(r: &dyn Recorder, op: &str, name: &str) {
    static META: Metadata<'static> = Metadata::new("c13", Level::INFO, None);
    match op {
        "describe_counter" => r.describe_counter(name.to_string().into(), None, "d".into()),
        "describe_gauge" => r.describe_gauge(name.to_string().into(), None, "d".into()),
        "describe_histogram" => r.describe_histogram(name.to_string().into(), None, "d".into()),
        "register_counter" => { let _ = r.register_counter(&Key::from_name(name.to_string()), &META); }
        "register_gauge" => { let _ = r.register_gauge(&Key::from_name(name.to_string()), &META); }
        "register_histogram" => { let _ = r.register_histogram(&Key::from_name(name.to_string()), &META); }
        o => panic!("op {}", o),
    }
}

const OPS: [&str; 6] = ["describe_counter", "describe_gauge", "describe_histogram", "register_counter", "register_gauge", "register_histogram"];

fn mask_of(m: u64) -> MetricKindMask {
    match m { 1 => MetricKindMask::COUNTER, 2 => MetricKindMask::GAUGE, 4 => MetricKindMask::HISTOGRAM, 7 => MetricKindMask::ALL, _ => MetricKindMask::NONE }
}

fn main() {
    let plan = load_plan(&std::env::args().nth(1).expect("plan"));
    let inp = |k: &str| plan.inputs.get(k).copied().unwrap_or(0);
    let mut v: Vec<&str> = vec![];
    let log = Arc::new(Mutex::new(vec![]));
    let rec = |id| Rec { id, log: log.clone() };
    let name = text(&plan, "name");
    let op = OPS[inp("op") as usize];
    match plan.scenario.as_str() {
        "c13_router" => {
            let n = if inp("nroutes") == 0 { 2 } else { inp("nroutes") as usize };
            let routes: Vec<(String, u64)> = (1..=n).map(|r| (text(&plan, &format!("p{}", r)), inp(&format!("mask{}", r)))).collect();
            let mut b = RouterBuilder::from_recorder(rec(0));
            for (r, (p, m)) in routes.iter().enumerate() { b.add_route(mask_of(*m), p.clone(), rec(r + 1)); }
            let router = b.build();
            apply(&router, op, &name);
            let kbit = match op { "describe_counter" | "register_counter" => 1, "describe_gauge" | "register_gauge" => 2, _ => 4 };
            // reference: longest route for this kind that is a prefix of the name; a later identical pattern replaces the earlier one; else default
            let mut want = 0usize; let mut best = 0usize;
            for (r, (p, m)) in routes.iter().enumerate() {
                if m & kbit != 0 && name.starts_with(p.as_str()) && (want == 0 || p.len() >= best) { want = r + 1; best = p.len(); }
            }
            let got = log.lock().unwrap().clone();
            println!("routes {:?} -> r1..; {} {:?}: delivered to {:?}, expected recorder {}", routes, op, name, got, want);
            if !(got.len() == 1 && got[0].0 == want && got[0].1 == op && got[0].2 == name) { v.push("longest_applicable_route_wins"); }
        }
        "c13_filter" => {
            let (p0, p1) = (text(&plan, "pat0"), text(&plan, "pat1"));
            let (ci0, ci1, d0, d1, reconf) = (inp("ci0") != 0, inp("ci1") != 0, inp("dfa0") != 0, inp("dfa1") != 0, inp("reconf"));
            let mut layer = FilterLayer::from_patterns(vec![p0.clone()]);
            layer.case_insensitive(ci0);
            layer.use_dfa(d0);
            let f1 = layer.layer(rec(1));
            match reconf { 0 => { layer.case_insensitive(ci1); layer.use_dfa(d1); } 2 => { layer.case_insensitive(ci1); } 3 => { layer.use_dfa(d1); } _ => { layer.add_pattern(p1.clone()); } }
            let f2 = layer.layer(rec(2));
            apply(&f1, op, &name);
            apply(&f2, op, &name);
            let has = |hay: &str, pat: &str, ci: bool| if ci { hay.to_ascii_lowercase().contains(&pat.to_ascii_lowercase()) } else { hay.contains(pat) };
            let want1 = !has(&name, &p0, ci0);
            let want2 = match reconf { 0 | 2 => !has(&name, &p0, ci1), 3 => !has(&name, &p0, ci0), _ => !(has(&name, &p0, ci0) || has(&name, &p1, ci0)) };
            let got = log.lock().unwrap().clone();
            let n1 = got.iter().filter(|x| x.0 == 1).count();
            let n2 = got.iter().filter(|x| x.0 == 2).count();
            println!("patterns {:?} then {}; name {:?}; forwarded: filter1 x{} (expected {}), filter2 x{} (expected {})", p0,
                     match reconf { 0 => format!("flags ci={} dfa={}", ci1, d1), 2 => format!("case_insensitive({})", ci1), 3 => format!("use_dfa({})", d1), _ => format!("add_pattern({:?})", p1) }, name, n1, want1 as usize, n2, want2 as usize);
            if n1 != want1 as usize || n2 != want2 as usize { v.push("dropped_iff_current_configuration_matches"); }
        }
        "c13_stack" => {
            use metrics_util::layers::{FanoutBuilder, PrefixLayer, Stack};
            let (pin, pout) = (text(&plan, "pin"), text(&plan, "pout"));
            let kind = ["counter", "gauge", "histogram"][inp("op") as usize];
            let fan = FanoutBuilder::default().add_recorder(rec(1)).add_recorder(rec(2)).build();
            // Stack::push: the last pushed layer is the outermost one
            let stack = Stack::new(fan).push(PrefixLayer::new(pin.clone())).push(PrefixLayer::new(pout.clone()));
            let dop = format!("describe_{}", kind);
            let rop = format!("register_{}", kind);
            apply(&stack, &dop, &name);
            apply(&stack, &rop, &name);
            apply(&stack, &rop, &name);
            let want = format!("{}.{}.{}", pin, pout, name);
            let got = log.lock().unwrap().clone();
            println!("stack [fanout(r1, r2) <- prefix {:?} <- prefix {:?}]: {} / {} x2 of {:?}: delivered {:?}; expected name {:?}", pin, pout, dop, rop, name, got, want);
            for r in [1usize, 2] {
                let mine: Vec<_> = got.iter().filter(|x| x.0 == r).collect();
                let ok = mine.len() == 3 && mine[0].1 == dop && mine[1].1 == rop && mine[2].1 == rop && mine.iter().all(|x| x.2 == want);
                if !ok { v.push("composition_delivers_each_operation_once_with_both_prefixes"); }
            }
        }
        s => panic!("unknown scenario {}", s),
    }
    finish(&v, &plan)
}

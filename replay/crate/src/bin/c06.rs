//! Replay of C06 counterexamples: registry operations from several threads under a forced lock schedule.
use metrics::{Key, Label};
use metrics_util::registry::{AtomicStorage, Registry};
use std::sync::{Arc, Mutex};
use vreplay::*;

fn key(id: u64, variant: usize) -> Key {
    // equal keys built along different construction paths
    let name = format!("k{}", id);
    if variant % 2 == 0 { Key::from_parts(name, vec![Label::new("l", "v")]) } else { Key::from_parts(name.as_str().to_string(), vec![Label::new(String::from("l"), String::from("v"))]) }
}

/// keys whose full 64-bit `hashable()` collides although they differ (legal for a generic Hashable key type)
#[derive(Clone, PartialEq, Eq, Debug)]
struct Colliding(u32);
impl std::hash::Hash for Colliding {
    fn hash<H: std::hash::Hasher>(&self, h: &mut H) { h.write_u64(7); }
}

/// sequential scenarios that need a table to grow (many keys) or hashes to collide (a key type with a constant hash)
fn sequential_big(plan: &Plan) -> ! {
    use metrics_util::DefaultHashable;
    let mut v: Vec<String> = vec![];
    // growth: register many keys, then look every one of them up again: it must still be the same storage
    let reg: Registry<Key, AtomicStorage> = Registry::new(AtomicStorage);
    let n = 20000u64;
    let mut first: Vec<usize> = vec![];
    for i in 0..n { first.push(reg.get_or_create_counter(&key(i, 0), |c| { c.fetch_add(1, std::sync::atomic::Ordering::SeqCst); Arc::as_ptr(c) as usize })); }
    let mut moved = 0;
    let mut missing = 0;
    for i in 0..n {
        let again = reg.get_or_create_counter(&key(i, 1), |c| Arc::as_ptr(c) as usize);
        if again != first[i as usize] { moved += 1; }
        if reg.get_counter(&key(i, 0)).map(|c| c.load(std::sync::atomic::Ordering::SeqCst)) != Some(1) { missing += 1; }
    }
    println!("{} keys registered; second get_or_create returned another storage for {} of them; get() disagrees for {}", n, moved, missing);
    if moved > 0 || missing > 0 { v.push("one_storage_for_counter_k1".to_string()); v.push("created_at_most_once_counter_k1".to_string()); v.push("get_after_create_finds_the_storage".to_string()); }
    // collisions
    let reg2: Registry<DefaultHashable<Colliding>, AtomicStorage> = Registry::new(AtomicStorage);
    let (k1, k2) = (DefaultHashable(Colliding(1)), DefaultHashable(Colliding(2)));
    let a = reg2.get_or_create_counter(&k1, |c| Arc::as_ptr(c) as usize);
    let b = reg2.get_or_create_counter(&k2, |c| Arc::as_ptr(c) as usize);
    println!("colliding keys: storages {:#x} / {:#x}; get(k2) present: {}", a, b, reg2.get_counter(&k2).is_some());
    if a == b || reg2.get_counter(&k2).is_none() { v.push("different_keys_or_kinds_never_share_storage".to_string()); v.push("get_after_create_finds_the_storage".to_string()); }
    let vv: Vec<&str> = v.iter().map(|s| s.as_str()).collect();
    finish(&vv, plan)
}

/// one thread: keyed and whole-map operations from the initial registry of the solver's model, against a reference map kept here
fn listing(plan: &Plan) -> ! {
    use std::collections::HashMap;
    let reg: Registry<Key, AtomicStorage> = Registry::new(AtomicStorage);
    let inp = |k: &str| plan.inputs.get(k).copied().unwrap_or(0);
    let kid_of = |k: &Key| -> u64 { k.name()[1..].parse().unwrap() };
    let goc = |kind: &str, k: &Key| -> usize { match kind {
        "counter" => reg.get_or_create_counter(k, |c| Arc::as_ptr(c) as usize),
        "gauge" => reg.get_or_create_gauge(k, |c| Arc::as_ptr(c) as usize),
        _ => reg.get_or_create_histogram(k, |c| Arc::as_ptr(c) as *const u8 as usize) } };
    let mut live: HashMap<(String, u64), usize> = HashMap::new();
    for kind in ["counter", "gauge", "histogram"] { for k in 1..=4u64 {
        if inp(&format!("pre_{}_{}", kind, k)) == 1 { live.insert((kind.to_string(), k), goc(kind, &key(k, 0))); }
    } }
    let mut v: Vec<String> = vec![];
    let role = plan.threads.iter().find(|t| t.0 == 1).map(|t| t.1.clone()).unwrap_or_default();
    for (i, opdesc) in role.split_whitespace().enumerate() {
        let p: Vec<&str> = opdesc.split(':').collect();
        let (op, kind) = (p[0], p[1]);
        let kid: u64 = p[2].parse().unwrap_or(0);
        let k = key(kid.max(1), i);
        let want: Vec<(u64, usize)> = { let mut w: Vec<(u64, usize)> = live.iter().filter(|(kk, _)| kk.0 == kind).map(|(kk, a)| (kk.1, *a)).collect(); w.sort(); w };
        match op {
            "get_or_create" => { let a = goc(kind, &k); live.entry((kind.to_string(), kid)).or_insert(a); }
            "delete" => { match kind { "counter" => { reg.delete_counter(&k); } "gauge" => { reg.delete_gauge(&k); } _ => { reg.delete_histogram(&k); } } live.remove(&(kind.to_string(), kid)); }
            "get" => {
                let got = match kind { "counter" => reg.get_counter(&k).is_some(), "gauge" => reg.get_gauge(&k).is_some(), _ => reg.get_histogram(&k).is_some() };
                let exp = live.contains_key(&(kind.to_string(), kid));
                println!("step {}: get {} k{} -> {} (reference: {})", i, kind, kid, got, exp);
                if got != exp { v.push("get_after_retain_clear_delete_reports_existence".to_string()); }
            }
            "visit" | "handles" => {
                let mut got: Vec<(u64, usize)> = vec![];
                match (op, kind) {
                    ("visit", "counter") => reg.visit_counters(|kk, c| got.push((kid_of(kk), Arc::as_ptr(c) as usize))),
                    ("visit", "gauge") => reg.visit_gauges(|kk, c| got.push((kid_of(kk), Arc::as_ptr(c) as usize))),
                    ("visit", _) => reg.visit_histograms(|kk, c| got.push((kid_of(kk), Arc::as_ptr(c) as *const u8 as usize))),
                    (_, "counter") => for (kk, c) in reg.get_counter_handles() { got.push((kid_of(&kk), Arc::as_ptr(&c) as usize)); },
                    (_, "gauge") => for (kk, c) in reg.get_gauge_handles() { got.push((kid_of(&kk), Arc::as_ptr(&c) as usize)); },
                    _ => for (kk, c) in reg.get_histogram_handles() { got.push((kid_of(&kk), Arc::as_ptr(&c) as *const u8 as usize)); },
                }
                got.sort();
                println!("step {}: {} {} -> {:?} (reference: {:?})", i, op, kind, got, want);
                if got != want { v.push("listing_reports_exactly_the_live_keys".to_string()); }
            }
            "retain" => {
                let keep = |kk: &Key| inp(&format!("keep{}", kid_of(kk))) == 1;
                match kind { "counter" => reg.retain_counters(|kk, _| keep(kk)), "gauge" => reg.retain_gauges(|kk, _| keep(kk)), _ => reg.retain_histograms(|kk, _| keep(kk)) }
                live.retain(|kk, _| kk.0 != kind || inp(&format!("keep{}", kk.1)) == 1);
            }
            "clear" => { reg.clear(); live.clear(); }
            _ => panic!("op {}", op),
        }
    }
    let vv: Vec<&str> = v.iter().map(|s| s.as_str()).collect();
    finish(&vv, plan)
}

fn main() {
    let plan = load_plan(&std::env::args().nth(1).expect("plan"));
    if plan.scenario.starts_with("c06_seq_goc_k1_k2") { sequential_big(&plan); }
    if plan.scenario.starts_with("c06_list") { listing(&plan); }
    let reg: Arc<Registry<Key, AtomicStorage>> = Arc::new(Registry::new(AtomicStorage));
    install_filtered(plan.sched.clone(), &["rwlock_read", "rwlock_write"]);
    // (tid, idx, op, kind, key, storage address or 0/1 result)
    let res: Arc<Mutex<Vec<(usize, usize, String, String, u64, usize)>>> = Arc::new(Mutex::new(vec![]));
    let mut hs = vec![];
    for (tid, role) in plan.threads.clone() {
        let (reg, res) = (reg.clone(), res.clone());
        hs.push(std::thread::spawn(move || {
            set_thread(tid);
            for (i, opdesc) in role.split_whitespace().enumerate() {
                let p: Vec<&str> = opdesc.split(':').collect();
                let (op, kind, kid) = (p[0], p[1], p[2].parse::<u64>().unwrap());
                let k = key(kid, tid + i);
                let r = match (op, kind) {
                    ("get_or_create", "counter") => reg.get_or_create_counter(&k, |c| Arc::as_ptr(c) as usize),
                    ("get_or_create", "gauge") => reg.get_or_create_gauge(&k, |c| Arc::as_ptr(c) as usize),
                    ("get_or_create", _) => reg.get_or_create_histogram(&k, |c| Arc::as_ptr(c) as *const u8 as usize),
                    ("delete", "counter") => reg.delete_counter(&k) as usize,
                    ("delete", "gauge") => reg.delete_gauge(&k) as usize,
                    ("delete", _) => reg.delete_histogram(&k) as usize,
                    ("get", "counter") => reg.get_counter(&k).is_some() as usize,
                    ("get", "gauge") => reg.get_gauge(&k).is_some() as usize,
                    _ => reg.get_histogram(&k).is_some() as usize,
                };
                res.lock().unwrap().push((tid, i, op.to_string(), kind.to_string(), kid, r));
            }
            thread_done();
        }));
    }
    let mut panicked = false;
    for h in hs { if h.join().is_err() { panicked = true; } }
    let res = res.lock().unwrap().clone();
    println!("{:?}", res);
    let mut v: Vec<String> = vec![];
    let goc: Vec<_> = res.iter().filter(|r| r.2 == "get_or_create").collect();
    for a in &goc { for b in &goc {
        if (a.0, a.1) < (b.0, b.1) {
            let no_delete = !res.iter().any(|r| r.2 == "delete" && r.3 == a.3 && r.4 == a.4);
            if a.3 == b.3 && a.4 == b.4 && a.5 != b.5 && no_delete { v.push(format!("one_storage_for_{}_k{}", a.3, a.4)); v.push(format!("created_at_most_once_{}_k{}", a.3, a.4)); }
            if (a.3 != b.3 || a.4 != b.4) && a.5 == b.5 { v.push("different_keys_or_kinds_never_share_storage".to_string()); }
        }
    } }
    // the registry must end up with exactly one storage per (kind,key) that every later lookup agrees on
    for a in &goc {
        let no_delete = !res.iter().any(|r| r.2 == "delete" && r.3 == a.3 && r.4 == a.4);
        if no_delete {
            let k = key(a.4, 0);
            let now = match a.3.as_str() { "counter" => reg.get_counter(&k).map(|c| Arc::as_ptr(&c) as usize), "gauge" => reg.get_gauge(&k).map(|c| Arc::as_ptr(&c) as usize), _ => reg.get_histogram(&k).map(|c| Arc::as_ptr(&c) as *const u8 as usize) };
            if now != Some(a.5) { v.push(format!("one_storage_for_{}_k{}", a.3, a.4)); }
        }
    }
    if panicked { v.push("no_panic".to_string()); }
    let vv: Vec<&str> = v.iter().map(|s| s.as_str()).collect();
    finish(&vv, &plan)
}

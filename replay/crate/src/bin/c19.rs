//! Replay of C19 counterexamples: the same histories through the public DebuggingRecorder API, checked against an
//! independent reference (what the property says a snapshot must contain).
use metrics::{Key, KeyName, Level, Metadata, Recorder, SharedString, Unit};
use metrics_util::debugging::{DebugValue, DebuggingRecorder};
use metrics_util::MetricKind;
use vreplay::*;

static MD: Metadata<'static> = Metadata::new("t", Level::INFO, None);
const UNITS: [Unit; 17] = [Unit::Count, Unit::Percent, Unit::Seconds, Unit::Milliseconds, Unit::Microseconds, Unit::Nanoseconds, Unit::Tebibytes, Unit::Gibibytes,
    Unit::Mebibytes, Unit::Kibibytes, Unit::Bytes, Unit::TerabitsPerSecond, Unit::GigabitsPerSecond, Unit::MegabitsPerSecond, Unit::KilobitsPerSecond, Unit::BitsPerSecond, Unit::CountPerSecond];

fn main() {
    let plan = load_plan(&std::env::args().nth(1).expect("plan"));
    let inp = |k: &str| plan.inputs.get(k).copied().unwrap_or(0);
    let unit = |tag: &str| if inp(&format!("{}_some", tag)) != 0 { Some(UNITS[inp(&format!("{}_unit", tag)) as usize % 17].clone()) } else { None };
    let rec = DebuggingRecorder::new();
    let snap = rec.snapshotter();
    let mut v: Vec<&str> = vec![];
    match plan.scenario.as_str() {
        "c19_order_and_values" => {
            rec.describe_counter(KeyName::from("only_described"), None, SharedString::from("d0"));
            let g = rec.register_gauge(&Key::from_name("k2"), &MD);
            let c = rec.register_counter(&Key::from_name("k1"), &MD);
            let _g2 = rec.register_gauge(&Key::from_name("k2"), &MD);
            c.absolute(inp("v1"));
            g.set(f64::from_bits(inp("v2")));
            let s = snap.snapshot().into_vec();
            println!("{:?}", s);
            let ok_order = s.len() == 2 && s[0].0.kind() == MetricKind::Gauge && s[0].0.key().name() == "k2" && s[1].0.kind() == MetricKind::Counter && s[1].0.key().name() == "k1";
            if !ok_order { v.push("lists_registered_metrics_in_first_registration_order"); }
            else {
                let ok_vals = matches!(&s[0].3, DebugValue::Gauge(x) if x.into_inner().to_bits() == inp("v2")) && matches!(&s[1].3, DebugValue::Counter(x) if *x == inp("v1"));
                if !ok_vals { v.push("values_are_the_current_state"); }
                if s.iter().any(|e| e.1.is_some() || e.2.is_some()) { v.push("undescribed_metrics_have_no_metadata"); }
            }
        }
        "c19_metadata" => {
            let (u1, u2, u3) = (unit("u1"), unit("u2"), unit("u3"));
            rec.describe_counter(KeyName::from("n"), u1.clone(), SharedString::from("A"));
            rec.describe_gauge(KeyName::from("n"), u3.clone(), SharedString::from("C"));
            rec.describe_counter(KeyName::from("n"), u2.clone(), SharedString::from("B"));
            let _c = rec.register_counter(&Key::from_name("n"), &MD);
            let _g = rec.register_gauge(&Key::from_name("n"), &MD);
            let _h = rec.register_histogram(&Key::from_name("n"), &MD);
            let s = snap.snapshot().into_vec();
            println!("{:?}", s);
            if s.len() != 3 { v.push("metadata_is_the_latest_for_kind_and_name"); v.push("metadata_of_other_kinds_is_separate"); }
            else {
                let want_cu = if u2.is_some() { u2.clone() } else { u1.clone() };
                if !(s[0].1 == want_cu && s[0].2.as_deref() == Some("B")) { v.push("metadata_is_the_latest_for_kind_and_name"); }
                if !(s[1].1 == u3 && s[1].2.as_deref() == Some("C") && s[2].1.is_none() && s[2].2.is_none()) { v.push("metadata_of_other_kinds_is_separate"); }
            }
        }
        "c19_histogram_drain_once" => {
            let h = rec.register_histogram(&Key::from_name("h"), &MD);
            let (a, b, c) = (f64::from_bits(inp("a")), f64::from_bits(inp("b")), f64::from_bits(inp("c")));
            h.record(a); h.record(b);
            let s1 = snap.snapshot().into_vec();
            h.record(c);
            let s2 = snap.snapshot().into_vec();
            let s3 = snap.snapshot().into_vec();
            println!("{:?}\n{:?}\n{:?}", s1, s2, s3);
            let vals = |s: &Vec<_>| -> Option<Vec<u64>> { let s: &Vec<(metrics_util::CompositeKey, Option<Unit>, Option<SharedString>, DebugValue)> = s;
                if s.len() != 1 { return None; } match &s[0].3 { DebugValue::Histogram(x) => Some(x.iter().map(|f| f.into_inner().to_bits()).collect()), _ => None } };
            if !(vals(&s1) == Some(vec![a.to_bits(), b.to_bits()]) && vals(&s2) == Some(vec![c.to_bits()]) && vals(&s3) == Some(vec![])) { v.push("histogram_values_in_exactly_one_snapshot"); }
        }
        "c19_histogram_record_during_snapshot" => {
            // The solver says: some position of a concurrent record() inside snapshot() makes the value appear in no snapshot or in two.
            // Native search for that position: the snapshot thread runs p instrumented steps, then the recorder runs to completion,
            // then the snapshot finishes; p = 0, 1, 2, ... until the snapshot thread has no more steps.
            let (a, x) = (f64::from_bits(inp("a")), 7.5f64);
            let a = if a.to_bits() == x.to_bits() { 1.25 } else { a };
            let mut found = false;
            for p in 0..400usize {
                let rec = DebuggingRecorder::new();
                let snap = rec.snapshotter();
                let h = rec.register_histogram(&Key::from_name("h"), &MD);
                h.record(a);
                let mut sched = vec![1usize; p];
                sched.extend(std::iter::repeat(2usize).take(4000));
                install(sched);
                let h2 = h.clone();
                let snap1 = snap.clone();
                let t1 = std::thread::spawn(move || { set_thread(1); let s = snap1.snapshot().into_vec(); thread_done(); s });
                let t2 = std::thread::spawn(move || { set_thread(2); h2.record(x); thread_done(); });
                let s1 = t1.join().unwrap();
                t2.join().unwrap();
                let (pos, _) = consumed();
                install(vec![]);
                let s2 = snap.snapshot().into_vec();
                let s3 = snap.snapshot().into_vec();
                let count = |s: &Vec<(metrics_util::CompositeKey, Option<Unit>, Option<SharedString>, DebugValue)>, v: f64| -> usize {
                    s.iter().map(|e| match &e.3 { DebugValue::Histogram(xs) => xs.iter().filter(|f| f.into_inner().to_bits() == v.to_bits()).count(), _ => 0 }).sum() };
                let nx = count(&s1, x) + count(&s2, x) + count(&s3, x);
                let na = count(&s1, a) + count(&s2, a) + count(&s3, a);
                if nx != 1 || na != 1 {
                    println!("record() after {} steps of snapshot(): the concurrently recorded value appears {} times, the earlier value {} times, over three snapshots", p, nx, na);
                    found = true;
                    break;
                }
                if pos < p { println!("snapshot() has {} instrumented steps; every position tried", pos); break; }
            }
            if found { v.push("concurrently_recorded_value_in_exactly_one_snapshot"); }
        }
        s => panic!("unknown scenario {}", s),
    }
    finish(&v, &plan)
}

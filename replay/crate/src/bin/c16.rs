//! Replay of C16 schedule counterexamples: pusher thread(s) || consume on one AtomicSamplingReservoir of capacity 2 whose
//! slots still hold the values of an earlier cycle, then two quiescent consumes.
use metrics_util::storage::reservoir::AtomicSamplingReservoir;
use std::sync::{Arc, Mutex};
use vreplay::*;

fn main() {
    let plan = load_plan(&std::env::args().nth(1).expect("plan"));
    let r = Arc::new(AtomicSamplingReservoir::new(2));
    // an earlier cycle on each half leaves stale values in the slots (counts are back to 0)
    r.push(-1.0); r.push(-2.0);
    r.consume(|d| { let _ = d.count(); });
    r.push(-3.0); r.push(-4.0);
    r.consume(|d| { let _ = d.count(); });
    // values pushed completely before the threads start (role "consume <n>")
    let prefilled: usize = plan.threads.iter().find(|t| t.1.starts_with("consume")).and_then(|t| t.1.split_whitespace().nth(1).map(|x| x.parse().unwrap_or(0))).unwrap_or(0);
    let mut tags = vec![];
    for i in 0..prefilled { let t = 50.0 + i as f64; r.push(t); tags.push(t); }
    install(plan.sched.clone());
    let yields: Arc<Mutex<Vec<(usize, f64)>>> = Arc::new(Mutex::new(vec![]));
    let mut hs = vec![];
    for (tid, role) in plan.threads.clone() {
        let r = r.clone();
        let yields = yields.clone();
        let tag = 100.0 + tid as f64;
        if role.starts_with("push") { tags.push(tag); }
        hs.push(std::thread::spawn(move || {
            set_thread(tid);
            if role.starts_with("push") {
                r.push(tag);
            } else {
                r.consume(|d| { for v in d { yields.lock().unwrap().push((1, v)); } });
            }
            thread_done();
        }));
    }
    let mut panicked = false;
    for h in hs { if h.join().is_err() { panicked = true; } }
    metrics::verif_sched::set_hook(None);
    r.consume(|d| { for v in d { yields.lock().unwrap().push((2, v)); } });
    r.consume(|d| { for v in d { yields.lock().unwrap().push((3, v)); } });
    let ys = yields.lock().unwrap().clone();
    println!("pushed {:?} yielded (drain, value) {:?}", tags, ys);
    let mut v: Vec<&str> = vec![];
    if ys.iter().any(|(_, x)| !tags.contains(x)) { v.push("yields_only_values_of_this_cycle"); v.push("K9_drain_reads_claimed_but_unwritten_slot"); }
    for t in &tags { if ys.iter().filter(|(_, x)| x == t).count() > 1 { v.push("no_value_yielded_twice"); } }
    if tags.len() <= 2 {
        for t in &tags { if !ys.iter().any(|(_, x)| x == t) { println!("value {} pushed within the capacity is yielded by no drain", t); v.push("every_value_yielded_when_within_capacity"); v.push("K10_reset_wipes_a_claimed_slot"); } }
    }
    if panicked { v.push("no_panic"); }
    finish(&v, &plan)
}

//! Replay of C09 counterexamples: a history of writer calls with concrete lengths on the real PayloadWriter
//! (through the metrics_exporter_dogstatsd::verif forwarding hook), checked by an independent DogStatsD oracle.
use metrics::{Key, Label};
use metrics_exporter_dogstatsd::verif::Writer;
use vreplay::*;

fn s(n: u64, c: char) -> String { std::iter::repeat(c).take(n as usize).collect() }
fn u_with_len(l: u64) -> u64 { if l <= 1 { 7 } else { 10u64.pow((l - 1) as u32) } }
fn f_with_len(l: u64) -> f64 {
    // ryu prints <int>.5 for half-integers: length = digits + 2
    if l <= 3 { 1.5 } else if l <= 17 { let d = (l - 2) as u32; (10u64.pow(d - 1) as f64) + 0.5 } else { -1.2345678901234567e-300 }
}

fn main() {
    let plan = load_plan(&std::env::args().nth(1).expect("plan"));
    let g = |k: &str| plan.inputs.get(k).copied().unwrap_or(0);
    let max = g("max") as usize;
    let lp = g("lp") != 0;
    let prefix_s = s(g("plen"), 'p');
    let prefix = if g("hasprefix") != 0 { Some(prefix_s.as_str()) } else { None };
    let gl = vec![Label::new(s(g("glk"), 'g'), s(g("glv"), 'h'))];
    let keys = [Key::from_parts(s(g("name0"), 'a'), Vec::<Label>::new()), Key::from_parts(s(g("name1"), 'b'), vec![Label::new(s(g("k1l0k"), 'k'), s(g("k1l0v"), 'v'))])];
    let ops: Vec<String> = plan.threads.first().map(|t| t.1.split_whitespace().map(|x| x.to_string()).collect()).unwrap_or_default();
    let mut v: Vec<&str> = vec![];
    let result = std::panic::catch_unwind(|| {
        let mut bad: Vec<&'static str> = vec![];
        let mut w = Writer::new(max, lp);
        let mut pending: Vec<(String, usize, u64)> = vec![];     // per write since the last drain: expected head\u{1}tail, number of values, payloads it reported as written
        let (mut written, mut dropped, mut points) = (0u64, 0u64, 0u64);
        for (oi, op) in ops.iter().enumerate() {
            let p: Vec<&str> = op.split(':').collect();
            if p[0] == "drain" {
                let mut payloads: Vec<Vec<u8>> = vec![];
                let n = w.drain(|b| payloads.push(b.to_vec()));
                if n != payloads.len() { bad.push("every_point_written_or_dropped"); }
                let mut carried = 0u64;
                // payloads come out in write order: the k-th write owns the next `reported written` payloads
                let mut owner: Vec<usize> = vec![];
                for (i, p_) in pending.iter().enumerate() { for _ in 0..p_.2 { owner.push(i); } }
                for (pi, pl) in payloads.iter().enumerate() {
                    let body: &[u8] = if lp {
                        if pl.len() < 4 { bad.push("length_prefix_is_exact"); pl } else {
                            let l = u32::from_le_bytes([pl[0], pl[1], pl[2], pl[3]]) as usize;
                            if l != pl.len() - 4 { bad.push("length_prefix_is_exact"); bad.push("buffer_edits_on_boundaries"); }
                            &pl[4..]
                        }
                    } else { pl };
                    if body.len() > max { bad.push("payload_within_max_len"); }
                    let txt = String::from_utf8_lossy(body).to_string();
                    // one complete message: starts with a pending metric's name part, ends with its trailer + newline
                    let hit = owner.get(pi).map(|i| &pending[*i]).filter(|(pre, _, _)| txt.starts_with(pre.split('\u{1}').next().unwrap()) && txt.ends_with(pre.split('\u{1}').nth(1).unwrap()));
                    match hit {
                        Some((pre, _, _)) => {
                            let head = pre.split('\u{1}').next().unwrap();
                            let tail = pre.split('\u{1}').nth(1).unwrap();
                            let mid = &txt[head.len()..txt.len() - tail.len()];
                            if !mid.starts_with(':') || mid.contains('\n') { bad.push("payload_is_one_complete_message"); }
                            carried += mid.matches(':').count() as u64;
                        }
                        None => { bad.push("payload_is_one_complete_message"); bad.push("buffer_edits_on_boundaries"); }
                    }
                }
                if written != payloads.len() as u64 || carried + dropped != points { bad.push("every_point_written_or_dropped"); }
                pending.clear(); written = 0; dropped = 0; points = 0;
                continue;
            }
            let ki: usize = p[1].parse().unwrap();
            let nv: usize = p[2].parse().unwrap();
            let with_ts = p[3] == "1";
            let with_rate = p[4] == "1";
            let key = &keys[ki];
            let name = match prefix { Some(px) => format!("{}.{}", px, key.name()), None => key.name().to_string() };
            let mut tags: Vec<String> = vec![];
            for l in gl.iter().chain(key.labels()) { if l.value().is_empty() { tags.push(l.key().to_string()) } else { tags.push(format!("{}:{}", l.key(), l.value())) } }
            let tagtxt = format!("|#{}", tags.join(","));
            let ts = if with_ts { Some(u_with_len(g(&format!("ts{}", oi)))) } else { None };
            let (ty, r) = match p[0] {
                "counter" => ("c", w.write_counter(key, u_with_len(g(&format!("v{}", oi))), ts, prefix, &gl)),
                "gauge" => ("g", w.write_gauge(key, f_with_len(g(&format!("v{}", oi))), ts, prefix, &gl)),
                k => {
                    let vals: Vec<f64> = (0..nv).map(|j| f_with_len(g(&format!("v{}_{}", oi, j)))).collect();
                    let rate = if with_rate { Some(f_with_len(g(&format!("rate{}", oi)))) } else { None };
                    if k == "hist" { ("h", w.write_histogram(key, &vals, rate, prefix, &gl)) } else { ("d", w.write_distribution(key, &vals, rate, prefix, &gl)) }
                }
            };
            let ratetxt = if with_rate && (p[0] == "hist" || p[0] == "dist") { let mut b = ryu::Buffer::new(); format!("|@{}", b.format(f_with_len(g(&format!("rate{}", oi))))) } else { String::new() };
            let tstxt = ts.map(|t| format!("|T{}", t)).unwrap_or_default();
            pending.push((format!("{}\u{1}|{}{}{}{}\n", name, ty, ratetxt, tagtxt, tstxt), nv.max(1), r.0));
            written += r.0; dropped += r.1; points += if p[0] == "counter" || p[0] == "gauge" { 1 } else { nv as u64 };
        }
        bad
    });
    match result {
        Ok(bad) => { for b in bad { if !v.contains(&b) { v.push(b); } } }
        Err(_) => v.push("never_panics"),
    }
    finish(&v, &plan)
}

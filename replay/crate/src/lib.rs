//! Native schedule replay: real OS threads, serialised by the yield hook so that exactly one thread runs between
//! two instrumented accesses, in the order the solver's counterexample prescribes.
use std::cell::Cell;
use std::collections::HashMap;
use std::sync::{Condvar, Mutex};
use std::time::Duration;

pub struct Plan {
    pub scenario: String,
    pub violated: String,
    pub inputs: HashMap<String, u64>,
    pub threads: Vec<(usize, String)>, // (tid, role text)
    pub sched: Vec<usize>,
}

pub fn load_plan(path: &str) -> Plan {
    let txt = std::fs::read_to_string(path).expect("plan file");
    let mut p = Plan { scenario: String::new(), violated: String::new(), inputs: HashMap::new(), threads: vec![], sched: vec![] };
    for l in txt.lines() {
        let mut it = l.split_whitespace();
        match it.next() {
            Some("scenario") => p.scenario = it.next().unwrap_or("").to_string(),
            Some("violated") => p.violated = it.next().unwrap_or("").to_string(),
            Some("input") => {
                let k = it.next().unwrap().to_string();
                let v: u64 = it.next().unwrap().parse().unwrap();
                p.inputs.insert(k, v);
            }
            Some("thread") => {
                let t: usize = it.next().unwrap().parse().unwrap();
                p.threads.push((t, it.collect::<Vec<_>>().join(" ")));
            }
            Some("sched") => p.sched = it.map(|x| x.parse().unwrap()).collect(),
            _ => {}
        }
    }
    p
}

struct State {
    sched: Vec<usize>,
    pos: usize,
    finished: Vec<usize>,
    diverged: bool,
}
static STATE: Mutex<Option<State>> = Mutex::new(None);
static CV: Condvar = Condvar::new();
thread_local! { static ME: Cell<usize> = Cell::new(0); }

static ALLOWED: Mutex<Option<Vec<&'static str>>> = Mutex::new(None);
static WAIT_SECS: std::sync::atomic::AtomicU64 = std::sync::atomic::AtomicU64::new(30);

/// how long a thread waits for its turn before the run counts as diverged (default 30 s; a position search that expects
/// some positions to block on a real lock uses a shorter wait)
pub fn set_wait_secs(s: u64) {
    WAIT_SECS.store(s, std::sync::atomic::Ordering::SeqCst);
}

pub fn install(sched: Vec<usize>) {
    *STATE.lock().unwrap() = Some(State { sched, pos: 0, finished: vec![], diverged: false });
    metrics::verif_sched::set_hook(Some(hook));
}

/// like `install`, but only yields with one of the given labels are scheduled (others pass through): used when
/// the replay has to go through instrumented code that the scenario does not model (e.g. the global-recorder lookup)
pub fn install_filtered(sched: Vec<usize>, allowed: &[&'static str]) {
    *ALLOWED.lock().unwrap() = Some(allowed.to_vec());
    install(sched);
}
pub fn set_thread(t: usize) {
    ME.with(|m| m.set(t));
}
pub fn thread_done() {
    let me = ME.with(|m| m.get());
    let mut g = STATE.lock().unwrap();
    if let Some(s) = g.as_mut() {
        s.finished.push(me);
    }
    CV.notify_all();
}
pub fn diverged() -> bool {
    STATE.lock().unwrap().as_ref().map_or(false, |s| s.diverged)
}
pub fn consumed() -> (usize, usize) {
    STATE.lock().unwrap().as_ref().map_or((0, 0), |s| (s.pos, s.sched.len()))
}

fn hook(what: &'static str) {
    let me = ME.with(|m| m.get());
    if me == 0 {
        return; // main / setup thread is not scheduled
    }
    if let Some(a) = ALLOWED.lock().unwrap().as_ref() {
        if !a.contains(&what) {
            return;
        }
    }
    let mut g = STATE.lock().unwrap();
    loop {
        let s = g.as_mut().unwrap();
        if s.diverged || s.pos >= s.sched.len() {
            return; // schedule exhausted: run freely
        }
        if s.sched[s.pos] == me {
            s.pos += 1;
            CV.notify_all();
            return;
        }
        let head = s.sched[s.pos];
        if s.finished.contains(&head) {
            // the thread whose turn it is has already finished: the native run does not follow the model
            s.diverged = true;
            CV.notify_all();
            return;
        }
        let (ng, to) = CV.wait_timeout(g, Duration::from_secs(WAIT_SECS.load(std::sync::atomic::Ordering::SeqCst))).unwrap();
        g = ng;
        if to.timed_out() {
            g.as_mut().unwrap().diverged = true;
            CV.notify_all();
            return;
        }
    }
}

/// exit codes: 1 = the named property is violated natively under the schedule (reproduced);
/// 0 = not violated; 3 = the native run diverged from the schedule
pub fn finish(violated_natively: &[&str], plan: &Plan) -> ! {
    let (pos, len) = consumed();
    println!("REPLAY scenario={} expected={} natively_violated={:?} schedule_consumed={}/{} diverged={}",
             plan.scenario, plan.violated, violated_natively, pos, len, diverged());
    if violated_natively.iter().any(|v| *v == plan.violated) {
        println!("REPLAY: REPRODUCED {}", plan.violated);
        std::process::exit(1);
    }
    if diverged() {
        std::process::exit(3);
    }
    std::process::exit(0);
}

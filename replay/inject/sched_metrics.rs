// ---- injected by /verif/replay/instrument.py into a SCRATCH COPY of the metrics crate (never into /repo) ----
/// Replay scheduler hook and yield-before-access wrappers.
#[doc(hidden)]
#[allow(missing_docs, clippy::all, dead_code)]
pub mod verif_sched {
    use std::sync::atomic::{AtomicBool, AtomicU64, AtomicUsize, Ordering};
    static HOOK: AtomicUsize = AtomicUsize::new(0);
    pub fn set_hook(f: Option<fn(&'static str)>) {
        HOOK.store(f.map_or(0, |f| f as usize), Ordering::SeqCst);
    }
    #[inline]
    pub fn yield_point(what: &'static str) {
        let h = HOOK.load(Ordering::SeqCst);
        if h != 0 {
            let f: fn(&'static str) = unsafe { std::mem::transmute(h) };
            f(what)
        }
    }
    macro_rules! vint {
        ($t:ty, $v:ty) => {
            impl VAtomic for $t {
                type V = $v;
                fn v_load(&self, o: Ordering) -> $v { yield_point("load"); self.load(o) }
                fn v_store(&self, v: $v, o: Ordering) { yield_point("store"); self.store(v, o) }
                fn v_swap(&self, v: $v, o: Ordering) -> $v { yield_point("swap"); self.swap(v, o) }
                fn v_compare_exchange(&self, c: $v, n: $v, s: Ordering, f: Ordering) -> Result<$v, $v> { yield_point("cas"); self.compare_exchange(c, n, s, f) }
                fn v_compare_exchange_weak(&self, c: $v, n: $v, s: Ordering, f: Ordering) -> Result<$v, $v> { yield_point("cas"); self.compare_exchange(c, n, s, f) }
                fn v_fetch_or(&self, v: $v, o: Ordering) -> $v { yield_point("fetch_or"); self.fetch_or(v, o) }
                fn v_fetch_and(&self, v: $v, o: Ordering) -> $v { yield_point("fetch_and"); self.fetch_and(v, o) }
                fn v_fetch_update<F: FnMut($v) -> Option<$v>>(&self, s: Ordering, f: Ordering, g: F) -> Result<$v, $v> { yield_point("fetch_update"); self.fetch_update(s, f, g) }
            }
        };
    }
    pub trait VAtomic {
        type V;
        fn v_load(&self, o: Ordering) -> Self::V;
        fn v_store(&self, v: Self::V, o: Ordering);
        fn v_swap(&self, v: Self::V, o: Ordering) -> Self::V;
        fn v_compare_exchange(&self, c: Self::V, n: Self::V, s: Ordering, f: Ordering) -> Result<Self::V, Self::V>;
        fn v_compare_exchange_weak(&self, c: Self::V, n: Self::V, s: Ordering, f: Ordering) -> Result<Self::V, Self::V>;
        fn v_fetch_or(&self, v: Self::V, o: Ordering) -> Self::V;
        fn v_fetch_and(&self, v: Self::V, o: Ordering) -> Self::V;
        fn v_fetch_update<F: FnMut(Self::V) -> Option<Self::V>>(&self, s: Ordering, f: Ordering, g: F) -> Result<Self::V, Self::V>;
    }
    vint!(AtomicUsize, usize);
    vint!(AtomicU64, u64);
    vint!(AtomicBool, bool);
    pub trait VArith {
        type V;
        fn v_fetch_add(&self, v: Self::V, o: Ordering) -> Self::V;
        fn v_fetch_sub(&self, v: Self::V, o: Ordering) -> Self::V;
        fn v_fetch_max(&self, v: Self::V, o: Ordering) -> Self::V;
    }
    macro_rules! varith {
        ($t:ty, $v:ty) => {
            impl VArith for $t {
                type V = $v;
                fn v_fetch_add(&self, v: $v, o: Ordering) -> $v { yield_point("fetch_add"); self.fetch_add(v, o) }
                fn v_fetch_sub(&self, v: $v, o: Ordering) -> $v { yield_point("fetch_sub"); self.fetch_sub(v, o) }
                fn v_fetch_max(&self, v: $v, o: Ordering) -> $v { yield_point("fetch_max"); self.fetch_max(v, o) }
            }
        };
    }
    varith!(AtomicUsize, usize);
    varith!(AtomicU64, u64);
    pub trait VPtr<T> {
        unsafe fn v_write(self, v: T);
        unsafe fn v_read(self) -> T;
    }
    impl<T> VPtr<T> for *mut T {
        unsafe fn v_write(self, v: T) { yield_point("write"); self.write(v) }
        unsafe fn v_read(self) -> T { yield_point("read"); self.read() }
    }
    pub trait VWeak<T> {
        fn v_upgrade(&self) -> Option<std::sync::Arc<T>>;
    }
    impl<T> VWeak<T> for std::sync::Weak<T> {
        fn v_upgrade(&self) -> Option<std::sync::Arc<T>> { yield_point("upgrade"); self.upgrade() }
    }
    pub fn v_try_unwrap<T>(a: std::sync::Arc<T>) -> Result<T, std::sync::Arc<T>> { yield_point("try_unwrap"); std::sync::Arc::try_unwrap(a) }
    pub trait VCount { fn count(&self) -> usize; }
    impl<T> VCount for std::sync::Arc<T> { fn count(&self) -> usize { std::sync::Arc::strong_count(self) } }
    impl<T> VCount for std::sync::Weak<T> { fn count(&self) -> usize { std::sync::Weak::strong_count(self) } }
    pub fn v_strong_count<C: VCount>(c: &C) -> usize { yield_point("strong_count"); c.count() }
    pub trait VCountM { fn v_strong_count_m(&self) -> usize; }
    impl<T> VCountM for std::sync::Arc<T> { fn v_strong_count_m(&self) -> usize { yield_point("strong_count"); std::sync::Arc::strong_count(self) } }
    impl<T> VCountM for std::sync::Weak<T> { fn v_strong_count_m(&self) -> usize { yield_point("strong_count"); std::sync::Weak::strong_count(self) } }
    pub trait VRwLock<T> {
        fn v_read_lock(&self) -> std::sync::LockResult<std::sync::RwLockReadGuard<'_, T>>;
        fn v_write_lock(&self) -> std::sync::LockResult<std::sync::RwLockWriteGuard<'_, T>>;
    }
    impl<T> VRwLock<T> for std::sync::RwLock<T> {
        fn v_read_lock(&self) -> std::sync::LockResult<std::sync::RwLockReadGuard<'_, T>> { yield_point("rwlock_read"); self.read() }
        fn v_write_lock(&self) -> std::sync::LockResult<std::sync::RwLockWriteGuard<'_, T>> { yield_point("rwlock_write"); self.write() }
    }
}

// ---- injected by /verif/replay/instrument.py into a SCRATCH COPY of metrics-util (never into /repo) ----
/// Yield-before-access wrappers for crossbeam-epoch atomics and std locks.
#[doc(hidden)]
#[allow(missing_docs, clippy::all, dead_code)]
#[cfg(feature = "storage")]
pub mod verif_cb {
    use crossbeam_epoch::{Atomic, CompareExchangeError, Guard, Pointer, Shared};
    use metrics::verif_sched::yield_point;
    use std::sync::atomic::Ordering;
    pub trait VCb<T> {
        fn v_load<'g>(&self, o: Ordering, g: &'g Guard) -> Shared<'g, T>;
        fn v_store<P: Pointer<T>>(&self, p: P, o: Ordering);
        fn v_compare_exchange<'g, P: Pointer<T>>(&self, c: Shared<'_, T>, n: P, s: Ordering, f: Ordering, g: &'g Guard)
            -> Result<Shared<'g, T>, CompareExchangeError<'g, T, P>>;
    }
    impl<T> VCb<T> for Atomic<T> {
        fn v_load<'g>(&self, o: Ordering, g: &'g Guard) -> Shared<'g, T> { yield_point("cb_load"); self.load(o, g) }
        fn v_store<P: Pointer<T>>(&self, p: P, o: Ordering) { yield_point("cb_store"); self.store(p, o) }
        fn v_compare_exchange<'g, P: Pointer<T>>(&self, c: Shared<'_, T>, n: P, s: Ordering, f: Ordering, g: &'g Guard)
            -> Result<Shared<'g, T>, CompareExchangeError<'g, T, P>> { yield_point("cb_cas"); self.compare_exchange(c, n, s, f, g) }
    }
}

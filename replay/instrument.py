#!/usr/bin/env python3
"""Build an instrumented SCRATCH COPY of /repo's working tree for native schedule replay.

Every atomic operation / plain cell access in the listed files is renamed to a wrapper that first calls
`metrics::verif_sched::yield_point(..)`; the wrappers and the hook are injected into the copy. Nothing is written
to /repo. The instrumentation is regenerated from the current sources each time, so it follows whatever the code
under test currently looks like."""
import os, re, sys, shutil, subprocess

HERE = os.path.dirname(os.path.abspath(__file__))
ATOMIC = r"\.(load|store|swap|compare_exchange_weak|compare_exchange|fetch_add|fetch_sub|fetch_or|fetch_and|fetch_max|fetch_update)\("
RULES = {
    "metrics/src/recorder/cell.rs": [(ATOMIC, r".v_\1("), (r"\.get\(\)\.write\(", ".get().v_write("), (r"\.get\(\)\.read\(\)", ".get().v_read()")],
    "metrics/src/key.rs": [(ATOMIC, r".v_\1(")],
    "metrics/src/atomics.rs": [(ATOMIC, r".v_\1(")],
    "metrics-util/src/storage/reservoir.rs": [(ATOMIC, r".v_\1(")],
    "metrics-util/src/storage/bucket.rs": [(ATOMIC, r".v_\1("), (r"\.get\(\)\.write\(", ".get().v_write("),
                                           (r"const BLOCK_SIZE: usize = 64;", "const BLOCK_SIZE: usize = 2;")],
    "metrics-util/src/registry/recency.rs": [(ATOMIC, r".v_\1(")],
    "metrics-util/src/registry/mod.rs": [(r"\.read\(\)", ".v_read_lock()"), (r"\.write\(\)", ".v_write_lock()")],
    "metrics-util/src/recoverable.rs": [(r"\.upgrade\(\)", ".v_upgrade()"), (r"Arc::try_unwrap\(", "metrics::verif_sched::v_try_unwrap("),
                                        (r"(Arc|Weak)::strong_count\(", "metrics::verif_sched::v_strong_count("), (r"\.strong_count\(\)", ".v_strong_count_m()")],
    "metrics-exporter-dogstatsd/src/storage.rs": [(ATOMIC, r".v_\1(")],
    # statement-level yields in the Prometheus recorder: before a bucket is drained and before the distributions lock is taken
    "metrics-exporter-prometheus/src/recorder.rs": [(r"(?m)^(\s*)([^\n/]*\.clear_with\()", r'\1metrics::verif_sched::yield_point("clear_with");\n\1\2'),
                                                    (r"(?m)^(\s*)(let [^\n]*self\.distributions\s*\.write\(\))", r'\1metrics::verif_sched::yield_point("distributions.write");\n\1\2'),
                                                    (r"(?m)^(\s*)(let [^\n]*=\s*)\n(\s*)(self\.distributions\.(read|write)\(\))", r'\1metrics::verif_sched::yield_point("distributions.lock");\n\1\2\n\3\4')],
}
USE = {
    "metrics": "#[allow(unused_imports)]\nuse crate::verif_sched::{VAtomic as _, VArith as _, VPtr as _};\n",
    "other": "#[allow(unused_imports)]\nuse metrics::verif_sched::{VAtomic as _, VArith as _, VPtr as _, VWeak as _, VCountM as _, VRwLock as _};\n",
    "metrics-util/src/storage/bucket.rs": "#[allow(unused_imports)]\nuse metrics::verif_sched::{VAtomic as _, VArith as _, VPtr as _};\n#[allow(unused_imports)]\nuse crate::verif_cb::VCb as _;\n",
}


def insert_use(txt, use):
    # after the leading block of `//!` doc comments / attributes
    lines = txt.split("\n")
    i = 0
    while i < len(lines) and (lines[i].startswith("//!") or lines[i].startswith("#![") or not lines[i].strip()):
        i += 1
    return "\n".join(lines[:i] + [use] + lines[i:])


def main(dst, repo="/repo"):
    if os.path.exists(dst):
        shutil.rmtree(dst)
    os.makedirs(dst)
    subprocess.check_call(["rsync", "-a", "--exclude", "target", "--exclude", ".git", repo + "/", dst + "/"])
    for rel, rules in RULES.items():
        p = os.path.join(dst, rel)
        if not os.path.exists(p):
            continue
        txt = open(p).read()
        # do not touch #[cfg(test)] modules
        cut = txt.find("#[cfg(test)]")
        head, tail = (txt, "") if cut < 0 else (txt[:cut], txt[cut:])
        n = 0
        for pat, rep in rules:
            head, k = re.subn(pat, rep, head)
            n += k
        if not rel.startswith("metrics-exporter-prometheus/"):
            head = insert_use(head, USE.get(rel, USE["metrics" if rel.startswith("metrics/") else "other"]))
        open(p, "w").write(head + tail)
        print(f"instrumented {rel}: {n} sites")
    lib = os.path.join(dst, "metrics/src/lib.rs")
    open(lib, "a").write("\n" + open(os.path.join(HERE, "inject/sched_metrics.rs")).read())
    extra = os.path.join(HERE, "inject/sched_util.rs")
    if os.path.exists(extra):
        open(os.path.join(dst, "metrics-util/src/lib.rs"), "a").write("\n" + open(extra).read())


if __name__ == "__main__":
    main(sys.argv[1], *(sys.argv[2:3]))

//! Replay of C08 counterexamples: the exporter's formatting functions and render() against the strict parser of this crate.
use metrics_exporter_prometheus::formatting::*;
use metrics_exporter_prometheus::PrometheusBuilder;
use vreplay::*;
use vreplay_prom::*;

fn main() {
    let plan = load_plan(&std::env::args().nth(1).expect("plan"));
    let inp = |k: &str| plan.inputs.get(k).copied().unwrap_or(0);
    let mut v: Vec<&str> = vec![];
    match plan.scenario.as_str() {
        "c08_sanitize" => {
            let n = inp("n") as usize;
            let s: String = (0..n).map(|i| char::from_u32(inp(&format!("c{}", i)) as u32).expect("scalar value")).collect();
            let f = inp("fn");
            let r = std::panic::catch_unwind(|| match f {
                0 => sanitize_metric_name(&s),
                1 => sanitize_label_key(&s),
                2 => sanitize_label_value(&s),
                _ => sanitize_description(&s),
            });
            match r {
                Err(_) => v.push("returns"),
                Ok(out) => {
                    println!("fn {} input {:?} -> {:?}", f, s, out);
                    let ok = match f {
                        0 => if n == 0 { out.is_empty() } else { is_metric_name(&out) },
                        1 => if n == 0 { out.is_empty() } else { is_label_name(&out) },
                        2 => unescape(&out, false).is_ok(),
                        _ => unescape(&out, true).is_ok(),
                    };
                    if !ok { v.push("matches_grammar"); v.push("escaped"); }
                }
            }
        }
        "c08_key_to_parts" => {
            let ch = |k: &str| char::from_u32(inp(k) as u32).expect("scalar value").to_string();
            let name: String = (0..inp("nn")).map(|i| ch(&format!("n{}", i))).collect();
            let labels: Vec<metrics::Label> = (0..inp("nl")).map(|i| metrics::Label::new(ch(&format!("k{}", i)), ch(&format!("v{}", i)))).collect();
            let mut globals = indexmap::IndexMap::new();
            for i in 0..inp("ng") { globals.insert(ch(&format!("gk{}", i)), ch(&format!("gv{}", i))); }
            let key = metrics::Key::from_parts(name, labels);
            let r = std::panic::catch_unwind(|| key_to_parts(&key, if globals.is_empty() { None } else { Some(&globals) }));
            match r {
                Err(_) => v.push("returns"),
                Ok((n, ls)) => {
                    println!("key {:?} globals {:?} -> name {:?} labels {:?}", key, globals, n, ls);
                    let mut ok = is_metric_name(&n);
                    for l in &ls {
                        if let Err(e) = parse_line(&format!("m{{{}}} 1", l)) { println!("label {:?}: {}", l, e); ok = false; }
                    }
                    if !ok { v.push("name_and_labels_well_formed"); }
                    // a key label overrides the global label of the same name
                    for l in key.labels() {
                        if let Some(gv) = globals.get(l.key()) {
                            let n = ls.iter().filter(|x| x.starts_with(&format!("{}=", sanitize_label_key(l.key())))).count();
                            let has_key_val = ls.iter().any(|x| *x == format!("{}=\"{}\"", sanitize_label_key(l.key()), sanitize_label_value(l.value())));
                            if n != 1 || !has_key_val { println!("override of {:?} (global {:?}) failed: {:?}", l, gv, ls); v.push("key_label_overrides_global_label"); }
                        }
                    }
                }
            }
        }
        "c08_render" => {
            // kind: 0 counter, 1 gauge, 2 histogram (summary mode), 3 histogram (bucket mode); unit: index into the Unit list + 1, 0 = none
            let kind = inp("kind");
            let units = [metrics::Unit::Count, metrics::Unit::Percent, metrics::Unit::Seconds, metrics::Unit::Milliseconds, metrics::Unit::Microseconds,
                         metrics::Unit::Nanoseconds, metrics::Unit::Tebibytes, metrics::Unit::Gibibytes, metrics::Unit::Mebibytes, metrics::Unit::Kibibytes,
                         metrics::Unit::Bytes, metrics::Unit::TerabitsPerSecond, metrics::Unit::GigabitsPerSecond, metrics::Unit::MegabitsPerSecond,
                         metrics::Unit::KilobitsPerSecond, metrics::Unit::BitsPerSecond, metrics::Unit::CountPerSecond];
            let unit = if inp("unit") == 0 { None } else { Some(units[(inp("unit") - 1) as usize % units.len()].clone()) };
            let described = inp("described") != 0;
            let mut b = PrometheusBuilder::new().set_enable_unit_suffix(inp("unit_suffix") != 0);
            if kind == 3 { b = b.set_buckets(&[1.0]).unwrap(); }
            let rec = b.build_recorder();
            let h = rec.handle();
            metrics::with_local_recorder(&rec, || {
                match kind {
                    0 => { if described { metrics::describe_counter!("m", unit.clone().unwrap_or(metrics::Unit::Count), "d"); } metrics::counter!("m", "k" => "v").absolute(if plan.inputs.contains_key("value") { inp("value") } else { 1 }); }
                    1 => { if described { metrics::describe_gauge!("m", unit.clone().unwrap_or(metrics::Unit::Count), "d"); } metrics::gauge!("m", "k" => "v").set(if plan.inputs.contains_key("value") { f64::from_bits(inp("value")) } else { 1.0 }); }
                    _ => { if described { metrics::describe_histogram!("m", unit.clone().unwrap_or(metrics::Unit::Count), "d"); } metrics::histogram!("m", "k" => "v").record(0.5); }
                }
            });
            let text = h.render();
            println!("{}", text);
            match check_exposition(&text) {
                Err(e) => {
                    println!("strict parser: {}", e);
                    v.push("well_formed_exposition"); v.push("samples_belong_to_their_family"); v.push("K5_unit_suffix_after_family_name");
                }
                Ok(lines) => {
                    if plan.inputs.contains_key("value") && kind <= 1 {
                        let vals: Vec<String> = lines.iter().filter_map(|l| if let Line::Sample(s) = l { Some(s.value.clone()) } else { None }).collect();
                        let ok = vals.len() == 1 && if kind == 0 { vals[0].parse::<u64>().ok() == Some(inp("value")) } else {
                            let want = f64::from_bits(inp("value"));
                            match vals[0].parse::<f64>() { Ok(x) => x.to_bits() == want.to_bits() || (x.is_nan() && want.is_nan()), Err(_) => false } };
                        println!("stored value bits {:#x}; rendered value(s) {:?}; reads back exactly: {}", inp("value"), vals, ok);
                        if !ok { v.push("value_is_the_stored_value"); }
                    }
                }
            }
        }
        s => panic!("unknown scenario {}", s),
    }
    finish(&v, &plan)
}

//! Replay of C15 rolling-window counterexamples through the public API: a PrometheusRecorder with the solver's bucket duration and
//! count, a mock clock that is advanced to the solver's timestamps, samples of distinct magnitudes (10, 100, 1000, ...; later =
//! larger), and the rendered `quantile="0"` / `quantile="1"` / `_sum` / `_count` lines read back with the strict parser.
use std::num::NonZeroU32;
use std::time::Duration;
use metrics::{Key, Level, Metadata, Recorder};
use metrics_exporter_prometheus::PrometheusBuilder;
use vreplay::*;
use vreplay_prom::*;

static MD: Metadata<'static> = Metadata::new("c15", Level::INFO, None);

/// count and sum of the summary series `name` in a rendering
fn count_sum(text: &str, name: &str) -> (Option<f64>, Option<f64>) {
    let lines = check_exposition(text).unwrap_or_default();
    let (mut c, mut s) = (None, None);
    for l in &lines {
        if let Line::Sample(x) = l {
            if x.name == format!("{}_count", name) { c = x.value.parse().ok(); }
            if x.name == format!("{}_sum", name) { s = x.value.parse().ok(); }
        }
    }
    (c, s)
}

fn ageing(plan: &Plan) -> ! {
    let inp = |k: &str| plan.inputs.get(k).copied().unwrap_or(0);
    let (dt1, dt2) = (inp("dt1"), inp("dt2"));
    let (clock, mock) = quanta::Clock::mock();
    let mut v: Vec<&str> = vec![];
    let renders = quanta::with_clock(&clock, || {
        let rec = PrometheusBuilder::new().build_recorder();
        let handle = rec.handle();
        let h = rec.register_histogram(&Key::from_name("c15_a"), &MD);
        mock.increment(1_000_000_000u64);
        h.record(5.0);
        let r1 = handle.render();
        mock.increment(dt1);
        handle.run_upkeep();
        mock.increment(dt2);
        handle.run_upkeep();
        let r2 = handle.render();
        h.record(6.0);
        let r3 = handle.render();
        vec![r1, r2, r3]
    });
    let want = [(1.0, 5.0), (1.0, 5.0), (2.0, 11.0)];
    for (i, r) in renders.iter().enumerate() {
        let (c, s) = count_sum(r, "c15_a");
        println!("rendering {}: _count={:?} _sum={:?} (expected {} / {})", i + 1, c, s, want[i].0, want[i].1);
        if c != Some(want[i].0) || s != Some(want[i].1) { v.push("count_covers_all_samples_in_every_rendering"); }
    }
    finish(&v, plan)
}

/// two bucket overrides (kinds and patterns of the solver's model), global buckets or not, one histogram of the model's name: which
/// `le` bounds does the rendering show, and does the TYPE line agree
fn precedence(plan: &Plan) -> ! {
    use metrics_exporter_prometheus::Matcher;
    let inp = |k: &str| plan.inputs.get(k).copied().unwrap_or(0);
    let text_of = |pre: &str, n: u64| -> String { (0..n).map(|i| (b'a' + inp(&format!("{}_{}", pre, i)) as u8) as char).collect() };
    let (p1, p2, nm) = (text_of("p1", inp("len1")), text_of("p2", inp("len2")), text_of("nm", 3));
    let kind = |k: u64| -> u8 { if k == inp("kFull") { 0 } else if k == inp("kPrefix") { 1 } else { 2 } };
    let (k1, k2) = (kind(inp("kind1")), kind(inp("kind2")));
    let mat = |k: u8, p: &str| match k { 0 => Matcher::Full(p.to_string()), 1 => Matcher::Prefix(p.to_string()), _ => Matcher::Suffix(p.to_string()) };
    let hit = |k: u8, p: &str| match k { 0 => nm == p, 1 => nm.starts_with(p), _ => nm.ends_with(p) };
    let mut v: Vec<&str> = vec![];
    let mut b = PrometheusBuilder::new().set_buckets_for_metric(mat(k1, &p1), &[1.0]).unwrap().set_buckets_for_metric(mat(k2, &p2), &[2.0]).unwrap();
    if inp("global") != 0 { b = b.set_buckets(&[3.0]).unwrap(); }
    let rec = b.build_recorder();
    let handle = rec.handle();
    rec.register_histogram(&Key::from_name(nm.clone()), &MD).record(0.5);
    let text = handle.render();
    println!("{}", text);
    let lines = match check_exposition(&text) { Ok(l) => l, Err(e) => { println!("exposition does not parse: {}", e); v.push("returns"); finish(&v, plan) } };
    let mut les: Vec<String> = vec![]; let mut quant = false; let mut ty = String::new();
    for l in &lines {
        match l {
            Line::Sample(s) => {
                if let Some((_, le)) = s.labels.iter().find(|(k, _)| k == "le") { if le != "+Inf" { les.push(le.clone()); } }
                if s.labels.iter().any(|(k, _)| k == "quantile") { quant = true; }
            }
            Line::Type(n, t) => { if *n == nm { ty = t.clone(); } }
            _ => {}
        }
    }
    let got: i32 = if quant || les.is_empty() { -1 } else { les[0].parse::<f64>().map(|x| x as i32).unwrap_or(-2) };
    let (m1, m2) = (hit(k1, &p1), hit(k2, &p2));
    let want: Vec<i32> = if m1 && m2 { if k1 < k2 { vec![1] } else if k2 < k1 { vec![2] } else { vec![1, 2] } }
        else if m1 { vec![1] } else if m2 { vec![2] } else if inp("global") != 0 { vec![3] } else { vec![-1] };
    println!("overrides {:?}({:?}) -> le 1, {:?}({:?}) -> le 2, global: {}; name {:?}: rendered {} (TYPE {:?}); the rule allows {:?}", k1, p1, k2, p2, inp("global"), nm,
             if got == -1 { "a summary".to_string() } else { format!("le {}", got) }, ty, want);
    if !want.contains(&got) { v.push("full_then_prefix_then_suffix_then_global"); }
    if (got == -1) != (ty == "summary") { v.push("type_string_agrees_with_distribution"); }
    finish(&v, plan)
}

fn main() {
    let plan = load_plan(&std::env::args().nth(1).expect("plan"));
    if plan.scenario == "c15_ageing" { ageing(&plan); }
    if plan.scenario == "c15_precedence" { precedence(&plan); }
    let inp = |k: &str| plan.inputs.get(k).copied().unwrap_or(0);
    let (n, d, now, k, batch) = (inp("n"), inp("d"), inp("now"), inp("k") as usize, inp("batch") != 0);
    let ts: Vec<u64> = (0..k).map(|i| inp(&format!("ts{}", i))).collect();
    let vals: Vec<f64> = (0..k).map(|i| 10f64.powi(i as i32 + 1)).collect();
    let mut v: Vec<&str> = vec![];
    if inp("direct") != 0 {
        // timestamps in any order cannot be produced through a handle (the clock does not run backwards): the public Distribution
        // API is driven directly with instants taken from a mock clock
        let (clock, mock) = quanta::Clock::mock();
        let mut cur = 0u64;
        let mut instants = vec![];
        for i in 0..k {
            if ts[i] >= cur { mock.increment(ts[i] - cur); } else { mock.decrement(cur - ts[i]); }
            cur = ts[i];
            instants.push(clock.now());
        }
        let mut dist = metrics_exporter_prometheus::Distribution::new_summary(std::sync::Arc::new(vec![]), Duration::from_nanos(d), NonZeroU32::new(n as u32).unwrap());
        let samples: Vec<(f64, quanta::Instant)> = (0..k).map(|i| (vals[i], instants[i])).collect();
        let r = std::panic::catch_unwind(std::panic::AssertUnwindSafe(|| {
            if batch { dist.record_samples(&samples); } else { for s_ in &samples { dist.record_samples(&[*s_]); } }
        }));
        if r.is_err() { v.push("returns"); }
        if let metrics_exporter_prometheus::Distribution::Summary(rolling, _, sum) = &dist {
            println!("n={} d={} ts={:?}: count={} sum={}", n, d, ts, rolling.count(), sum);
            if rolling.count() != k { v.push("count_covers_all_samples"); }
        } else { v.push("returns"); }
        finish(&v, &plan);
    }
    let (clock, mock) = quanta::Clock::mock();
    let text = quanta::with_clock(&clock, || {
        let rec = PrometheusBuilder::new().set_quantiles(&[0.0, 1.0]).unwrap().set_bucket_duration(Duration::from_nanos(d)).unwrap()
            .set_bucket_count(NonZeroU32::new(n as u32).unwrap()).build_recorder();
        let handle = rec.handle();
        let h = rec.register_histogram(&Key::from_name("c15_s"), &MD);
        let mut t = 0u64;
        for i in 0..k {
            mock.increment(ts[i] - t);
            t = ts[i];
            h.record(vals[i]);
            if !batch { handle.run_upkeep(); }
        }
        mock.increment(now - t);
        handle.render()
    });
    println!("{}", text);
    let lines = match check_exposition(&text) { Ok(l) => l, Err(e) => { println!("exposition does not parse: {}", e); vec![] } };
    let mut q0 = None; let mut q1 = None; let mut sum = None; let mut count = None;
    for l in &lines {
        if let Line::Sample(s) = l {
            let q = s.labels.iter().find(|(k, _)| k == "quantile").map(|(_, v)| v.clone());
            match (s.name.as_str(), q.as_deref()) {
                ("c15_s", Some("0")) => q0 = s.value.parse::<f64>().ok(),
                ("c15_s", Some("1")) => q1 = s.value.parse::<f64>().ok(),
                ("c15_s_sum", _) => sum = s.value.parse::<f64>().ok(),
                ("c15_s_count", _) => count = s.value.parse::<f64>().ok(),
                _ => {}
            }
        }
    }
    let window = n * d;
    let may: Vec<usize> = (0..k).filter(|i| ts[*i] + window > now).collect();
    let must: Vec<usize> = (0..k).filter(|i| ts[*i] + window > now + d).collect();
    let which = |x: f64| -> Option<usize> { (0..k).find(|i| (x / vals[*i] - 1.0).abs() < 0.02) };
    println!("n={} d={} now={} ts={:?}: may be in the window {:?}, must be {:?}; rendered min={:?} max={:?} sum={:?} count={:?}", n, d, now, ts, may, must, q0, q1, sum, count);
    match (q0, q1) {
        (Some(a), Some(b)) => {
            for x in [a, b] {
                match which(x) {
                    Some(i) => { if !may.contains(&i) { v.push("quantiles_ignore_samples_older_than_the_window"); } }
                    None => { if !(x == 0.0 && must.is_empty()) { v.push("quantiles_ignore_samples_older_than_the_window"); v.push("quantiles_cover_samples_inside_the_window"); } }
                }
            }
            if let (Some(lo), Some(hi)) = (must.first(), must.last()) {
                if which(a).map_or(true, |i| i > *lo) || which(b).map_or(true, |i| i < *hi) { v.push("quantiles_cover_samples_inside_the_window"); }
            }
        }
        _ => { v.push("returns"); }
    }
    if count != Some(k as f64) { v.push("count_covers_all_samples"); }
    if sum.map_or(true, |s| (s - vals.iter().sum::<f64>()).abs() > 1e-6 * vals.iter().sum::<f64>()) { v.push("count_covers_all_samples"); }
    finish(&v, &plan)
}

//! Replay of C18 counterexamples against a real scrape endpoint: the exporter is built through the public builder,
//! served on 127.0.0.1:<free port>, and raw HTTP/1.1 requests are sent from chosen 127.0.0.0/8 source addresses.
use std::io::{Read, Write};
use std::net::{SocketAddr, TcpStream};
use std::time::Duration;
use metrics_exporter_prometheus::PrometheusBuilder;
use vreplay::*;

/// GET `path` from source address `src`; returns (status, body)
fn get(server: SocketAddr, src: &str, path: &str) -> Option<(u16, String)> {
    let v6 = src.contains(':');
    let sock = socket2::Socket::new(if v6 { socket2::Domain::IPV6 } else { socket2::Domain::IPV4 }, socket2::Type::STREAM, None).ok()?;
    let local: SocketAddr = if v6 { format!("[{}]:0", src) } else { format!("{}:0", src) }.parse().unwrap();
    sock.bind(&local.into()).ok()?;
    sock.connect_timeout(&server.into(), Duration::from_secs(3)).ok()?;
    let mut s: TcpStream = sock.into();
    s.set_read_timeout(Some(Duration::from_secs(3))).ok()?;
    write!(s, "GET {} HTTP/1.1\r\nHost: x\r\nConnection: close\r\n\r\n", path).ok()?;
    let mut raw = Vec::new();
    let _ = s.read_to_end(&mut raw);
    let txt = String::from_utf8_lossy(&raw).to_string();
    let status: u16 = txt.split_whitespace().nth(1)?.parse().ok()?;
    let body = txt.split("\r\n\r\n").nth(1).unwrap_or("").to_string();
    // de-chunk is not needed: the exporter sends Content-Length bodies
    Some((status, body))
}

fn serve(allow: Option<Vec<String>>) -> Result<SocketAddr, String> {
    serve_with(allow, |_| {})
}

/// like `serve`, but `pre(addr)` runs after the exporter is built (listener bound) and before its future is first polled
fn serve_with(allow: Option<Vec<String>>, pre: impl FnOnce(SocketAddr) + Send + 'static) -> Result<SocketAddr, String> {
    serve_on("127.0.0.1", allow, pre)
}

fn serve_on(host: &str, allow: Option<Vec<String>>, pre: impl FnOnce(SocketAddr) + Send + 'static) -> Result<SocketAddr, String> {
    let port = { let l = std::net::TcpListener::bind(format!("{}:0", host)).map_err(|e| format!("bind {}: {}", host, e))?; l.local_addr().unwrap().port() };
    let addr: SocketAddr = format!("{}:{}", host, port).parse().unwrap();
    let mut b = PrometheusBuilder::new().with_http_listener(addr);
    if let Some(list) = allow {
        for a in list {
            b = b.add_allowed_address(&a).map_err(|e| format!("add_allowed_address({:?}) -> Err({})", a, e))?;
        }
    }
    let (tx, rx) = std::sync::mpsc::channel();
    std::thread::spawn(move || {
        let rt = tokio::runtime::Builder::new_current_thread().enable_all().build().unwrap();
        rt.block_on(async move {
            match b.build() {
                Ok((rec, fut)) => {
                    metrics::with_local_recorder(&rec, || {
                        metrics::counter!("c18_probe_total").increment(3);
                    });
                    pre(addr);
                    tx.send(Ok(())).unwrap();
                    let _keep = rec;
                    let r = fut.await;
                    println!("exporter future completed: ok={}", r.is_ok());
                }
                Err(e) => tx.send(Err(format!("build: {}", e))).unwrap(),
            }
        });
    });
    rx.recv_timeout(Duration::from_secs(5)).map_err(|e| e.to_string())??;
    std::thread::sleep(Duration::from_millis(200));
    Ok(addr)
}

fn main() {
    let plan = load_plan(&std::env::args().nth(1).expect("plan"));
    let inp = |k: &str| plan.inputs.get(k).copied().unwrap_or(0);
    let mut v: Vec<&str> = vec![];
    match plan.scenario.as_str() {
        "c18_syntax" => {
            // the documented syntaxes: a plain address, a subnet; anything else is an error
            let cls = inp("cls");
            if inp("family") == 6 {
                // IPv6: the listener on [::1], the only local IPv6 source address is ::1. An entry naming ::1 must admit it, an entry
                // naming another host (::2) must not: a plain address is exactly that host.
                let (this, that) = [("::1/128", "::2/128"), ("::1", "::2"), ("localhost6", "localhost6")][cls as usize];
                let mut results = vec![];
                for s in [this, that] {
                    match serve_on("[::1]", Some(vec![s.to_string()]), |_| {}) {
                        Ok(addr) => { let r = get(addr, "::1", "/metrics").map(|x| x.0); println!("entry {:?} accepted; ::1 -> {:?}", s, r); results.push(Ok(r)); }
                        Err(e) => { println!("entry {:?} rejected: {}", s, e); results.push(Err(e)); }
                    }
                }
                let good = matches!(results[0], Ok(Some(200))) && matches!(results[1], Ok(Some(403)));
                if cls == 2 && results.iter().any(|r| r.is_ok()) { v.push("garbage_rejected"); }
                if cls == 0 && !good { v.push("subnet_accepted"); }
                if cls == 1 && !good { v.push("plain_address_accepted"); }
                finish(&v, &plan);
            }
            let s = ["127.0.0.1/32", "127.0.0.1", "localhost"][cls as usize];
            match serve(Some(vec![s.to_string()])) {
                Ok(addr) => {
                    let inside = get(addr, "127.0.0.1", "/metrics");
                    let outside = get(addr, "127.0.0.2", "/metrics");
                    println!("address {:?} accepted; 127.0.0.1 -> {:?}; 127.0.0.2 -> {:?}", s, inside.as_ref().map(|x| x.0), outside.as_ref().map(|x| x.0));
                    let good = inside.map(|x| x.0) == Some(200) && outside.map(|x| x.0) == Some(403);
                    if cls == 2 { v.push("garbage_rejected"); }
                    if cls == 0 && !good { v.push("subnet_accepted"); }
                    if cls == 1 && !good { v.push("plain_address_accepted"); }
                }
                Err(e) => {
                    println!("address {:?} rejected: {}", s, e);
                    if cls == 0 { v.push("subnet_accepted"); }
                    if cls == 1 { v.push("plain_address_accepted"); }
                }
            }
        }
        "c18_allow" => {
            // the solver's allowlist and peer, verbatim: networks through add_allowed_address("a.b.c.d/len"), the request from the peer's loopback address
            let (configured, n, peer_ok) = (inp("configured") != 0, inp("n") as usize, inp("peer_ok") != 0);
            if !peer_ok {
                println!("a failing peer_addr() cannot be provoked natively: not replayable");
                finish(&v, &plan);
            }
            let dotted = |x: u64| format!("{}.{}.{}.{}", (x >> 24) & 255, (x >> 16) & 255, (x >> 8) & 255, x & 255);
            let v6peer = inp("v6peer") != 0;
            let list: Option<Vec<String>> = if configured {
                Some((0..n).map(|i| if inp(&format!("v6_{}", i)) != 0 {
                    let a = ((inp(&format!("addrhi{}", i)) as u128) << 64) | inp(&format!("addr{}", i)) as u128;
                    format!("{}/{}", std::net::Ipv6Addr::from(a), inp(&format!("plen{}", i)))
                } else { format!("{}/{}", dotted(inp(&format!("addr{}", i)) & 0xffff_ffff), inp(&format!("plen{}", i))) }).collect())
            } else { None };
            if configured && n == 0 {
                println!("an empty allowlist cannot be configured through the builder: not replayable");
                finish(&v, &plan);
            }
            let peer = if v6peer { "::1".to_string() } else { dotted(inp("peer")) };
            let inside = inp("inside") != 0;
            let addr = match (if v6peer { serve_on("[::1]", list.clone(), |_| {}) } else { serve(list.clone()) }) { Ok(a) => a, Err(e) => { println!("exporter does not start with {:?}: {}", list, e); v.push("terminates"); finish(&v, &plan) } };
            let r = get(addr, &peer, "/metrics");
            println!("allowlist {:?}; peer {} (inside a listed network: {}) GET /metrics -> {:?}", list, peer, inside, r.as_ref().map(|x| x.0));
            let should_serve = !configured || inside;
            match r {
                Some((200, _)) => { if !should_serve { v.push("outside_peer_refused"); } }
                Some((403, _)) => { if should_serve { v.push(if configured { "inside_peer_served" } else { "no_allowlist_serves_everyone" }); } }
                other => {
                    println!("unexpected exchange: {:?}", other);
                    v.push("terminates");
                }
            }
        }
        "c18_loop" => {
            let (configured, n, k_max) = (inp("configured") != 0, inp("n") as usize, inp("K") as usize);
            let dotted = |x: u64| format!("{}.{}.{}.{}", (x >> 24) & 255, (x >> 16) & 255, (x >> 8) & 255, x & 255);
            let list: Option<Vec<String>> = if configured {
                Some((0..n).map(|i| format!("{}/{}", dotted(inp(&format!("addr{}", i))), inp(&format!("plen{}", i)))).collect())
            } else { None };
            let health = inp("health") != 0;
            // connections whose peer address cannot be determined: reset while still in the accept backlog (Linux: accept() returns them, getpeername() fails)
            let resets: Vec<String> = (0..k_max).filter(|k| inp(&format!("acc{}", k)) != 0 && inp(&format!("peerok{}", k)) == 0).map(|k| dotted(inp(&format!("peer{}", k)))).collect();
            if (0..k_max).any(|k| inp(&format!("acc{}", k)) == 0) {
                println!("note: a failing accept() cannot be provoked natively; that connection is skipped");
            }
            let addr = match serve_with(list.clone(), move |addr| {
                for src in &resets {
                    let sock = socket2::Socket::new(socket2::Domain::IPV4, socket2::Type::STREAM, None).unwrap();
                    let local: SocketAddr = format!("{}:0", src).parse().unwrap();
                    let _ = sock.bind(&local.into());
                    let _ = sock.set_linger(Some(Duration::from_secs(0)));
                    let r = sock.connect_timeout(&addr.into(), Duration::from_secs(2));
                    println!("backlog connection from {} then RST: {:?}", src, r.is_ok());
                    drop(sock);
                }
                std::thread::sleep(Duration::from_millis(200));
            }) { Ok(a) => a, Err(e) => { println!("exporter does not start: {}", e); v.push("no_panic"); finish(&v, &plan) } };
            let path = if health { "/health" } else { "/metrics" };
            for k in 0..k_max {
                if inp(&format!("acc{}", k)) == 0 || inp(&format!("peerok{}", k)) == 0 { continue; }
                let peer = dotted(inp(&format!("peer{}", k)));
                let should = !configured || inp(&format!("inside{}", k)) != 0;
                let r = get(addr, &peer, path);
                println!("connection {}: peer {} (should be served: {}) GET {} -> {:?}", k, peer, should, path, r.as_ref().map(|x| (x.0, x.1.len())));
                match r {
                    Some((200, body)) => { if !should || (health && body != "OK") || (!health && !body.contains("c18_probe_total 3")) { v.push("answer_follows_the_allowlist"); } }
                    Some((403, body)) => { if should || !body.is_empty() { v.push("answer_follows_the_allowlist"); } }
                    Some(_) => v.push("answer_follows_the_allowlist"),
                    None => { v.push("every_accepted_connection_is_answered"); v.push("later_clients_still_served"); }
                }
            }
            // whatever happened before, a later client must still get an HTTP answer
            let later = get(addr, "127.0.0.1", "/health");
            println!("later client 127.0.0.1 GET /health -> {:?}", later.as_ref().map(|x| x.0));
            if later.is_none() { v.push("later_clients_still_served"); }
        }
        "c18_response" => {
            let (configured, n, inmask, peer_ok) = (inp("configured") != 0, inp("n") as usize, inp("inmask"), inp("peer_ok") != 0);
            let _ = peer_ok;
            let health = inp("health") != 0;
            let list: Option<Vec<String>> = if configured {
                Some((0..n).map(|i| if inmask >> i & 1 == 1 { "127.0.0.2/32".to_string() } else { format!("127.0.0.{}/32", 10 + i) }).collect())
            } else { None };
            // an empty allowlist cannot be configured through the builder (Some(vec![]) needs at least one add): use a far-away host
            let list = list.map(|l| if l.is_empty() { vec!["127.0.0.99/32".to_string()] } else { l });
            let addr = serve(list).expect("exporter starts");
            let path = if health { "/health" } else { "/metrics" };
            let r = get(addr, "127.0.0.2", path);
            println!("peer 127.0.0.2 GET {} -> {:?}", path, r);
            let should_serve = !configured || inmask != 0;
            match r {
                Some((200, body)) => {
                    if !should_serve { v.push("outside_peer_refused"); v.push("refused_peer_gets_403_empty_and_no_metric_data"); }
                    if health && body != "OK" { v.push("health_returns_ok"); }
                    if !health && !body.contains("c18_probe_total 3") { v.push("other_paths_return_the_current_rendering"); }
                }
                Some((403, body)) => {
                    if should_serve { v.push(if configured { "inside_peer_served" } else { "no_allowlist_serves_everyone" }); v.push("health_returns_ok"); v.push("other_paths_return_the_current_rendering"); }
                    if !body.is_empty() { v.push("refused_peer_gets_403_empty_and_no_metric_data"); }
                }
                other => {
                    println!("unexpected exchange: {:?}", other);
                    v.push("refused_peer_gets_403_empty_and_no_metric_data"); v.push("health_returns_ok"); v.push("other_paths_return_the_current_rendering");
                    if should_serve { v.push("inside_peer_served"); v.push("no_allowlist_serves_everyone"); } else { v.push("outside_peer_refused"); }
                }
            }
        }
        s => panic!("unknown scenario {}", s),
    }
    finish(&v, &plan)
}

//! Replay of recorder-level idle-timeout counterexamples through the public API with the real clock (idle timeout 150 ms; "idle longer
//! than the timeout" = 450 ms of sleep, "not idle long enough" = 10 ms), checked on the rendered text by the strict parser.
use std::time::Duration;
use metrics::{Key, Level, Metadata, Recorder};
use metrics_exporter_prometheus::PrometheusBuilder;
use metrics_util::MetricKindMask;
use vreplay::*;
use vreplay_prom::*;

static MD: Metadata<'static> = Metadata::new("c12", Level::INFO, None);

fn find(text: &str, name: &str) -> Option<f64> {
    for l in check_exposition(text).unwrap_or_default() {
        if let Line::Sample(x) = l { if x.name == name { return x.value.parse().ok(); } }
    }
    None
}

fn main() {
    let plan = load_plan(&std::env::args().nth(1).expect("plan"));
    let inp = |k: &str| plan.inputs.get(k).copied().unwrap_or(0);
    let (kind, ngl, drop) = (inp("kind"), inp("ngl"), inp("drop") != 0);
    let mut b = PrometheusBuilder::new().idle_timeout(MetricKindMask::ALL, Some(Duration::from_millis(150)));
    for i in 0..ngl { b = b.add_global_label(format!("gl{}", i), format!("v{}", i)); }
    let rec = b.build_recorder();
    let handle = rec.handle();
    let key = Key::from_name("c12_m");
    let (a, bb) = (3.0f64, 4.0f64);
    let update = |x: f64| match kind { 0 => rec.register_counter(&key, &MD).increment(x as u64), 1 => rec.register_gauge(&key, &MD).set(x), _ => rec.register_histogram(&key, &MD).record(x) };
    let probe = if kind == 2 { "c12_m_count" } else { "c12_m" };
    update(a);
    let r1 = handle.render();
    std::thread::sleep(Duration::from_millis(if drop { 450 } else { 10 }));
    let r2 = handle.render();
    update(bb);
    let r3 = handle.render();
    let (v1, v2, v3) = (find(&r1, probe), find(&r2, probe), find(&r3, probe));
    let one = if kind == 2 { 1.0 } else { a };
    let fresh = if kind == 2 { 1.0 } else { bb };
    let kept = match kind { 0 => a + bb, 1 => bb, _ => 2.0 };
    println!("kind={} global labels={} idle longer than the timeout={}: renderings show {:?} / {:?} / {:?}; expected {:?} / {:?} / {:?}", kind, ngl, drop, v1, v2, v3,
             Some(one), if drop { None } else { Some(one) }, Some(if drop { fresh } else { kept }));
    let mut v: Vec<&str> = vec![];
    if v1 != Some(one) || v2 != (if drop { None } else { Some(one) }) || v3 != Some(if drop { fresh } else { kept }) { v.push("dropped_iff_idle_and_reappears_fresh"); }
    finish(&v, &plan)
}

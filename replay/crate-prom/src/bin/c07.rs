//! Replay of C07 counterexamples: the same histories through the public recorder/handle API; render() output parsed by the
//! strict parser of this crate and compared with what was recorded.
use metrics_exporter_prometheus::PrometheusBuilder;
use vreplay::*;
use vreplay_prom::*;

fn sample(lines: &[Line], name: &str) -> Option<String> {
    lines.iter().find_map(|l| match l { Line::Sample(s) if s.name == name => Some(s.value.clone()), _ => None })
}

/// global labels whose names need sanitising, overridden (or not) by key labels of the same raw name
fn global_labels(plan: &Plan) -> ! {
    let rec = PrometheusBuilder::new()
        .add_global_label("service.name", "from-global")
        .add_global_label("plain", "g1")
        .add_global_label("plain", "g2")
        .add_global_label("other-one", "kept")
        .build_recorder();
    let h = rec.handle();
    let mut v: Vec<&str> = vec![];
    metrics::with_local_recorder(&rec, || {
        metrics::counter!("c07_gl", "service.name" => "from-key").increment(1);
    });
    let text = h.render();
    println!("{}", text);
    match check_exposition(&text) {
        Err(e) => { println!("strict parser: {}", e); v.push("stored_under_the_given_name_latest_value_wins"); }
        Ok(lines) => {
            let s = lines.iter().find_map(|l| match l { Line::Sample(s) if s.name == "c07_gl" => Some(s.clone()), _ => None });
            let get = |s: &Sample, k: &str| s.labels.iter().filter(|x| x.0 == k).map(|x| x.1.clone()).collect::<Vec<_>>();
            match s {
                None => v.push("stored_under_the_given_name_latest_value_wins"),
                Some(s) => {
                    if get(&s, "service_name") != vec!["from-key".to_string()] || get(&s, "plain") != vec!["g2".to_string()] || get(&s, "other_one") != vec!["kept".to_string()] {
                        v.push("stored_under_the_given_name_latest_value_wins");
                    }
                }
            }
        }
    }
    finish(&v, plan)
}

/// run_upkeep() on one thread and render() on another. The solver's counterexample says that samples are outside both the
/// bucket and the distribution while the write lock is not held; natively this shows as a render that starts after both
/// samples were recorded and does not report them. Position search: the upkeep thread passes p of the recorder's yield
/// points (before a bucket is drained, before the distributions lock is taken), then render() runs to completion, then
/// upkeep finishes (where render() blocks on the lock held by upkeep, the wait runs out and upkeep goes on).
fn lock_discipline(plan: &Plan) -> ! {
    let mut v: Vec<&str> = vec![];
    set_wait_secs(4);
    for p in 0..6usize {
        let rec = PrometheusBuilder::new().build_recorder();
        let h = rec.handle();
        metrics::with_local_recorder(&rec, || {
            let hist = metrics::histogram!("c07_l");
            hist.record(1.0);
            hist.record(2.0);
        });
        let mut sched = vec![1usize; p];
        sched.extend(std::iter::repeat(2usize).take(4000));
        install_filtered(sched, &["clear_with", "distributions.write", "distributions.lock"]);
        let h1 = h.clone();
        let t1 = std::thread::spawn(move || { set_thread(1); h1.run_upkeep(); thread_done(); });
        let h2 = h.clone();
        let t2 = std::thread::spawn(move || { set_thread(2); let t = h2.render(); thread_done(); t });
        let _ = t1.join();
        let text = t2.join().unwrap_or_default();
        let (pos, _) = consumed();
        let div = diverged();
        metrics::verif_sched::set_hook(None);
        let count = check_exposition(&text).ok().and_then(|lines| sample(&lines, "c07_l_count"));
        println!("render() after {} yield point(s) of run_upkeep(): _count = {:?} (2 samples were recorded before either call started){}", p, count,
                 if div { " [the forced order ended early: render finished, or blocked on the lock until the wait ran out]" } else { "" });
        // yields only delay threads: whatever order was actually taken is an order the real code allows, and a render that
        // started after both samples were recorded must report them
        if count.as_deref() != Some("2") {
            println!("{}", text);
            v.push("samples_leave_the_bucket_and_enter_the_distribution_under_one_write_lock");
            break;
        }
        if pos < p { break; }
    }
    install(vec![]);
    metrics::verif_sched::set_hook(None);
    set_wait_secs(30);
    finish(&v, plan)
}

fn main() {
    let plan = load_plan(&std::env::args().nth(1).expect("plan"));
    if plan.scenario == "c07_global_labels" { global_labels(&plan); }
    if plan.scenario == "c07_lock" { lock_discipline(&plan); }
    let inp = |k: &str| plan.inputs.get(k).copied().unwrap_or(0);
    let rec = PrometheusBuilder::new().build_recorder();
    let h = rec.handle();
    let mut v: Vec<&str> = vec![];
    metrics::with_local_recorder(&rec, || {
        match plan.scenario.as_str() {
            "c07_conservation" => {
                let hist = metrics::histogram!("c07_h");
                let c = metrics::counter!("c07_c");
                let g = metrics::gauge!("c07_g");
                let (c1, g1) = (inp("c1"), f64::from_bits(inp("g1")));
                let mut counts = vec![];
                let mut vals_ok = true;
                let mut check = |want: usize, counts: &mut Vec<(usize, Option<String>)>| {
                    let text = h.render();
                    match check_exposition(&text) {
                        Ok(lines) => {
                            counts.push((want, sample(&lines, "c07_h_count")));
                            let cv = sample(&lines, "c07_c");
                            let gv = sample(&lines, "c07_g");
                            if cv != Some(format!("{}", c1)) { vals_ok = false; }
                            if gv.and_then(|x| x.parse::<f64>().ok()).map(|x| x.to_bits() == g1.to_bits() || (x.is_nan() && g1.is_nan())) != Some(true) { vals_ok = false; }
                        }
                        Err(e) => { println!("strict parser: {}", e); counts.push((want, None)); }
                    }
                };
                hist.record(1.0); c.absolute(c1); g.set(g1);
                check(1, &mut counts);
                hist.record(2.0); h.run_upkeep(); h.run_upkeep();
                check(2, &mut counts);
                check(2, &mut counts);
                hist.record(3.0);
                check(3, &mut counts);
                println!("(expected, rendered _count): {:?}; counter/gauge ok: {}", counts, vals_ok);
                if counts.iter().any(|(w, got)| got.as_deref() != Some(&w.to_string())) { v.push("histogram_count_is_number_of_samples_recorded"); v.push("every_sample_folded_exactly_once"); }
                if !vals_ok { v.push("counter_and_gauge_show_the_current_value"); }
            }
            "c07_first_description_wins" => {
                metrics::describe_counter!("c07_d", metrics::Unit::Seconds, "first");
                metrics::describe_counter!("c07_d", metrics::Unit::Bytes, "second");
                metrics::counter!("c07_d").increment(1);
                let text = h.render();
                println!("{}", text);
                if !text.contains("# HELP c07_d first\n") { v.push("first_description_wins"); }
            }
            s => panic!("unknown scenario {}", s),
        }
    });
    finish(&v, &plan)
}

//! A strict parser of the Prometheus text exposition format, written from the format specification
//! (https://prometheus.io/docs/instrumenting/exposition_formats/#text-format-details). It is the native oracle of the
//! C07/C08 replays: it shares no code with the exporter.

#[derive(Debug, Clone, PartialEq)]
pub struct Sample {
    pub name: String,
    pub labels: Vec<(String, String)>,
    pub value: String,
}

#[derive(Debug, Clone, PartialEq)]
pub enum Line {
    Help(String, String),
    Type(String, String),
    Sample(Sample),
    Blank,
}

pub fn is_metric_name(s: &str) -> bool {
    let mut it = s.chars();
    match it.next() {
        Some(c) if c.is_ascii_alphabetic() || c == '_' || c == ':' => {}
        _ => return false,
    }
    it.all(|c| c.is_ascii_alphanumeric() || c == '_' || c == ':')
}

pub fn is_label_name(s: &str) -> bool {
    let mut it = s.chars();
    match it.next() {
        Some(c) if c.is_ascii_alphabetic() || c == '_' => {}
        _ => return false,
    }
    it.all(|c| c.is_ascii_alphanumeric() || c == '_')
}

/// un-escape a label value (`\\`, `\"`, `\n` only) or a HELP text (`\\`, `\n` only)
pub fn unescape(s: &str, help: bool) -> Result<String, String> {
    let mut out = String::new();
    let mut it = s.chars();
    while let Some(c) = it.next() {
        match c {
            '\\' => match it.next() {
                Some('\\') => out.push('\\'),
                Some('n') => out.push('\n'),
                Some('"') if !help => out.push('"'),
                other => return Err(format!("invalid escape \\{:?}", other)),
            },
            '\n' => return Err("raw newline".into()),
            '"' if !help => return Err("raw quote".into()),
            c => out.push(c),
        }
    }
    Ok(out)
}

fn is_value(s: &str) -> bool {
    matches!(s, "NaN" | "+Inf" | "-Inf" | "Inf") || s.parse::<f64>().is_ok()
}

pub fn parse_line(l: &str) -> Result<Line, String> {
    if l.is_empty() {
        return Ok(Line::Blank);
    }
    if let Some(rest) = l.strip_prefix("# HELP ") {
        let (name, text) = rest.split_once(' ').unwrap_or((rest, ""));
        if !is_metric_name(name) {
            return Err(format!("HELP: bad metric name {:?}", name));
        }
        return Ok(Line::Help(name.to_string(), unescape(text, true).map_err(|e| format!("HELP text: {}", e))?));
    }
    if let Some(rest) = l.strip_prefix("# TYPE ") {
        let (name, ty) = rest.split_once(' ').ok_or("TYPE: missing type")?;
        if !is_metric_name(name) {
            return Err(format!("TYPE: bad metric name {:?}", name));
        }
        if !matches!(ty, "counter" | "gauge" | "histogram" | "summary" | "untyped") {
            return Err(format!("TYPE: unknown type {:?}", ty));
        }
        return Ok(Line::Type(name.to_string(), ty.to_string()));
    }
    if l.starts_with('#') {
        return Err(format!("comment line that is neither HELP nor TYPE: {:?}", l));
    }
    // sample: name [ '{' label '=' '"' value '"' { ',' ... } [','] '}' ] ' ' value
    let cs: Vec<char> = l.chars().collect();
    let mut i = 0;
    while i < cs.len() && cs[i] != '{' && cs[i] != ' ' {
        i += 1;
    }
    let name: String = cs[..i].iter().collect();
    if !is_metric_name(&name) {
        return Err(format!("sample: bad metric name {:?}", name));
    }
    let mut labels = vec![];
    if i < cs.len() && cs[i] == '{' {
        i += 1;
        loop {
            if i < cs.len() && cs[i] == '}' {
                i += 1;
                break;
            }
            let st = i;
            while i < cs.len() && cs[i] != '=' {
                i += 1;
            }
            let key: String = cs[st..i.min(cs.len())].iter().collect();
            if !is_label_name(&key) {
                return Err(format!("sample: bad label name {:?}", key));
            }
            if i + 1 >= cs.len() || cs[i + 1] != '"' {
                return Err("sample: label value must start with a quote".into());
            }
            i += 2;
            let st = i;
            loop {
                if i >= cs.len() {
                    return Err("sample: unterminated label value".into());
                }
                if cs[i] == '\\' {
                    i += 2;
                    continue;
                }
                if cs[i] == '"' {
                    break;
                }
                i += 1;
            }
            let raw: String = cs[st..i].iter().collect();
            let val = unescape(&raw, false).map_err(|e| format!("label value: {}", e))?;
            labels.push((key, val));
            i += 1;
            if i < cs.len() && cs[i] == ',' {
                i += 1;
                continue;
            }
            if i < cs.len() && cs[i] == '}' {
                i += 1;
                break;
            }
            return Err("sample: expected ',' or '}' after a label".into());
        }
    }
    if i >= cs.len() || cs[i] != ' ' {
        return Err("sample: expected a space before the value".into());
    }
    let value: String = cs[i + 1..].iter().collect();
    if !is_value(&value) {
        return Err(format!("sample: bad value {:?}", value));
    }
    Ok(Line::Sample(Sample { name, labels, value }))
}

/// family-level rules: every sample belongs to a family announced by exactly one TYPE line that precedes it; its name is the
/// family name or the family name plus a suffix the type allows; HELP at most once per family and before its samples
pub fn check_exposition(text: &str) -> Result<Vec<Line>, String> {
    if !text.is_empty() && !text.ends_with('\n') {
        return Err("the last line is not terminated".into());
    }
    let mut lines = vec![];
    for (n, l) in text.split('\n').enumerate() {
        lines.push(parse_line(l).map_err(|e| format!("line {}: {} in {:?}", n + 1, e, l))?);
    }
    let mut types: Vec<(String, String)> = vec![];
    let mut helps: Vec<String> = vec![];
    let mut current: Option<(String, String)> = None;
    for l in &lines {
        match l {
            Line::Type(n, t) => {
                if types.iter().any(|(x, _)| x == n) {
                    return Err(format!("second TYPE line for family {:?}", n));
                }
                types.push((n.clone(), t.clone()));
                current = Some((n.clone(), t.clone()));
            }
            Line::Help(n, _) => {
                if helps.contains(n) {
                    return Err(format!("second HELP line for family {:?}", n));
                }
                helps.push(n.clone());
            }
            Line::Sample(s) => {
                let (fam, ty) = current.clone().ok_or_else(|| format!("sample {:?} before any TYPE line", s.name))?;
                let allowed: &[&str] = match ty.as_str() {
                    "counter" => &["", "_total", "_created"],
                    "gauge" | "untyped" => &[""],
                    "histogram" => &["_bucket", "_sum", "_count", "_created"],
                    "summary" => &["", "_sum", "_count", "_created"],
                    _ => &[""],
                };
                if !allowed.iter().any(|sfx| s.name == format!("{}{}", fam, sfx)) {
                    return Err(format!("sample {:?} does not belong to the family {:?} of type {} announced before it", s.name, fam, ty));
                }
                if ty == "histogram" && s.name.ends_with("_bucket") && !s.labels.iter().any(|(k, _)| k == "le") {
                    return Err(format!("bucket sample {:?} without an `le` label", s.name));
                }
                let mut keys: Vec<&String> = s.labels.iter().map(|(k, _)| k).collect();
                keys.sort();
                let before = keys.len();
                keys.dedup();
                if keys.len() != before {
                    return Err(format!("sample {:?} repeats a label name", s.name));
                }
            }
            Line::Blank => {}
        }
    }
    Ok(lines)
}

// shared helpers live in the vreplay crate

"""Engine E1: run Kani proof harnesses of a harness crate (/verif/kani/<group>) against /repo.

The harness crates depend on /repo's crates by path, so every run recompiles the current working
tree. A failed harness is re-run with concrete playback, the solver's values are written to a replay
file and the same harness function is executed natively (repository toolchain, dev and release)."""
import os, re, shutil, subprocess, time, json
from common import *

TOOLCHAIN_NATIVE = "1.74.0"
MEM_KB = 30_000_000


class H:
    def __init__(self, name, desc, bounds, timeout=240, tier="quick", known_key=None, functions=(), expect_fail_checks=None):
        self.name, self.desc, self.bounds, self.timeout, self.tier = name, desc, bounds, timeout, tier
        self.known_key = known_key
        self.functions = list(functions)
        # substrings of failed-check descriptions that constitute the known finding
        self.expect_fail_checks = expect_fail_checks


def ensure_vendor():
    """the directory source is shared and read-only once built: (re)build it only when /repo/Cargo.lock changed, under a lock"""
    import fcntl
    v = os.path.join(BUILD, "vendor")
    want = sha_of(os.path.join(REPO, "Cargo.lock"))
    stamp = os.path.join(BUILD, "vendor.stamp")
    os.makedirs(BUILD, exist_ok=True)
    with open(os.path.join(BUILD, "vendor.lock"), "w") as lk:
        fcntl.flock(lk, fcntl.LOCK_EX)
        if os.path.isdir(v) and os.path.exists(stamp) and open(stamp).read().strip() == want and os.path.exists(os.path.join(BUILD, "cargo-config.toml")):
            return
        r = subprocess.run(["python3", os.path.join(VERIF, "tools/mkvendor.py"), os.path.join(REPO, "Cargo.lock"), v],
                           capture_output=True, text=True)
        if r.returncode != 0:
            raise RuntimeError("vendor setup failed: " + r.stderr[-2000:])
        open(os.path.join(BUILD, "cargo-config.toml"), "w").write(
            '[source.crates-io]\nreplace-with = "vendored"\n[source.vendored]\ndirectory = "%s"\n[net]\noffline = true\n' % v)
        open(stamp, "w").write(want)


def crate_dir(group):
    return os.path.join(WORK, "kani", group)


def sync_tree(src, dst):
    """mirror src into dst keeping mtimes (so cargo's fingerprints stay valid); files that disappeared are removed"""
    keep = set()
    for root, dirs, files in os.walk(src):
        dirs[:] = [d for d in dirs if d not in ("target",)]
        rel = os.path.relpath(root, src)
        os.makedirs(os.path.join(dst, rel), exist_ok=True)
        for f in files:
            if f == "Cargo.lock":
                continue
            sp, dp = os.path.join(root, f), os.path.normpath(os.path.join(dst, rel, f))
            keep.add(dp)
            if not os.path.exists(dp) or os.path.getmtime(dp) != os.path.getmtime(sp) or os.path.getsize(dp) != os.path.getsize(sp):
                shutil.copy2(sp, dp)
    for root, dirs, files in os.walk(dst):
        for f in files:
            dp = os.path.normpath(os.path.join(root, f))
            if dp not in keep and f != "Cargo.lock":
                os.remove(dp)


def prep(group):
    """private copy of the harness crate (and the two helper crates it depends on by relative path) for this property"""
    ensure_vendor()
    os.makedirs(LOGS, exist_ok=True)
    for g in ("nd", "dbl", group):
        sync_tree(os.path.join(VERIF, "kani", g), os.path.join(WORK, "kani", g))
    shutil.copy(os.path.join(REPO, "Cargo.lock"), os.path.join(crate_dir(group), "Cargo.lock"))


def env_for(hooks):
    e = dict(os.environ)
    e["CARGO_NET_OFFLINE"] = "true"
    if hooks:
        e["RUSTFLAGS"] = (e.get("RUSTFLAGS", "") + f" --cfg {GUARD}").strip()
    e.pop("RUSTUP_TOOLCHAIN", None)
    return e


def parse_terse(txt):
    """-> {harness: dict(status, failed=[...], cover=(k,n), time)}"""
    res = {}
    thread_h = {}
    cur = None
    blocks = {}
    for line in txt.splitlines():
        m = re.match(r"Thread (\d+): Checking harness (\S+?)\.\.\.", line)
        if m:
            thread_h[m.group(1)] = m.group(2)
            continue
        m = re.match(r"Thread (\d+): ?$", line)
        if m:
            cur = thread_h.get(m.group(1))
            blocks.setdefault(cur, [])
            continue
        if cur is not None:
            blocks[cur].append(line)
            if line.startswith("Verification Time:"):
                cur = None
    for h, lines in blocks.items():
        b = "\n".join(lines)
        d = {"failed": [], "cover": None, "time": 0.0, "raw": b[-1500:]}
        if "VERIFICATION:- SUCCESSFUL" in b:
            d["status"] = "pass"
        elif "VERIFICATION:- FAILED" in b:
            d["status"] = "fail"
        else:
            d["status"] = "error"
        for m in re.finditer(r"Failed Checks: (.*)", b):
            d["failed"].append(m.group(1).strip())
        m = re.search(r"\*\* (\d+) of (\d+) cover properties satisfied", b)
        if m:
            d["cover"] = (int(m.group(1)), int(m.group(2)))
        m = re.search(r"Verification Time: ([\d.]+)s", b)
        if m:
            d["time"] = float(m.group(1))
        if "out of memory" in b or "timed out" in b.lower() or "Status: ERROR" in b:
            d["status"] = "error"
        res[h.split("::")[-1]] = d
    return res


ENGINE_FAIL_PAT = ("unwinding assertion", "is not currently supported", "unsupported", "recursion unwinding")


def run_group(group, harnesses, tier, hooks=False, stubbing=False, jobs=None, extra_args=()):
    """Run the harnesses of one group; returns list[Obligation]."""
    hs = [h for h in harnesses if tier == "thorough" or h.tier == "quick"]
    if os.environ.get("VERIF_KANI_ONLY"):          # development aid: a subset of the harnesses
        hs = [h for h in hs if h.name in os.environ["VERIF_KANI_ONLY"].split(",")]
    if not hs:
        return []
    prep(group)
    jobs = jobs or min(NCPU, max(2, len(hs)))
    if os.environ.get("VERIF_KANI_JOBS"):
        jobs = int(os.environ["VERIF_KANI_JOBS"])
    tmax = max(h.timeout for h in hs)
    tgt = os.path.join(WORK, f"kani-target-{group}")
    logp = os.path.join(LOGS, f"kani-{group}-{tier}-{os.getpid()}.log")
    cmd = ["cargo", "kani", "--lib", "--target-dir", tgt, "-j", str(jobs), "--output-format", "terse",
           "-Z", "unstable-options", "--harness-timeout", f"{tmax}s", "--exact"]
    if stubbing:
        cmd += ["-Z", "stubbing"]
    # CBMC's float NaN/overflow checks have no Rust counterpart (no panic); Rust's own integer-overflow
    # panics are explicit MIR assertions (dev profile) and stay checked.
    cmd += ["--no-overflow-checks"]
    cmd += list(extra_args)
    for h in hs:
        cmd += ["--harness", f"{group_mod(h)}"]
    t0 = time.time()
    with open(logp, "w") as lf:
        p = subprocess.run(["bash", "-c", f"ulimit -v {MEM_KB}; exec \"$@\"", "x"] + cmd, cwd=crate_dir(group),
                           stdout=lf, stderr=subprocess.STDOUT, env=env_for(hooks),
                           timeout=tmax * (1 + len(hs) // jobs) + 900)
    txt = open(logp, errors="replace").read()
    wall = time.time() - t0
    res = parse_terse(txt)
    out = []
    if "error: could not compile" in txt or "error[E" in txt:
        for h in hs:
            o = Obligation(h.name, "kani", h.desc, h.bounds)
            o.status, o.detail = "error", "harness crate failed to compile against /repo: " + \
                "; ".join(re.findall(r"error(?:\[E\d+\])?: .*", txt)[:3])
            out.append(o)
        return out
    need_replay = []
    for h in hs:
        o = Obligation(h.name, "kani", h.desc, h.bounds)
        o.functions = h.functions
        r = res.get(h.name)
        if r is None:
            o.status, o.detail = "error", f"no result in Kani output ({logp})"
            out.append(o)
            continue
        o.solver_s = r["time"]
        o.queries = 1
        if r["cover"]:
            o.vacuity = f"{r['cover'][0]} of {r['cover'][1]} cover properties satisfied"
        o.failed_checks = r["failed"]
        if r["status"] == "pass":
            if r["cover"] and r["cover"][0] < r["cover"][1]:
                o.status, o.detail = "error", "vacuity witness unsatisfied: " + o.vacuity
            else:
                o.status = "pass"
        elif r["status"] == "fail":
            eng = [f for f in r["failed"] if any(p in f for p in ENGINE_FAIL_PAT)]
            prop = [f for f in r["failed"] if f not in eng]
            if eng and not prop:
                o.status, o.detail = "error", "bound too small / unsupported construct: " + "; ".join(eng)
            elif not prop:
                o.status, o.detail = "error", "FAILED without a failed-check line: " + r["raw"][-300:]
            else:
                o.status, o.detail = "violation", "failed checks: " + "; ".join(prop)
                need_replay.append((h, o))
        else:
            o.status, o.detail = "error", "timeout / out of memory / solver error: " + r["raw"][-300:]
        out.append(o)
    for h, o in need_replay:
        replay_failure(group, h, o, hooks, stubbing, extra_args)
        if o.status == "violation" and h.known_key:
            exp = h.expect_fail_checks
            prop = [f for f in o.failed_checks if not any(p in f for p in ENGINE_FAIL_PAT)]
            if exp is None or all(any(e in f for e in exp) for f in prop):
                o.status, o.known_key = "known", h.known_key
    log(f"[kani:{group}] {len(hs)} harnesses in {wall:.0f}s: " +
        ", ".join(f"{o.name}={o.status}" for o in out))
    return out


def group_mod(h):
    # harness `cNN_xyz` lives in module `cNN` of its group crate
    return h.name.split("_")[0] + "::" + h.name


def parse_playback(txt):
    """-> list of (check description, test name, [hex strings])"""
    tests = []
    for m in re.finditer(r"/// Check for `(\w+)`: \"(.*?)\"\s*\n\s*\n?#\[test\]\nfn (\w+)\(\) \{\n(.*?)\n\s*kani::concrete_playback_run", txt, re.S):
        kind, desc, name, body = m.groups()
        vals = []
        for vm in re.finditer(r"vec!\[([\d, ]*)\],", body):
            nums = [int(x) for x in vm.group(1).replace(" ", "").split(",") if x]
            vals.append("".join(f"{x:02x}" for x in nums))
        tests.append((kind, desc.strip('"'), name, vals))
    return tests


_replay_built = {}


def build_replay(group, hooks):
    if group in _replay_built:
        return _replay_built[group]
    prep(group)
    bins = {}
    for prof in ("dev", "release"):
        tgt = os.path.join(WORK, f"replay-{group}")
        cmd = ["cargo", f"+{TOOLCHAIN_NATIVE}", "build", "--offline", "--target-dir", tgt, "--bin", "replay"]
        if prof == "release":
            cmd.append("--release")
        r = subprocess.run(cmd, cwd=crate_dir(group), capture_output=True, text=True, env=env_for(hooks))
        if r.returncode != 0:
            log(r.stderr[-3000:])
            bins[prof] = None
        else:
            bins[prof] = os.path.join(tgt, "debug" if prof == "dev" else "release", "replay")
    _replay_built[group] = bins
    return bins


def run_replay_file(group, harness, vals_path, hooks):
    bins = build_replay(group, hooks)
    results = {}
    for prof, b in bins.items():
        if b is None:
            results[prof] = "build-failed"
            continue
        try:
            r = subprocess.run([b, harness, vals_path], capture_output=True, text=True, timeout=120)
            results[prof] = {1: "reproduced", 0: "not-reproduced", 4: "assumption-violated"}.get(r.returncode, f"rc={r.returncode}") + \
                ": " + (r.stdout.strip().splitlines() or [""])[-1][:300]
        except subprocess.TimeoutExpired:
            results[prof] = "timeout"
    return results


def replay_failure(group, h, o, hooks, stubbing, extra_args):
    """Re-run one failed harness with concrete playback, store replay, run it natively."""
    tgt = os.path.join(WORK, f"kani-target-{group}")
    logp = os.path.join(LOGS, f"kani-{group}-{h.name}-playback.log")
    cmd = ["cargo", "kani", "--lib", "--target-dir", tgt, "--harness", group_mod(h), "--exact", "-Z", "concrete-playback",
           "--concrete-playback=print", "-Z", "unstable-options", "--harness-timeout", f"{h.timeout * 2}s"]
    if stubbing:
        cmd += ["-Z", "stubbing"]
    cmd += ["--no-overflow-checks"]
    cmd += list(extra_args)
    with open(logp, "w") as lf:
        subprocess.run(["bash", "-c", f"ulimit -v {MEM_KB}; exec \"$@\"", "x"] + cmd, cwd=crate_dir(group),
                       stdout=lf, stderr=subprocess.STDOUT, env=env_for(hooks))
    tests = parse_playback(open(logp, errors="replace").read())
    cands = [t for t in tests if t[0] != "cover"]
    pid = h.name.split("_")[0].upper()
    rdir = os.path.join(REPLAYS, pid)
    os.makedirs(rdir, exist_ok=True)
    if not cands:
        # Kani printed no test for the failed assertion (it does that for harnesses without symbolic inputs, and sometimes when a
        # cover test was generated instead). The native confirmation then runs the very same harness function natively: first on
        # the values of any cover test, then on the empty value file, then on random inputs (the solver has already decided that a
        # violating input exists; the native runs only have to exhibit one).
        tries = [(f"cover test values", t[3]) for t in tests] + [("no symbolic inputs", [])]
        for what, vals in tries:
            vp = os.path.join(rdir, f"{h.name}.vals")
            with open(vp, "w") as f:
                f.write(f"# harness={h.name} group={group} ({what})\n# replay: /verif/check {pid} --replay {vp}\n")
                f.write("\n".join(vals) + ("\n" if vals else ""))
            rr = run_replay_file(group, h.name, vp, hooks)
            o.sample = {"harness": h.name, "failed_check": "; ".join(o.failed_checks)[:300], "counterexample_values_hex": vals[:24], "native_replay": rr}
            if any(v.startswith("reproduced") for v in rr.values()):
                o.replay, o.reproduced = vp, True
                o.detail += f" | native replay ({what}): {rr}"
                return
        bins = build_replay(group, hooks)
        rnd = {}
        for prof, b in bins.items():
            if b is None:
                continue
            try:
                r = subprocess.run([b, h.name, "--random", "20000", "1"], capture_output=True, text=True, timeout=300)
                rnd[prof] = (r.returncode, (r.stdout.strip().splitlines() or [""])[-1][:300])
            except subprocess.TimeoutExpired:
                rnd[prof] = (None, "timeout")
        o.sample["native_random_runs"] = rnd
        if any(rc == 1 for rc, _ in rnd.values()):
            vp = os.path.join(rdir, f"{h.name}.random")
            open(vp, "w").write(f"# harness={h.name} group={group}: reproduce with `replay {h.name} --random 20000 1`\n")
            o.replay, o.reproduced = vp, True
            o.detail += f" | native confirmation by random inputs of the same harness: {rnd}"
            return
        o.status = "error"
        o.reproduced = False
        o.detail += " | no concrete playback produced and the native runs do not fail (non-reproducible class of failure, e.g. a pointer check)"
        return
    best = None
    for kind, desc, name, vals in cands:
        vp = os.path.join(rdir, f"{h.name}.{len(vals)}.vals")
        vp = os.path.join(rdir, f"{h.name}.vals")
        with open(vp, "w") as f:
            f.write(f"# harness={h.name} group={group} check={desc}\n# replay: /verif/check {pid} --replay {vp}\n")
            f.write("\n".join(vals) + "\n")
        rr = run_replay_file(group, h.name, vp, hooks)
        o.sample = {"harness": h.name, "failed_check": desc, "counterexample_values_hex": vals[:24], "native_replay": rr}
        if any(v.startswith("reproduced") for v in rr.values()):
            best = (vp, rr, desc)
            break
    if best:
        o.replay, o.reproduced = best[0], True
        o.detail += f" | native replay: {best[1]}"
    else:
        o.status = "error"
        o.reproduced = False
        o.detail += " | counterexample did NOT reproduce natively — encoding/stub problem, not reported as violation"

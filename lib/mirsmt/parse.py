"""Parser for rustc's `-Zunpretty=mir` text: builds CFGs (locals, statements, terminators) per body.

Types are kept as strings (only bracket-matched); places, operands and rvalues are parsed into small
tuples. Anything the parser does not understand is kept as ('raw', text) so that the executor can
refuse it explicitly (never silently)."""
import re, os

BINOPS = {"Add", "Sub", "Mul", "Div", "Rem", "BitXor", "BitAnd", "BitOr", "Shl", "Shr", "Eq", "Lt", "Le", "Ne",
          "Ge", "Gt", "Cmp", "Offset", "AddWithOverflow", "SubWithOverflow", "MulWithOverflow", "AddUnchecked",
          "SubUnchecked", "MulUnchecked", "ShlUnchecked", "ShrUnchecked"}
UNOPS = {"Not", "Neg", "PtrMetadata"}

OPEN = {"(": ")", "[": "]", "{": "}", "<": ">"}
CLOSE = {")", "]", "}", ">"}


def char_lit_end(s, i):
    """s[i] == "'" right after `const `: index of the closing quote of a char literal, or None"""
    n = len(s)
    if i + 2 < n and s[i + 1] != "\\" and s[i + 2] == "'":
        return i + 2
    if i + 1 < n and s[i + 1] == "\\":
        j = s.find("'", i + 3) if (i + 2 < n and s[i + 2] == "'") else s.find("'", i + 2)
        return j if j != -1 else None
    return None


def match_close(s, i):
    """s[i] is an opening bracket; return index of its matching close. '<' '>' are treated as brackets
    except in '->' and '=>' and comparison-free MIR text; string literals are skipped."""
    stack = []
    n = len(s)
    while i < n:
        c = s[i]
        if c == '"':
            i += 1
            while i < n and s[i] != '"':
                if s[i] == "\\":
                    i += 1
                i += 1
        elif c == "'" and s[max(0, i - 6):i] == "const " and char_lit_end(s, i) is not None:
            i = char_lit_end(s, i)
        elif c in OPEN:
            if c == "<" and i + 1 < n and s[i + 1] in "= ":
                pass
            else:
                stack.append(c)
        elif c in CLOSE:
            if c == ">" and i > 0 and s[i - 1] in "-=":
                pass
            else:
                if not stack:
                    raise ValueError("unbalanced: " + s)
                o = stack.pop()
                if OPEN[o] != c:
                    # tolerate '<'/'>' mismatches from things like `a < b` (do not occur in MIR dumps)
                    while o == "<" and stack and OPEN[o] != c:
                        o = stack.pop()
                    if OPEN[o] != c:
                        raise ValueError("mismatch in: " + s)
                if not stack:
                    return i
        i += 1
    raise ValueError("no close: " + s)


def split_top(s, sep=","):
    """split on top-level separators"""
    out, depth, cur, i, n = [], 0, [], 0, len(s)
    while i < n:
        c = s[i]
        if c == '"':
            j = i + 1
            while j < n and s[j] != '"':
                if s[j] == "\\":
                    j += 1
                j += 1
            cur.append(s[i:j + 1])
            i = j + 1
            continue
        if c == "'" and s[max(0, i - 6):i] == "const ":
            j = char_lit_end(s, i)
            if j is not None:
                cur.append(s[i:j + 1])
                i = j + 1
                continue
        if c in OPEN and not (c == "<" and i + 1 < n and s[i + 1] in "= "):
            depth += 1
        elif c in CLOSE and not (c == ">" and i > 0 and s[i - 1] in "-="):
            depth -= 1
        if depth == 0 and s.startswith(sep, i):
            out.append("".join(cur).strip())
            cur = []
            i += len(sep)
            continue
        cur.append(c)
        i += 1
    last = "".join(cur).strip()
    if last or out:
        out.append(last)
    return out


class Body:
    def __init__(self, name, kind):
        self.name = name          # full header name, e.g. 'bucket::<impl at ...>::push'
        self.kind = kind          # 'fn' | 'const' | 'static'
        self.args = []            # [(local, type)]
        self.ret = None
        self.locals = {}          # n -> type string
        self.debug = {}           # n -> source name
        self.blocks = {}          # n -> (stmts, term)
        self.cleanup = set()
        self.src = None           # (start_line, end_line) in the dump
        self.const_value = None   # for `const X: T = const V;`

    def __repr__(self):
        return f"<Body {self.name}>"


# ---------------------------------------------------------------- places / operands / rvalues
def parse_place(s):
    s = s.strip()
    p, i = _place(s, 0)
    if s[i:].strip():
        raise ValueError(f"trailing in place: {s!r} at {i}")
    return p


def _place(s, i):
    n = len(s)
    while i < n and s[i] == " ":
        i += 1
    if s[i] == "_":
        j = i + 1
        while j < n and s[j].isdigit():
            j += 1
        base = ("local", int(s[i + 1:j]))
        i = j
    elif s[i] == "(":
        j = match_close(s, i)
        inner = s[i + 1:j].strip()
        if inner.startswith("*"):
            sub = parse_place(inner[1:])
            base = ("deref", sub)
        else:
            # (place.N: TYPE)  or (place as Variant)
            sub, k = _place(inner, 0)
            rest = inner[k:]
            if rest.startswith("."):
                m = re.match(r"\.(\d+): (.*)$", rest, re.S)
                if not m:
                    raise ValueError("field: " + inner)
                base = ("field", sub, int(m.group(1)), m.group(2).strip())
            elif rest.startswith(" as "):
                base = ("downcast", sub, rest[4:].strip())
            else:
                raise ValueError("paren place: " + inner)
        i = j + 1
    else:
        raise ValueError(f"place: {s!r} at {i}")
    # index / subslice suffixes
    while i < n and s[i] == "[":
        j = match_close(s, i)
        idx = s[i + 1:j].strip()
        if idx.startswith("_"):
            base = ("index", base, ("local", int(idx[1:])))
        else:
            m = re.match(r"(-?\d+) of (\d+)$", idx)
            if m:
                base = ("constindex", base, int(m.group(1)), int(m.group(2)))
            else:
                base = ("subslice", base, idx)
        i = j + 1
    return base, i


def parse_operand(s):
    s = s.strip()
    if s.startswith("no_retag "):
        s = s[9:].strip()
    if s.startswith("copy "):
        return ("copy", parse_place(s[5:]))
    if s.startswith("move "):
        return ("move", parse_place(s[5:]))
    if s.startswith("const "):
        return ("const", s[6:].strip())
    if re.match(r"^[A-Za-z_<]", s) and not s.startswith("_"):
        return ("const", s)      # bare fn item / path constant
    raise ValueError("operand: " + s)


def _is_operand(s):
    return s.startswith(("copy ", "move ", "const "))


def parse_rvalue(s):
    s = s.strip()
    if s.startswith("no_retag "):
        s = s[9:].strip()
    # cast:  OPERAND as TYPE (Kind)
    if _is_operand(s):
        m = re.match(r"^(.*?) as (.*) \((\w+(?:\(.*\))?)\)$", s, re.S)
        if m and not s.startswith("const ") or (m and s.startswith("const ") and " as " in s and s.endswith(")")
                                                 and re.search(r"\((IntToInt|IntToFloat|FloatToInt|FloatToFloat|PtrToPtr|Transmute|PointerCoercion.*|PointerExposeProvenance|PointerWithExposedProvenance|FnPtrToPtr)\)$", s)):
            try:
                return ("cast", parse_operand(m.group(1)), m.group(2).strip(), m.group(3))
            except ValueError:
                pass
        return ("use", parse_operand(s))
    if s.startswith("&raw const "):
        return ("rawptr", "const", parse_place(s[11:]))
    if s.startswith("&raw mut "):
        return ("rawptr", "mut", parse_place(s[9:]))
    if s.startswith("&fake shallow "):
        return ("ref", "fake", parse_place(s[14:]))
    if s.startswith("&mut "):
        return ("ref", "mut", parse_place(s[5:]))
    if s.startswith("&/*tls*/ "):
        return ("tlsref", s[9:].strip())
    if s.startswith("&"):
        return ("ref", "shared", parse_place(s[1:]))
    if s.startswith("deref_copy "):
        return ("use", ("copy", parse_place(s[11:])))
    if s == "()":
        return ("tuple", [])
    m = re.match(r"^(\w+)\((.*)\)$", s, re.S)
    if m:
        name, inner = m.group(1), m.group(2)
        if name in BINOPS:
            a, b = split_top(inner)
            return ("binop", name, parse_operand(a), parse_operand(b))
        if name in UNOPS:
            return ("unop", name, parse_operand(inner))
        if name == "discriminant":
            return ("discriminant", parse_place(inner))
        if name == "Len":
            return ("len", parse_place(inner))
        if name in ("SizeOf", "AlignOf", "UbChecks", "ContractChecks", "OffsetOf"):
            return ("nullop", name, inner)
        if name == "ShallowInitBox":
            a, t = split_top(inner)
            return ("shallow_init_box", parse_operand(a), t)
    if s.startswith("("):
        j = match_close(s, 0)
        if j == len(s) - 1:
            return ("tuple", [parse_operand(x) for x in split_top(s[1:-1]) if x])
    if s.startswith("["):
        j = match_close(s, 0)
        if j == len(s) - 1:
            inner = s[1:-1]
            parts = split_top(inner, ";")
            if len(parts) == 2:
                return ("repeat", parse_operand(parts[0]), parts[1].strip())
            return ("array", [parse_operand(x) for x in split_top(inner) if x])
    if s.startswith("{closure@") or s.startswith("{coroutine@") or s.startswith("{async "):
        j = match_close(s, 0)
        head = s[:j + 1]
        rest = s[j + 1:].strip()
        caps = []
        if rest.startswith("{"):
            for f in split_top(rest[1:-1]):
                if f:
                    k, v = f.split(":", 1)
                    caps.append((k.strip(), parse_operand(v)))
        elif rest.startswith("("):
            caps = [(str(i), parse_operand(x)) for i, x in enumerate(split_top(rest[1:-1])) if x]
        return ("closure", head, caps)
    # ADT aggregate:  Path::<..>::Variant(ops) | Path { f: op } | Path (unit variant / unit struct)
    if s.endswith("}"):
        i = s.rfind("{")
        # find the '{' that opens the final top-level group
        depth = 0
        k = len(s) - 1
        while k >= 0:
            if s[k] == "}":
                depth += 1
            elif s[k] == "{":
                depth -= 1
                if depth == 0:
                    break
            k -= 1
        path = s[:k].strip()
        fields = []
        for f in split_top(s[k + 1:-1]):
            if f:
                name, v = f.split(":", 1)
                fields.append((name.strip(), parse_operand(v)))
        return ("adt", path, fields, "struct")
    if s.endswith(")"):
        depth = 0
        k = len(s) - 1
        while k >= 0:
            if s[k] == ")":
                depth += 1
            elif s[k] == "(":
                depth -= 1
                if depth == 0:
                    break
            k -= 1
        path = s[:k].strip()
        if path and not path.endswith(" as"):
            return ("adt", path, [(str(i), parse_operand(x)) for i, x in enumerate(split_top(s[k + 1:-1])) if x], "tuple")
    if re.match(r"^[\w:<>, &'\[\];\(\)\*\{\}@/\.\-#]+$", s):
        return ("adt", s, [], "unit")
    return ("raw", s)


def parse_targets(s):
    """'[return: bb1, unwind: bb2]' / 'unwind continue' etc. -> dict"""
    d = {}
    s = s.strip()
    if s.startswith("["):
        for part in split_top(s[1:-1]):
            if ":" in part:
                k, v = part.split(":", 1)
                d[k.strip()] = v.strip()
            else:
                k, _, v = part.partition(" ")
                d[k.strip()] = v.strip()
    elif s.startswith("bb"):
        d["return"] = s
    elif s.startswith("unwind"):
        d["unwind"] = s[6:].strip()
    return d


def bbnum(x):
    m = re.match(r"bb(\d+)$", x.strip())
    return int(m.group(1)) if m else None


def parse_terminator(s):
    s = s.strip().rstrip(";").strip()
    if s == "return":
        return ("return",)
    if s in ("resume", "unreachable") or s.startswith("terminate") or s.startswith("abort"):
        return (s.split("(")[0],)
    if s.startswith("goto -> "):
        return ("goto", bbnum(s[8:]))
    if s.startswith("switchInt("):
        j = match_close(s, 9)
        op = parse_operand(s[10:j])
        t = s[j + 1:].strip()
        assert t.startswith("-> ["), s
        tg = []
        other = None
        for part in split_top(t[4:-1]):
            k, v = part.split(":", 1)
            if k.strip() == "otherwise":
                other = bbnum(v)
            else:
                tg.append((int(k.strip()), bbnum(v)))
        return ("switch", op, tg, other)
    if s.startswith("drop("):
        j = match_close(s, 4)
        t = parse_targets(s[j + 1:].strip().lstrip("->").strip())
        return ("drop", parse_place(s[5:j]), bbnum(t.get("return", "")), t.get("unwind"))
    if s.startswith("assert("):
        j = match_close(s, 6)
        inner = split_top(s[7:j])
        cond = inner[0]
        neg = False
        if cond.startswith("!"):
            neg = True
            cond = cond[1:]
        t = parse_targets(s[j + 1:].strip().lstrip("->").strip())
        return ("assert", parse_operand(cond), neg, inner[1] if len(inner) > 1 else "", bbnum(t.get("success", "")))
    if s.startswith("falseEdge") or s.startswith("falseUnwind"):
        m = re.search(r"real: (bb\d+)", s)
        return ("goto", bbnum(m.group(1)))
    # call:  DEST = FUNC(ARGS) -> [...]   |  FUNC(ARGS) -> unwind ...   | DEST = FUNC(ARGS) -> unwind continue (diverging?)
    m = re.match(r"^(.*?) -> (\[.*\]|unwind .*|bb\d+)$", s, re.S)
    head, targets = (m.group(1), parse_targets(m.group(2))) if m else (s, {})
    dest = None
    # find ' = ' at top level that precedes the callee
    eq = _top_level_eq(head)
    if eq is not None:
        dest = parse_place(head[:eq])
        head = head[eq + 3:]
    head = head.strip()
    # args = last balanced (...) group
    assert head.endswith(")"), s
    depth = 0
    k = len(head) - 1
    while k >= 0:
        if head[k] == ")":
            depth += 1
        elif head[k] == "(":
            depth -= 1
            if depth == 0:
                break
        k -= 1
    func = head[:k].strip()
    args = [parse_operand(x) for x in split_top(head[k + 1:-1]) if x]
    if func.startswith(("move ", "copy ")):
        fn = ("indirect", parse_operand(func))
    else:
        fn = ("path", func)
    return ("call", dest, fn, args, bbnum(targets.get("return", "")) if targets.get("return") else None, targets.get("unwind"))


def _top_level_eq(s):
    depth = 0
    i = 0
    n = len(s)
    while i < n - 2:
        c = s[i]
        if c in OPEN and not (c == "<" and s[i + 1] in "= "):
            depth += 1
        elif c in CLOSE and not (c == ">" and i > 0 and s[i - 1] in "-="):
            depth -= 1
        elif depth == 0 and s[i:i + 3] == " = ":
            return i
        i += 1
    return None


def parse_statement(s):
    s = s.strip().rstrip(";").strip()
    if s == "nop" or s.startswith(("StorageLive(", "StorageDead(", "FakeRead(", "PlaceMention(", "AscribeUserType(",
                                   "Retag(", "Coverage::", "ConstEvalCounter", "BackwardIncompatibleDropHint")):
        return ("nop",)
    if s.startswith("discriminant(") and " = " in s:
        j = match_close(s, 12)
        return ("setdiscr", parse_place(s[13:j]), int(s[j + 1:].split("=")[1].strip()))
    if s.startswith("assume("):
        return ("assume", parse_operand(s[7:-1]))
    if s.startswith("Deinit("):
        return ("nop",)
    if s.startswith("copy_nonoverlapping("):
        return ("raw", s)
    eq = _top_level_eq(s)
    if eq is None:
        return ("raw", s)
    return ("assign", parse_place(s[:eq]), parse_rvalue(s[eq + 3:]))


# ---------------------------------------------------------------- whole file
HEAD = re.compile(r"^(fn|const|static(?: mut)?) (.*)$")


def parse_file(path):
    lines = open(path, errors="replace").read().split("\n")
    bodies = []
    i = 0
    n = len(lines)
    while i < n:
        l = lines[i]
        m = HEAD.match(l)
        if not m or l.startswith(" "):
            i += 1
            continue
        kind = m.group(1).split()[0]
        if l.rstrip().endswith(";") and kind == "const":
            # const NAME: T = const V;
            mm = re.match(r"^const (.*) = const (.*);$", l)
            if mm:
                parts = split_top(mm.group(1), ": ")
                b = Body(parts[0], "const")
                b.ret = ": ".join(parts[1:])
                b.const_value = mm.group(2)
                bodies.append(b)
            i += 1
            continue
        if not l.rstrip().endswith("{"):
            i += 1
            continue
        start = i
        j = i + 1
        while j < n and lines[j] != "}":
            j += 1
        try:
            b = parse_body(kind, m.group(2), lines[start + 1:j])
            b.src = (start + 1, j + 1)
            bodies.append(b)
        except Exception as e:  # keep going; the executor refuses unparsed bodies by name
            b = Body(m.group(2), kind)
            b.error = f"{type(e).__name__}: {e}"
            b.src = (start + 1, j + 1)
            bodies.append(b)
        i = j + 1
    return bodies


def parse_header(kind, h, b):
    h = h.rstrip()
    assert h.endswith("{")
    h = h[:-1].rstrip()
    if kind == "fn":
        # NAME(ARGS) -> RET      (NAME may contain parens/brackets: find the arg list = the balanced group before ' -> ' at top level... )
        # locate top-level '(' that starts the parameter list: first '(' at depth 0 whose preceding char is not ' ' from `impl at`.
        depth = 0
        k = 0
        pos = None
        while k < len(h):
            c = h[k]
            if c == "<" :
                # skip balanced <...>
                try:
                    k = match_close(h, k) + 1
                    continue
                except ValueError:
                    pass
            if c == "{":
                k = match_close(h, k) + 1
                continue
            if c == "(":
                pos = k
                break
            k += 1
        assert pos is not None, h
        end = match_close(h, pos)
        b.name = h[:pos]
        for a in split_top(h[pos + 1:end]):
            if a:
                nm, ty = a.split(":", 1)
                b.args.append((int(nm.strip()[1:]), ty.strip()))
        rest = h[end + 1:].strip()
        b.ret = rest[2:].strip() if rest.startswith("->") else "()"
    else:
        assert h.endswith(" ="), h
        parts = split_top(h[:-2], ": ")
        b.name = parts[0]
        b.ret = ": ".join(parts[1:])


def parse_body(kind, header, lines):
    b = Body(None, kind)
    parse_header(kind, header, b)
    cur = None
    stmts = []
    for l in lines:
        t = l.strip()
        if not t or t == "}" and cur is None:
            continue
        m = re.match(r"^bb(\d+)( \(cleanup\))?: \{$", t)
        if m:
            cur = int(m.group(1))
            stmts = []
            if m.group(2):
                b.cleanup.add(cur)
            continue
        if cur is None:
            m = re.match(r"^let (mut )?_(\d+): (.*);$", t, re.S)
            if m:
                b.locals[int(m.group(2))] = m.group(3)
                continue
            m = re.match(r"^debug (.*?) => (.*);$", t)
            if m:
                mm = re.match(r"^_(\d+)$", m.group(2))
                if mm:
                    b.debug[int(mm.group(1))] = m.group(1)
                continue
            continue
        if t == "}":
            term = stmts.pop() if stmts else ("raw", "")
            b.blocks[cur] = (stmts, term)
            cur = None
            continue
        stmts.append(t)
    # second pass: parse statements/terminators (skip cleanup blocks: unwinding is outside the claim)
    for bb, (ss, term) in list(b.blocks.items()):
        try:
            b.blocks[bb] = ([parse_statement(x) for x in ss], parse_terminator(term))
        except Exception:
            if bb in b.cleanup:
                b.blocks[bb] = ([], ("cleanup",))
            else:
                raise
    for n_, ty in b.args:
        b.locals.setdefault(n_, ty)
    return b


if __name__ == "__main__":
    import sys, collections
    for p in sys.argv[1:]:
        bs = parse_file(p)
        bad = [b for b in bs if getattr(b, "error", None)]
        raw = collections.Counter()
        for b in bs:
            for bb, (ss, t) in b.blocks.items():
                for s in ss:
                    if s[0] == "raw":
                        raw[s[1][:60]] += 1
                    if s[0] == "assign" and s[2][0] == "raw":
                        raw["RV " + s[2][1][:80]] += 1
        print(p, len(bs), "bodies,", len(bad), "unparsed")
        for b in bad[:20]:
            print("  ERR", b.name[:100], b.error[:200])
        for k, v in raw.most_common(30):
            print("  RAW", v, k)

"""Models for the sharded registry (C06): std RwLock as a lock word with await semantics, hashbrown's raw-entry API
on a shard as reads/writes of per-key entry cells (0 = absent, else the storage object's id). Trusted: hashbrown is
a map for keys whose Eq and precomputed hash are coherent (C03 checks that for Key)."""
import re
import z3
from .sym import *

WRITER = 1 << 62


def shard_of(eng, ctx, v):
    if isinstance(v, Ptr) and v.root[0] in ("local", "static"):
        v = eng.load_ptr(ctx, v)
    if isinstance(v, Native) and v.kind in ("rguard", "wguard", "shardmap", "raw", "rawmut"):
        return v.data[0] if isinstance(v.data, tuple) else v.data
    if isinstance(v, Ptr) and v.root[0] == "obj":
        return v.root[1]
    raise Unsupported(f"not a shard handle: {v}")


def key_of(eng, ctx, k):
    if isinstance(k, Ptr) and k.root[0] in ("local", "static"):
        k = eng.load_ptr(ctx, k)
    if isinstance(k, Native) and k.kind == "key":
        return k.data
    raise Unsupported(f"abstract key expected, got {k}")


def m_lock_read(eng, ctx, f, path, args, dty):
    s = shard_of(eng, ctx, args[0])
    ctx.mem_rmw(s, (0,), 64, lambda x: x + 1, None, "Acquire", "rwlock_read", assume_of_old=lambda x: z3.ULT(x, bv(WRITER)))
    ctx.mark_site()
    return Enum(0, {0: Agg({0: Native("rguard", s)})}, "Result")


def m_lock_write(eng, ctx, f, path, args, dty):
    s = shard_of(eng, ctx, args[0])
    ctx.mem_rmw(s, (0,), 64, lambda x: bv(WRITER), None, "Acquire", "rwlock_write", assume_of_old=lambda x: x == 0)
    ctx.mark_site()
    return Enum(0, {0: Agg({0: Native("wguard", s)})}, "Result")


def m_payload(eng, ctx, f, path, args, dty):
    r = args[0]
    return r.v[0].f[0]


def release(eng, ctx, g):
    if g.kind == "rguard":
        ctx.mem_rmw(g.data, (0,), 64, lambda x: x - 1, None, "Release", "rwlock_read_unlock")
    else:
        ctx.mem_write(g.data, (0,), 64, bv(0), True, "Release", "rwlock_write_unlock")


def drop_handler(eng, ctx, f, v, ty):
    if isinstance(v, Native) and v.kind in ("rguard", "wguard"):
        release(eng, ctx, v)
    return None


def m_mem_drop(eng, ctx, f, path, args, dty):
    drop_handler(eng, ctx, f, args[0], None)
    return UNIT


def m_guard_deref(eng, ctx, f, path, args, dty):
    g = eng.load_ptr(ctx, args[0]) if isinstance(args[0], Ptr) else args[0]
    return Native("shardmap", (g.data, g.kind))


def m_raw_entry(eng, ctx, f, path, args, dty):
    m = args[0]
    return Native("rawmut" if path.endswith("raw_entry_mut") or "raw_entry_mut" in path else "raw", m.data)


def entry_read(eng, ctx, shard, kid, label):
    return ctx.mem_read(shard, (("e", kid),), "ptr", False, "NA", label)


def placed(eng):
    """are placement hashes modelled? (eng.reg_keys / reg_hash / reg_maphash set by the scenario)"""
    return getattr(eng, "reg_keys", None) is not None


def ph_read(eng, ctx, shard, kid):
    return ctx.mem_read(shard, (("ph", kid),), 64, False, "NA", "map_probe")


def place(eng, ctx, shard, kid, h):
    """an entry is (re)placed in the table under hash h"""
    if placed(eng):
        ctx.mem_write(shard, (("ph", kid),), 64, h, False, "NA", "map_place")


def maybe_grow(eng, ctx, shard, then):
    """An insertion may make the table grow; hashbrown then re-inserts every stored key under the hash its *own* hasher computes for
    it (`reg_maphash`). The solver chooses whether this insertion grows the table."""
    if not placed(eng):
        return then(ctx)
    g = eng.fresh("table_grows_at_this_insert", "bool")

    def grow(c):
        for k in eng.reg_keys:
            c.mem_write(shard, (("ph", k),), 64, eng.reg_maphash(k), False, "NA", "map_rehash")
        c.observe("table_grew", shard=shard)
        return then(c)
    return Fork([(g, grow), (z3.Not(g), then)])


def m_from_key(eng, ctx, f, path, args, dty):
    b = args[0]
    shard, gk = b.data
    kid = key_of(eng, ctx, args[2])
    p = entry_read(eng, ctx, shard, kid, "map_lookup")
    if placed(eng):
        # hashbrown probes by hash and then compares keys: the entry is found iff it is stored and was placed under the hash given
        ph = ph_read(eng, ctx, shard, kid)
        h = args[1]
        p = z3.If(ph == h, p, z3.IntVal(0))
    if b.kind == "rawmut":
        e = Native("entrymut", (shard, kid, p, gk))
        return Enum(z3.If(p != 0, bv(0), bv(1)), {0: Agg({0: e}), 1: Agg({0: e})}, "RawEntryMut")
    some = Enum(1, {1: Agg({0: Agg({0: Opaque("keyref"), 1: Ptr(("obj", p))})})}, "Option")
    return Fork([(p != 0, some), (p == 0, Enum(0, {}, "Option"))])


def m_from_hash(eng, ctx, f, path, args, dty):
    """RawEntryBuilder(Mut)::from_hash(hash, is_match): the first stored entry placed under `hash` whose key satisfies the closure"""
    if not placed(eng):
        raise Unsupported("from_hash needs the placement-hash model of the shard maps")
    b = args[0]
    shard, gk = b.data
    h, clo = args[1], args[2]

    def script(c):
        for k in eng.reg_keys:
            p = yield ("effect", lambda c_, k=k: entry_read(eng, c_, shard, k, "map_lookup"))
            ph = yield ("effect", lambda c_, k=k: ph_read(eng, c_, shard, k))
            cand = yield ("branch", z3.And(p != 0, ph == h))
            if not cand:
                continue
            cell = yield ("effect", lambda c_, k=k: __import__("mirsmt.models_coll", fromlist=["x"]).new_cell(c_, Native("key", k), "probekey"))
            r = yield ("callv", clo, [Ptr(("static", cell))])
            hit = yield ("branch", eng.as_bool(r))
            if hit:
                if b.kind == "rawmut":
                    return Enum(0, {0: Agg({0: Native("entrymut", (shard, k, p, gk))})}, "RawEntryMut")
                return Enum(1, {1: Agg({0: Agg({0: Opaque("keyref"), 1: Ptr(("obj", p))})})}, "Option")
        if b.kind == "rawmut":
            raise Unsupported("from_hash (mut) without a match: the vacant entry has no key")
        return Enum(0, {}, "Option")
    return Script(script)


def _entry(a):
    if isinstance(a, Enum):
        for v in a.v.values():
            if 0 in v.f and isinstance(v.f[0], Native):
                return v.f[0]
    if isinstance(a, Native):
        return a
    raise Unsupported(f"raw entry expected, got {a}")


def m_remove_entry(eng, ctx, f, path, args, dty):
    shard, kid, p, gk = _entry(args[0]).data
    if gk != "wguard":
        ctx.observe("remove_without_write_lock")
    ctx.mem_write(shard, (("e", kid),), "ptr", z3.IntVal(0), False, "NA", "map_remove")
    return Agg({0: Opaque("key"), 1: Ptr(("obj", p))})


def m_or_insert_with(eng, ctx, f, path, args, dty):
    shard, kid, p, gk = _entry(args[0]).data
    clo = args[1]

    def make(c):
        if gk != "wguard":
            c.observe("insert_without_write_lock")
        kv = run_closure(eng, c, clo, [])
        newp = kv.f[1]
        if not (isinstance(newp, Ptr) and newp.root[0] == "obj"):
            raise Unsupported(f"storage constructor returned {newp}")
        nid = newp.root[1]

        def ins(c2):
            c2.mem_write(shard, (("e", kid),), "ptr", z3.IntVal(nid) if isinstance(nid, int) else nid, False, "NA", "map_insert")
            if placed(eng):
                place(eng, c2, shard, kid, eng.reg_maphash(kid))       # or_insert_with hashes the key with the map's own hasher
            return Agg({0: Opaque("keyref"), 1: newp})
        return maybe_grow(eng, c, shard, ins)
    return Fork([(p != 0, Agg({0: Opaque("keyref"), 1: Ptr(("obj", p))})), (p == 0, make)])


def m_insert_entry(eng, ctx, f, path, args, dty):
    """RawEntryMut::insert(key, value) / RawVacantEntryMut::insert*(.., key, value): stores the value, overwriting
    whatever the map holds for that key now"""
    shard, kid, p, gk = _entry(args[0]).data
    newp = args[-1]
    nid = newp.root[1]
    if gk != "wguard":
        ctx.observe("insert_without_write_lock")
    hashed = path.split("::")[-1].startswith("insert_hashed")

    def ins(c):
        c.mem_write(shard, (("e", kid),), "ptr", z3.IntVal(nid) if isinstance(nid, int) else nid, False, "NA", "map_insert")
        if placed(eng):
            place(eng, c, shard, kid, args[1] if hashed else eng.reg_maphash(kid))      # insert_hashed_nocheck: under the hash given
        if hashed or "RawVacantEntryMut" in path:
            return Agg({0: Opaque("keyref"), 1: newp})
        return Native("entrymut", (shard, kid, z3.IntVal(nid) if isinstance(nid, int) else nid, gk))
    return maybe_grow(eng, ctx, shard, ins)


def m_occ_get(eng, ctx, f, path, args, dty):
    a = args[0]
    if isinstance(a, Ptr) and a.root[0] in ("local", "static"):
        a = eng.load_ptr(ctx, a)
    shard, kid, p, gk = _entry(a).data
    if path.endswith("into_key_value") or path.endswith("get_key_value"):
        return Agg({0: Opaque("keyref"), 1: Ptr(("obj", p))})
    return Ptr(("obj", p))


def m_remove(eng, ctx, f, path, args, dty):
    m = eng.load_ptr(ctx, args[0]) if isinstance(args[0], Ptr) else args[0]
    shard, gk = m.data
    kid = key_of(eng, ctx, args[1])
    p = entry_read(eng, ctx, shard, kid, "map_lookup")
    if placed(eng):
        # HashMap::remove(&key) hashes the key with the map's own hasher
        ph = ph_read(eng, ctx, shard, kid)
        p = z3.If(ph == eng.reg_maphash(kid), p, z3.IntVal(0))

    def rem(c):
        if gk != "wguard":
            c.observe("remove_without_write_lock")
        c.mem_write(shard, (("e", kid),), "ptr", z3.IntVal(0), False, "NA", "map_remove")
        return Enum(1, {1: Agg({0: Ptr(("obj", p))})}, "Option")
    return Fork([(p != 0, rem), (p == 0, Enum(0, {}, "Option"))])


def run_closure(eng, ctx, clo, args):
    """execute a (straight-line) closure body on ctx itself and return its value"""
    from .sym import Closure
    if not isinstance(clo, Closure):
        raise Unsupported(f"closure expected, got {clo}")
    b = eng.prog.closure_body(clo)
    if b is None:
        raise Unsupported(f"closure body {clo.span} not found")
    base = len(ctx.frames)
    first = clo
    if b.args and b.args[0][1].startswith("&"):
        tmp = 800000 + len(eng.events)
        ctx.frames[-1].locals[tmp] = clo
        first = Ptr(("local", ctx.frames[-1].fid, tmp))
    eng.push_frame(ctx, b, [first] + list(args), None)
    merging, eng.merging = eng.merging, False
    try:
        out = eng.run(ctx, until_depth=base)
    finally:
        eng.merging = merging
    if len(out) == 1 and out[0][0] == "leaf" and out[0][1].status == "done":
        return out[0][1].ret
    if len(out) == 1 and out[0][0] == "ctx" and out[0][1] is not ctx:
        raise Unsupported(f"closure {clo.span} is not straight-line")
    # a fork whose alternatives but one are infeasible still returns a context: keep running it
    while len(out) == 1 and out[0][0] == "ctx" and out[0][1] is ctx:
        merging, eng.merging = eng.merging, False
        try:
            out = eng.run(ctx, until_depth=base)
        finally:
            eng.merging = merging
    if len(out) != 1 or out[0][0] != "leaf" or out[0][1].status != "done":
        raise Unsupported(f"closure {clo.span} is not straight-line")
    return out[0][1].ret


def m_shards_deref(eng, ctx, f, path, args, dty):
    return eng.load_ptr(ctx, args[0])


def m_shard_pick(eng, ctx, f, path, args, dty):
    sh = args[0]
    if not (isinstance(sh, Native) and sh.kind == "shards"):
        raise Unsupported(f"get_unchecked on {sh}")
    ids = sh.data
    idx = args[1]
    o = z3.IntVal(ids[-1])
    for i in reversed(range(len(ids) - 1)):
        o = z3.If(idx == bv(i), z3.IntVal(ids[i]), o)
    return Ptr(("obj", o if len(ids) > 1 else ids[0]))


# ---- whole-map operations on a shard (visit_* / get_*_handles / retain_* / clear): the table is walked key by key; which keys are
# present is the shard's state (one branch per key)
def _shard_items(eng, c, shard):
    """generator (inside a model script): [(key id, value pointer)] of the entries present in the shard"""
    out = []
    for k in eng.reg_keys:
        v = yield ("effect", lambda c_, k=k: entry_read(eng, c_, shard, k, "map_iter"))
        here = yield ("branch", v != 0)
        if here:
            out.append((k, v))
    return out


def m_shard_iter(eng, ctx, f, path, args, dty):
    mp = args[0]
    if isinstance(mp, Ptr):
        mp = eng.load_ptr(ctx, mp)
    if not (isinstance(mp, Native) and mp.kind == "shardmap"):
        raise Unsupported(f"iteration over {mp}")
    shard = mp.data[0]

    def script(c):
        items = yield from _shard_items(eng, c, shard)
        cells = yield ("effect", lambda c_: [(_cell(c_, Native("key", k)), _cell(c_, Ptr(("obj", v)))) for k, v in items])
        return Native("liter", (tuple(Agg({0: Ptr(("static", a)), 1: Ptr(("static", b))}) for a, b in cells), 0))
    return Script(script)


_ncell = [0]


def _cell(c, v):
    _ncell[0] += 1
    name = f"regiter#{_ncell[0]}"
    c.statics[name] = v
    return name


def m_shard_retain(eng, ctx, f, path, args, dty):
    mp = args[0]
    if isinstance(mp, Ptr):
        mp = eng.load_ptr(ctx, mp)
    if not (isinstance(mp, Native) and mp.kind == "shardmap"):
        raise Unsupported(f"retain on {mp}")
    shard, gkind = mp.data
    clo = args[1]

    def script(c):
        items = yield from _shard_items(eng, c, shard)
        for k, v in items:
            cells = yield ("effect", lambda c_, k=k, v=v: (_cell(c_, Native("key", k)), _cell(c_, Ptr(("obj", v)))))
            r = yield ("callv", clo, [Ptr(("static", cells[0])), Ptr(("static", cells[1]))])
            keep = yield ("branch", eng.as_bool(r))
            if not keep:
                def rm(c_, k=k):
                    if gkind != "wguard":
                        c_.observe("remove_without_write_lock", shard=shard)
                    c_.mem_write(shard, (("e", k),), "ptr", z3.IntVal(0), False, "NA", "map_remove")
                yield ("effect", rm)
        return UNIT
    return Script(script)


def m_shard_clear(eng, ctx, f, path, args, dty):
    mp = args[0]
    if isinstance(mp, Ptr):
        mp = eng.load_ptr(ctx, mp)
    if not (isinstance(mp, Native) and mp.kind == "shardmap"):
        raise Unsupported(f"clear on {mp}")
    shard, gkind = mp.data
    if gkind != "wguard":
        ctx.observe("remove_without_write_lock", shard=shard)
    for k in eng.reg_keys:
        ctx.mem_write(shard, (("e", k),), "ptr", z3.IntVal(0), False, "NA", "map_remove")
    return UNIT


def m_shards_iter(eng, ctx, f, path, args, dty):
    sh = args[0]
    if isinstance(sh, Ptr):
        sh = eng.load_ptr(ctx, sh)
    if not (isinstance(sh, Native) and sh.kind == "shards"):
        raise Unsupported(f"iteration over {sh}")
    return Native("liter", (tuple(Ptr(("obj", i)) for i in sh.data), 0))


REG_MODELS = {
    r"hashbrown::(map::)?HashMap::iter$|^<&hashbrown::(map::)?HashMap as IntoIterator>::into_iter$": m_shard_iter,
    r"hashbrown::(map::)?HashMap::retain$": m_shard_retain,
    r"hashbrown::(map::)?HashMap::clear$": m_shard_clear,
    r"RwLock::read$": m_lock_read,
    r"RwLock::write$": m_lock_write,
    r"^Result::unwrap_or_else$": m_payload,
    r"RwLock(Read|Write)Guard as Deref(Mut)?>::deref(_mut)?$": m_guard_deref,
    r"hashbrown::raw_entry::raw_entry(_mut)?$": m_raw_entry,
    r"RawEntryBuilder(Mut)?::from_key_hashed_nocheck$": m_from_key,
    r"RawEntryBuilder(Mut)?::from_hash$": m_from_hash,
    r"RawEntryMut::or_insert_with$": m_or_insert_with,
    r"RawEntryMut::insert$|RawVacantEntryMut::insert(_hashed_nocheck)?$": m_insert_entry,
    r"RawOccupiedEntryMut::(get|get_mut|into_mut|into_key_value|get_key_value)$": m_occ_get,
    r"RawOccupiedEntryMut::remove_entry$|RawOccupiedEntryMut::remove$": m_remove_entry,
    r"hashbrown::HashMap::remove$|hashbrown::map::HashMap::remove$": m_remove,
    r"^std::mem::drop$|^core::mem::drop$": m_mem_drop,
    r"^<Vec as Deref>::deref$": m_shards_deref,
    r"slice::get_unchecked$": m_shard_pick,
    r"as Clone>::clone$": lambda eng, ctx, f, path, args, dty: (eng.load_ptr(ctx, args[0]) if isinstance(args[0], Ptr) else args[0]),
    "__drop__": drop_handler,
}

"""Callee models (the trusted base of engine E3): std / crossbeam / hashbrown functions that the MIR of
/repo calls but whose bodies are not part of the dump. Each model is a few lines and is named in the
evidence (`callees_modelled`). A callee without a model and without a body aborts the check."""
import re
import z3
from .sym import *
from .prog import strip_generics, base_name, norm_callee

ORDERS = ["Relaxed", "Release", "Acquire", "AcqRel", "SeqCst"]


def order_name(v):
    if isinstance(v, Enum) and isinstance(v.discr, int):
        return ORDERS[v.discr]
    return "SeqCst"


def atomic_loc(eng, ctx, p):
    """&Atomic<T> -> (obj, path)"""
    if not isinstance(p, Ptr):
        raise Unsupported(f"atomic op on {p}")
    if p.root[0] == "obj":
        return p.root[1], eng.norm_path(p.path)
    raise Unsupported(f"atomic op on a non-heap location {p} (thread-local atomics are not modelled)")


def atomic_sort(eng, path):
    m = re.search(r"Atomic::<(\w+)>", path)
    if m:
        t = m.group(1)
        return "bool" if t == "bool" else INT_W.get(t, 64)
    m = re.search(r"Atomic(Usize|U64|Isize|I64|Bool|U32|U8)", path)
    if m:
        return {"Bool": "bool", "U32": 32, "U8": 8}.get(m.group(1), 64)
    raise Unsupported(f"atomic type of {path}")


def _is_local(p):
    # atomics that live in a frame local or in a per-scenario static cell (sequential scenarios): plain loads and stores
    return isinstance(p, Ptr) and p.root[0] in ("local", "static")


def m_atomic_new(eng, ctx, f, path, args, dty):
    return args[0]


def m_atomic_load(eng, ctx, f, path, args, dty):
    if _is_local(args[0]):
        return eng.load_ptr(ctx, args[0])
    o, p = atomic_loc(eng, ctx, args[0])
    v = ctx.mem_read(o, p, atomic_sort(eng, path), True, order_name(args[1]), "load")
    ctx.mark_site()
    return v


def m_atomic_store(eng, ctx, f, path, args, dty):
    if _is_local(args[0]):
        eng.store_ptr(ctx, args[0], args[1])
        return UNIT
    o, p = atomic_loc(eng, ctx, args[0])
    s = atomic_sort(eng, path)
    ctx.mem_write(o, p, s, eng.to_scalar(args[1], s), True, order_name(args[2]), "store")
    ctx.mark_site()
    return UNIT


def _rmw(name, fn):
    def h(eng, ctx, f, path, args, dty):
        s = atomic_sort(eng, path)
        if _is_local(args[0]):
            old = eng.load_ptr(ctx, args[0])
            eng.store_ptr(ctx, args[0], fn(old, eng.to_scalar(args[1], s)))
            return old
        o, p = atomic_loc(eng, ctx, args[0])
        v = eng.to_scalar(args[1], s)
        r = ctx.mem_rmw(o, p, s, lambda old: fn(old, v), None, order_name(args[2]), name)
        ctx.mark_site()
        return r
    return h


def m_cas(eng, ctx, f, path, args, dty):
    o, p = atomic_loc(eng, ctx, args[0])
    s = atomic_sort(eng, path)
    cur = eng.to_scalar(args[1], s)
    new = eng.to_scalar(args[2], s)
    old = ctx.mem_rmw(o, p, s, lambda old: new, lambda old: old == cur, order_name(args[3]), "cas", forder=order_name(args[4]))
    ctx.mark_site()
    ok = old == cur
    return Fork([(ok, Enum(0, {0: Agg({0: old})}, "Result")), (z3.Not(ok), Enum(1, {1: Agg({0: old})}, "Result"))])


def m_fetch_update(eng, ctx, f, path, args, dty):
    """std: loop { cur = load; match f(cur) { Some(n) => CAS(cur, n) ... } } — modelled as one atomic RMW whose
    new value is f(old): equivalent under SC to the CAS loop that retries until it succeeds (a failed weak CAS has
    no effect). The closure is executed symbolically on the value read."""
    o, p = atomic_loc(eng, ctx, args[0])
    s = atomic_sort(eng, path)
    clo = args[3]
    old = eng.fresh("fu_old", s)
    # run the closure body on `old` in a sub-context (must be straight-line and return Some(new))
    b = eng.prog.closure_body(clo) if isinstance(clo, Closure) else None
    if b is None:
        raise Unsupported("fetch_update closure not found")
    c2 = Ctx(eng, ctx.tid)
    c2.pc = list(ctx.pc)
    c2.frames = [fr.clone() for fr in ctx.frames]
    c2.nfid = ctx.nfid
    tmp = 900000 + len(eng.events)
    c2.frames[-1].locals[tmp] = clo
    eng.push_frame(c2, b, [Ptr(("local", c2.frames[-1].fid, tmp)), old], None)
    out = eng.run(c2, until_depth=len(c2.frames) - 1)
    if len(out) != 1 or out[0][0] != "leaf" or out[0][1].status != "done":
        raise Unsupported("fetch_update closure is not straight-line")
    r = out[0][1].ret
    if not (isinstance(r, Enum) and r.discr == 1):
        raise Unsupported("fetch_update closure may return None: not modelled")
    newv = r.v[1].f[0]
    got = ctx.mem_rmw(o, p, s, lambda x: z3.substitute(newv, (old, x)), None, order_name(args[1]), "fetch_update")
    ctx.mark_site()
    return Enum(0, {0: Agg({0: got})}, "Result")


def m_unsafecell_get(eng, ctx, f, path, args, dty):
    return args[0]


def m_ptr_write(eng, ctx, f, path, args, dty):
    m = re.search(r"impl \*mut (.*)>::write", path)
    ty = m.group(1) if m else None
    before = ctx.last
    eng.store_ptr(ctx, args[0], args[1], ty)
    if ctx.last is not before:
        ctx.mark_site()
    return UNIT


def m_ptr_read(eng, ctx, f, path, args, dty):
    m = re.search(r"impl \*(?:mut|const) (.*)>::read", path)
    ty = m.group(1) if m else dty
    before = ctx.last
    r = eng.load_ptr(ctx, args[0], ty)
    if ctx.last is not before:
        ctx.mark_site()
    return r


def m_box_new(eng, ctx, f, path, args, dty):
    v = args[0]
    if z3.is_expr(v):
        sort = "bool" if z3.is_bool(v) else ("ptr" if z3.is_int(v) else v.size())
        oid = ctx.alloc("Box", {(): (sort, v)})
    elif isinstance(v, (FnItem, Opaque)) or (isinstance(v, Agg) and not v.f):
        oid = ctx.alloc("Box", {(): (64, bv(0))})      # zero-sized / opaque payload: only the identity of the box matters
    else:
        raise Unsupported(f"Box::new of {v}")
    return Ptr(("obj", oid))


def m_identity(eng, ctx, f, path, args, dty):
    return args[0]


def m_unit(eng, ctx, f, path, args, dty):
    return UNIT


def m_min(eng, ctx, f, path, args, dty):
    return z3.If(z3.ULE(args[0], args[1]), args[0], args[1])


def m_trailing_ones(eng, ctx, f, path, args, dty):
    x = args[0]
    w = x.size()
    r = z3.BitVecVal(w, 32)
    for i in reversed(range(w)):
        r = z3.If(z3.Extract(i, i, x) == 0, z3.BitVecVal(i, 32), r)
    return r


def _enum_of(eng, ctx, v):
    if isinstance(v, Ptr):
        v = eng.load_ptr(ctx, v)
    if not isinstance(v, Enum):
        raise Unsupported(f"expected an enum value, got {v}")
    return v


def _is_variant(k):
    def h(eng, ctx, f, path, args, dty):
        return eng.discr_is(_enum_of(eng, ctx, args[0]).discr, k)
    return h


def m_unwrap(some_idx):
    def h(eng, ctx, f, path, args, dty):
        if isinstance(args[0], Opaque):
            return Opaque("unwrap of " + args[0].what)       # a value the check does not depend on stays one
        e = _enum_of(eng, ctx, args[0])
        ok = eng.discr_is(e.discr, some_idx)
        payload = e.v.get(some_idx, Agg()).f.get(0, UNIT)
        return Fork([(ok, payload), (z3.Not(ok), Diverge("panic", f"{norm_callee(path)} on the other variant"))])
    return h


def m_unwrap_or(eng, ctx, f, path, args, dty):
    e = _enum_of(eng, ctx, args[0])
    ok = eng.discr_is(e.discr, 1)
    payload = e.v.get(1, Agg()).f.get(0, UNIT)
    return Fork([(ok, payload), (z3.Not(ok), args[1])])


def m_map_or(eng, ctx, f, path, args, dty):
    e = _enum_of(eng, ctx, args[0])
    is_some = eng.discr_is(e.discr, 1)
    payload = e.v.get(1, Agg()).f.get(0, UNIT)
    if isinstance(e.discr, int):
        return TailCall(args[2], [payload]) if e.discr == 1 else args[1]
    return Fork([(is_some, TailCall(args[2], [payload])), (z3.Not(is_some), args[1])])


def m_option_copied(eng, ctx, f, path, args, dty):
    e = _enum_of(eng, ctx, args[0])
    if 1 in e.v and 0 in e.v[1].f and isinstance(e.v[1].f[0], Ptr):
        inner = e.v[1].f[0]
        isn = eng.discr_is(e.discr, 1)
        if isinstance(e.discr, int) and e.discr == 0:
            return Enum(0, {}, "Option")
        return Fork([(isn, lambda c: Enum(1, {1: Agg({0: eng.load_ptr(c, inner)})}, "Option")), (z3.Not(isn), Enum(0, {}, "Option"))])
    return e


def _concrete_result(e, what):
    if not (isinstance(e, Enum) and isinstance(e.discr, int)):
        raise Unsupported(f"{what} on a Result whose variant is symbolic here: {e}")
    return e


def _payload(e, k):
    return e.v.get(k, Agg()).f.get(0, UNIT)


def _then_wrap(eng, ctx, clo, arg, wrap):
    """call `clo(arg)` (closure or fn item) and wrap the result"""
    if isinstance(clo, FnItem) and eng.prog.resolve(clo.path) is None:
        norm = norm_callee(clo.path)
        for pat, h in eng.models.items():
            if not pat.startswith("__") and re.search(pat, norm):
                eng.callees_modelled.add(norm)
                r = h(eng, ctx, None, clo.path, [arg], None)
                if not isinstance(r, (Fork, Script, Diverge, TailCall)):
                    return wrap(r)
    # the general case: the callee is real code (a closure or a function of the crate) and may fork
    from . import models_std

    def script(c):
        r = yield from models_std.call_fn(eng, c, clo, [arg])
        return wrap(r)
    return Script(script)


def m_res_map_err2(eng, ctx, f, path, args, dty):
    e = _concrete_result(_enum_of(eng, ctx, args[0]), "map_err")
    if e.discr == 0:
        return e
    return _then_wrap(eng, ctx, args[1], _payload(e, 1), lambda r: Enum(1, {1: Agg({0: r})}, "Result"))


def m_res_map(eng, ctx, f, path, args, dty):
    e = _concrete_result(_enum_of(eng, ctx, args[0]), "map")
    if e.discr == 1:
        return e
    return _then_wrap(eng, ctx, args[1], _payload(e, 0), lambda r: Enum(0, {0: Agg({0: r})}, "Result"))


def m_res_or_else(eng, ctx, f, path, args, dty):
    e = _concrete_result(_enum_of(eng, ctx, args[0]), "or_else")
    if e.discr == 0:
        return e
    return TailCall(args[1], [_payload(e, 1)])


def m_res_and_then(eng, ctx, f, path, args, dty):
    e = _concrete_result(_enum_of(eng, ctx, args[0]), "and_then")
    if e.discr == 1:
        return e
    return TailCall(args[1], [_payload(e, 0)])


def m_res_or(eng, ctx, f, path, args, dty):
    e = _concrete_result(_enum_of(eng, ctx, args[0]), "or")
    return e if e.discr == 0 else args[1]


def m_res_ok(eng, ctx, f, path, args, dty):
    e = _concrete_result(_enum_of(eng, ctx, args[0]), "ok")
    return Enum(1, {1: Agg({0: _payload(e, 0)})}, "Option") if e.discr == 0 else Enum(0, {}, "Option")


def m_res_branch(eng, ctx, f, path, args, dty):
    e = _concrete_result(_enum_of(eng, ctx, args[0]), "Try::branch")
    if e.discr == 0:
        return Enum(0, {0: Agg({0: _payload(e, 0)})}, "ControlFlow")
    return Enum(1, {1: Agg({0: Enum(1, {1: Agg({0: _payload(e, 1)})}, "Result")})}, "ControlFlow")


RESULT = {
    r"(^|::)Result::map_err$": m_res_map_err2,
    r"(^|::)Result::map$": m_res_map,
    r"(^|::)Result::or_else$": m_res_or_else,
    r"(^|::)Result::and_then$": m_res_and_then,
    r"(^|::)Result::or$": m_res_or,
    r"(^|::)Result::ok$": m_res_ok,
    r"^<Result as Try>::branch$": m_res_branch,
    r"^<Result as FromResidual>::from_residual$": m_identity,
}


# ---- generic Option / Result combinators (std contracts; one line each). A symbolic variant forks. ----

def _by_variant(eng, ctx, e, on):
    """on: {variant index: callable(ctx) -> model result}; the ctx passed is the one of the alternative being taken"""
    if isinstance(e.discr, int):
        return on[e.discr](ctx)
    return Fork([(eng.discr_is(e.discr, k), (lambda c, fn=fn: fn(c))) for k, fn in on.items()])


def _opt(e3ng, ctx, v):
    return _enum_of(e3ng, ctx, v)


def _some(x):
    return Enum(1, {1: Agg({0: x})}, "Option")


NONE = lambda c=None: Enum(0, {}, "Option")


def _ok(x):
    return Enum(0, {0: Agg({0: x})}, "Result")


def _err(x):
    return Enum(1, {1: Agg({0: x})}, "Result")


def call_and_wrap(eng, ctx, callee, args, wrap):
    """wrap(callee(args)): the callee is a closure or fn item that is either straight-line (may have effects) or pure (may branch)"""
    if isinstance(callee, Closure):
        def script(c):
            r = yield ("callv", callee, list(args))
            return wrap(r)
        return Script(script)
    return _then_wrap(eng, ctx, callee, args[0], wrap)


def m_opt_as_ref(eng, ctx, f, path, args, dty):
    p = args[0]
    if not isinstance(p, Ptr):
        raise Unsupported(f"Option::as_ref on {p}")
    e = _enum_of(eng, ctx, p)
    inner = Ptr(p.root, p.path + (("variant", "Some"), 0))
    return _by_variant(eng, ctx, e, {0: NONE, 1: lambda c: _some(inner)})


def m_opt_map(eng, ctx, f, path, args, dty):
    e = _enum_of(eng, ctx, args[0])
    return _by_variant(eng, ctx, e, {0: NONE, 1: lambda c: call_and_wrap(eng, c, args[1], [_payload(e, 1)], _some)})


def m_opt_and_then(eng, ctx, f, path, args, dty):
    e = _enum_of(eng, ctx, args[0])
    return _by_variant(eng, ctx, e, {0: NONE, 1: lambda c: TailCall(args[1], [_payload(e, 1)])})


def m_opt_or_else(eng, ctx, f, path, args, dty):
    e = _enum_of(eng, ctx, args[0])
    return _by_variant(eng, ctx, e, {0: lambda c: TailCall(args[1], []), 1: lambda c: e})


def m_opt_unwrap_or_else(eng, ctx, f, path, args, dty):
    e = _enum_of(eng, ctx, args[0])
    return _by_variant(eng, ctx, e, {0: lambda c: TailCall(args[1], []), 1: lambda c: _payload(e, 1)})


def m_opt_ok_or(eng, ctx, f, path, args, dty):
    e = _enum_of(eng, ctx, args[0])
    return _by_variant(eng, ctx, e, {0: lambda c: _err(args[1]), 1: lambda c: _ok(_payload(e, 1))})


def m_opt_or(eng, ctx, f, path, args, dty):
    e = _enum_of(eng, ctx, args[0])
    return _by_variant(eng, ctx, e, {0: lambda c: args[1], 1: lambda c: e})


def m_opt_take(eng, ctx, f, path, args, dty):
    p = args[0]
    e = _enum_of(eng, ctx, p)
    eng.store_ptr(ctx, p, Enum(0, {}, "Option"))
    return e


def m_opt_replace(eng, ctx, f, path, args, dty):
    p = args[0]
    e = _enum_of(eng, ctx, p)
    eng.store_ptr(ctx, p, _some(args[1]))
    return e


def m_opt_branch(eng, ctx, f, path, args, dty):
    e = _enum_of(eng, ctx, args[0])
    return _by_variant(eng, ctx, e, {1: lambda c: Enum(0, {0: Agg({0: _payload(e, 1)})}, "ControlFlow"),
                                0: lambda c: Enum(1, {1: Agg({0: Enum(0, {}, "Option")})}, "ControlFlow")})


def m_res_branch2(eng, ctx, f, path, args, dty):
    e = _enum_of(eng, ctx, args[0])
    return _by_variant(eng, ctx, e, {0: lambda c: Enum(0, {0: Agg({0: _payload(e, 0)})}, "ControlFlow"),
                                1: lambda c: Enum(1, {1: Agg({0: _err(_payload(e, 1))})}, "ControlFlow")})


def m_res_map2(eng, ctx, f, path, args, dty):
    e = _enum_of(eng, ctx, args[0])
    return _by_variant(eng, ctx, e, {1: lambda c: e, 0: lambda c: call_and_wrap(eng, c, args[1], [_payload(e, 0)], _ok)})


def m_res_map_err3(eng, ctx, f, path, args, dty):
    e = _enum_of(eng, ctx, args[0])
    return _by_variant(eng, ctx, e, {0: lambda c: e, 1: lambda c: call_and_wrap(eng, c, args[1], [_payload(e, 1)], _err)})


def m_res_or_else2(eng, ctx, f, path, args, dty):
    e = _enum_of(eng, ctx, args[0])
    return _by_variant(eng, ctx, e, {0: lambda c: e, 1: lambda c: TailCall(args[1], [_payload(e, 1)])})


def m_res_and_then2(eng, ctx, f, path, args, dty):
    e = _enum_of(eng, ctx, args[0])
    return _by_variant(eng, ctx, e, {1: lambda c: e, 0: lambda c: TailCall(args[1], [_payload(e, 0)])})


def m_res_ok2(eng, ctx, f, path, args, dty):
    e = _enum_of(eng, ctx, args[0])
    return _by_variant(eng, ctx, e, {0: lambda c: _some(_payload(e, 0)), 1: NONE})


def m_res_err2(eng, ctx, f, path, args, dty):
    e = _enum_of(eng, ctx, args[0])
    return _by_variant(eng, ctx, e, {1: lambda c: _some(_payload(e, 1)), 0: NONE})


def m_res_unwrap_or_else(eng, ctx, f, path, args, dty):
    e = _enum_of(eng, ctx, args[0])
    return _by_variant(eng, ctx, e, {0: lambda c: _payload(e, 0), 1: lambda c: TailCall(args[1], [_payload(e, 1)])})


def m_res_map_or_else(eng, ctx, f, path, args, dty):
    e = _enum_of(eng, ctx, args[0])
    return _by_variant(eng, ctx, e, {0: lambda c: TailCall(args[2], [_payload(e, 0)]), 1: lambda c: TailCall(args[1], [_payload(e, 1)])})


def m_range_next(eng, ctx, f, path, args, dty):
    """<Range<usize> as Iterator>::next: yields start and advances while start < end"""
    r = eng.load_ptr(ctx, args[0])
    if not (isinstance(r, Agg) and 0 in r.f and 1 in r.f):
        raise Unsupported(f"Range::next on {r}")
    lo, hi = r.f[0], r.f[1]
    more = (lo < hi) if (z3.is_expr(lo) and z3.is_int(lo)) or (z3.is_expr(hi) and z3.is_int(hi)) else z3.ULT(lo, hi)

    def some(c):
        eng.store_ptr(c, args[0], Agg({0: z3.simplify(lo + 1), 1: hi}))
        return Enum(1, {1: Agg({0: lo})}, "Option")
    ms = z3.simplify(more)
    if z3.is_true(ms):
        return some(ctx)
    if z3.is_false(ms):
        return Enum(0, {}, "Option")
    return Fork([(more, some), (z3.Not(more), Enum(0, {}, "Option"))])


COMBINATORS = {
    r"^<Range as Iterator>::next$|^<std::ops::Range as Iterator>::next$": m_range_next,
    r"^<Range as IntoIterator>::into_iter$|^<std::ops::Range as IntoIterator>::into_iter$": m_identity,
    r"(^|::)Option::as_ref$|(^|::)Option::as_mut$": m_opt_as_ref,
    r"(^|::)Option::map$": m_opt_map,
    r"(^|::)Option::and_then$": m_opt_and_then,
    r"(^|::)Option::or_else$": m_opt_or_else,
    r"(^|::)Option::unwrap_or_else$": m_opt_unwrap_or_else,
    r"(^|::)Option::ok_or$": m_opt_ok_or,
    r"(^|::)Option::or$": m_opt_or,
    r"(^|::)Option::take$": m_opt_take,
    r"(^|::)Option::replace$": m_opt_replace,
    r"^<Option as Try>::branch$": m_opt_branch,
    r"^<Option as FromResidual>::from_residual$": lambda *a: Enum(0, {}, "Option"),
    r"(^|::)Result::map$": m_res_map2,
    r"(^|::)Result::map_err$": m_res_map_err3,
    r"(^|::)Result::or_else$": m_res_or_else2,
    r"(^|::)Result::and_then$": m_res_and_then2,
    r"(^|::)Result::ok$": m_res_ok2,
    r"(^|::)Result::err$": m_res_err2,
    r"(^|::)Result::unwrap_or_else$": m_res_unwrap_or_else,
    r"(^|::)Result::map_or_else$": m_res_map_or_else,
    r"^<Result as Try>::branch$": m_res_branch2,
    r"^<Result as FromResidual>::from_residual$": m_identity,
}


def _arith(fn):
    return lambda eng, ctx, f, path, args, dty: fn(args[0], args[1])


BASE = {
    r"core::num::wrapping_sub$": _arith(lambda a, b: a - b),
    r"core::num::wrapping_add$": _arith(lambda a, b: a + b),
    r"core::num::wrapping_mul$": _arith(lambda a, b: a * b),
    r"Atomic\w*::new$": m_atomic_new,
    r"(^|::)Result::is_ok$": _is_variant(0),
    r"(^|::)Result::is_err$": _is_variant(1),
    r"(^|::)Option::is_some$": _is_variant(1),
    r"(^|::)Option::is_none$": _is_variant(0),
    r"(^|::)Option::(unwrap|expect)$": m_unwrap(1),
    r"(^|::)Result::(unwrap|expect)$": m_unwrap(0),
    r"(^|::)Option::unwrap_or$": m_unwrap_or,
    r"(^|::)Option::map_or$": m_map_or,
    r"(^|::)Option::(copied|cloned)$": m_option_copied,
    r"Atomic\w*::load$": m_atomic_load,
    r"Atomic\w*::store$": m_atomic_store,
    r"Atomic\w*::fetch_add$": _rmw("fetch_add", lambda o, v: o + v),
    r"Atomic\w*::fetch_sub$": _rmw("fetch_sub", lambda o, v: o - v),
    r"Atomic\w*::fetch_or$": _rmw("fetch_or", lambda o, v: (z3.Or(o, v) if z3.is_bool(o) else o | v)),
    r"Atomic\w*::fetch_and$": _rmw("fetch_and", lambda o, v: (z3.And(o, v) if z3.is_bool(o) else o & v)),
    r"Atomic\w*::fetch_max$": _rmw("fetch_max", lambda o, v: z3.If(z3.UGE(o, v), o, v)),
    r"Atomic\w*::swap$": _rmw("swap", lambda o, v: v),
    r"Atomic\w*::compare_exchange(_weak)?$": m_cas,
    r"Atomic\w*::fetch_update$": m_fetch_update,
    r"UnsafeCell::get$": m_unsafecell_get,
    r"^std::ptr::mut_ptr::write$|^core::ptr::mut_ptr::write$|mut_ptr::.*::write$": m_ptr_write,
    r"(mut_ptr|const_ptr)::.*::read$|^std::ptr::(mut_ptr|const_ptr)::read$": m_ptr_read,
    r"Box::new$": m_box_new,
    r"Box::leak$": m_identity,
    r"^<Box as Drop>::drop$": m_unit,      # frees the allocation only (the content was moved out or is dropped separately)
    r"Box::into_raw$|Box::from_raw$": m_identity,
    r"^std::cmp::min$": m_min,
    r"::trailing_ones$": m_trailing_ones,
    r"f64::from_bits$|f64::to_bits$": m_identity,
}
for _k, _v in COMBINATORS.items():
    BASE.setdefault(_k, _v)

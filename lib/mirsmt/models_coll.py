"""Keyed containers (IndexMap / HashMap) with a concrete number of entries and symbolic keys and values, for sequential histories.

A map is `Native("kmap", ((key, cell), ...))` in insertion order; the value of an entry lives in `ctx.statics[cell]`, so that
`get` / `entry().or_insert()` can hand out pointers to it (`Ptr(("static", cell))`). Key equality is structural over the
engine's values (`key_eq`); a symbolic equality forks. Trusted base (std / indexmap contracts): insert replaces the value of an
equal key in place or appends; entry().or_insert() returns the existing value or inserts the default; get finds the equal key;
iteration and clone follow insertion order; Mutex::lock returns the protected value."""
import re
import z3
from .sym import *
from .models import m_identity
from .prog import norm_callee

_cells = [0]


def new_cell(ctx, value, tag="cell"):
    _cells[0] += 1
    name = f"{tag}#{_cells[0]}"
    ctx.statics[name] = value
    return name


def kmap(pairs=()):
    return Native("kmap", tuple(pairs))


def load(eng, ctx, v):
    while isinstance(v, Ptr):
        v = eng.load_ptr(ctx, v)
    return v


def key_eq(eng, ctx, a, b):
    """z3 condition: the two key values are equal"""
    a, b = load(eng, ctx, a), load(eng, ctx, b)
    if z3.is_expr(a) and z3.is_expr(b):
        return a == b
    if isinstance(a, Agg) and isinstance(b, Agg):
        ks = sorted(set(a.f) | set(b.f), key=str)
        return z3.And(*[key_eq(eng, ctx, a.f[k], b.f[k]) for k in ks]) if ks else z3.BoolVal(True)
    if isinstance(a, Enum) and isinstance(b, Enum):
        da = bv(a.discr) if isinstance(a.discr, int) else a.discr
        db = bv(b.discr) if isinstance(b.discr, int) else b.discr
        cs = [da == db]
        for k in set(a.v) & set(b.v):
            if a.v[k].f or b.v[k].f:
                cs.append(z3.Implies(da == bv(k), key_eq(eng, ctx, a.v[k], b.v[k])))
        return z3.And(*cs)
    if isinstance(a, Native) and isinstance(b, Native) and a.kind == b.kind:
        if z3.is_expr(a.data) and z3.is_expr(b.data):
            return a.data == b.data
        if isinstance(a.data, tuple) and isinstance(b.data, tuple) and len(a.data) == len(b.data):
            return z3.And(*[key_eq(eng, ctx, x, y) for x, y in zip(a.data, b.data)]) if a.data else z3.BoolVal(True)
        return z3.BoolVal(a.data == b.data)
    raise Unsupported(f"key equality of {a} and {b}")


def the_map(eng, ctx, p):
    m = load(eng, ctx, p)
    if not (isinstance(m, Native) and m.kind == "kmap"):
        raise Unsupported(f"keyed map expected, got {m}")
    return m


def _decide(cond):
    s = z3.simplify(cond)
    if z3.is_true(s):
        return True
    if z3.is_false(s):
        return False
    return None


def _find(eng, ctx, m, key, on_hit, on_miss):
    """first entry with an equal key; forks only on symbolic equalities"""
    alts = []
    none_eq = []
    for i, (ek, cell) in enumerate(m.data):
        eq = key_eq(eng, ctx, ek, key)
        d = _decide(eq)
        if d is False:
            continue
        cond = z3.And(eq, *none_eq) if none_eq else eq
        if d is True and not none_eq:
            return on_hit(ctx, i, cell)
        alts.append((cond, (lambda c, i=i, cell=cell: on_hit(c, i, cell))))
        none_eq.append(z3.Not(eq))
        if d is True:
            return Fork(alts)
    if not alts:
        return on_miss(ctx)
    alts.append((z3.And(*none_eq), on_miss))
    return Fork(alts)


def m_insert(eng, ctx, f, path, args, dty):
    m = the_map(eng, ctx, args[0])
    key, val = args[1], args[2]

    def hit(c, i, cell):
        old = c.statics[cell]
        c.statics[cell] = val
        return Enum(1, {1: Agg({0: old})}, "Option")

    def miss(c):
        cell = new_cell(c, val)
        eng.store_ptr(c, args[0], kmap(m.data + ((key, cell),)))
        return Enum(0, {}, "Option")
    return _find(eng, ctx, m, key, hit, miss)


def m_get(eng, ctx, f, path, args, dty):
    m = the_map(eng, ctx, args[0])
    return _find(eng, ctx, m, args[1], lambda c, i, cell: Enum(1, {1: Agg({0: Ptr(("static", cell))})}, "Option"), lambda c: Enum(0, {}, "Option"))


def m_contains_key(eng, ctx, f, path, args, dty):
    m = the_map(eng, ctx, args[0])
    return _find(eng, ctx, m, args[1], lambda c, i, cell: z3.BoolVal(True), lambda c: z3.BoolVal(False))


def m_remove(eng, ctx, f, path, args, dty):
    m = the_map(eng, ctx, args[0])

    def hit(c, i, cell):
        eng.store_ptr(c, args[0], kmap(m.data[:i] + m.data[i + 1:]))
        return Enum(1, {1: Agg({0: c.statics[cell]})}, "Option")
    return _find(eng, ctx, m, args[1], hit, lambda c: Enum(0, {}, "Option"))


def m_entry(eng, ctx, f, path, args, dty):
    return Native("entry", (args[0], args[1]))


def m_or_insert(eng, ctx, f, path, args, dty):
    ent = args[0]
    if not (isinstance(ent, Native) and ent.kind == "entry"):
        raise Unsupported(f"or_insert on {ent}")
    mp, key = ent.data
    m = the_map(eng, ctx, mp)

    def miss(c):
        cell = new_cell(c, args[1])
        eng.store_ptr(c, mp, kmap(m.data + ((key, cell),)))
        return Ptr(("static", cell))
    return _find(eng, ctx, m, key, lambda c, i, cell: Ptr(("static", cell)), miss)


def m_or_insert_with(eng, ctx, f, path, args, dty):
    ent = args[0]
    mp, key = ent.data
    m = the_map(eng, ctx, mp)

    def miss(c):
        from .models_reg import run_closure
        if isinstance(args[1], FnItem):
            if not re.search(r"(HashMap|IndexMap)::new$|::default$", norm_callee(args[1].path)):
                raise Unsupported(f"or_insert_with({args[1]})")
            v = kmap()
        else:
            v = run_closure(eng, c, args[1], [])
        cell = new_cell(c, v)
        eng.store_ptr(c, mp, kmap(m.data + ((key, cell),)))
        return Ptr(("static", cell))
    return _find(eng, ctx, m, key, lambda c, i, cell: Ptr(("static", cell)), miss)


def deep_copy(ctx, v):
    """copy of a value in which nested maps get cells of their own"""
    if isinstance(v, Native) and v.kind == "kmap":
        return kmap(tuple((k, new_cell(ctx, deep_copy(ctx, ctx.statics[cell]))) for k, cell in v.data))
    return clone(v)


def m_or_default_map(eng, ctx, f, path, args, dty):
    ent = args[0]
    mp, key = ent.data
    m = the_map(eng, ctx, mp)

    def miss(c):
        cell = new_cell(c, kmap())
        eng.store_ptr(c, mp, kmap(m.data + ((key, cell),)))
        return Ptr(("static", cell))
    return _find(eng, ctx, m, key, lambda c, i, cell: Ptr(("static", cell)), miss)


def m_clone(eng, ctx, f, path, args, dty):
    return deep_copy(ctx, the_map(eng, ctx, args[0]))


def m_len(eng, ctx, f, path, args, dty):
    return bv(len(the_map(eng, ctx, args[0]).data))


def elements(eng, ctx, m, by_ref=False):
    out = []
    for k, cell in m.data:
        out.append(Agg({0: k, 1: (Ptr(("static", cell)) if by_ref else ctx.statics[cell])}))
    return tuple(out)


def m_into_iter(eng, ctx, f, path, args, dty):
    v = args[0]
    by_ref = isinstance(v, Ptr)
    m = load(eng, ctx, v)
    if isinstance(m, Native) and m.kind == "kmap":
        return Native("liter", (elements(eng, ctx, m, by_ref), 0))
    from . import models_str as MS
    return MS.m_into_iter(eng, ctx, f, path, args, dty)


def m_lock(eng, ctx, f, path, args, dty):
    """Mutex::lock: the guard is a pointer to the protected value (a Mutex<T> is represented by its T)"""
    return Enum(0, {0: Agg({0: args[0]})}, "Result")


def m_guard_deref(eng, ctx, f, path, args, dty):
    g = args[0]
    if isinstance(g, Ptr):
        inner = eng.load_ptr(ctx, g)
        if isinstance(inner, Ptr):
            return inner
    return g


COLL = {
    r"^(IndexMap|HashMap|hashbrown::HashMap|hashbrown::map::HashMap)::insert$": m_insert,
    r"^(IndexMap|HashMap|hashbrown::HashMap|hashbrown::map::HashMap)::get$": m_get,
    r"^(IndexMap|HashMap|hashbrown::HashMap|hashbrown::map::HashMap)::contains_key$": m_contains_key,
    r"^(IndexMap|HashMap|hashbrown::HashMap|hashbrown::map::HashMap)::(remove|swap_remove|shift_remove)$": m_remove,
    r"^(IndexMap|HashMap|hashbrown::HashMap|hashbrown::map::HashMap)::entry$": m_entry,
    r"Entry::or_insert$": m_or_insert,
    r"Entry::or_insert_with$": m_or_insert_with,
    r"Entry::or_default$": m_or_default_map,
    r"^(IndexMap|HashMap|hashbrown::HashMap|hashbrown::map::HashMap)::new$": lambda *a: kmap(),
    r"^(IndexMap|HashMap|hashbrown::HashMap|hashbrown::map::HashMap)::get_mut$": m_get,
    r"^(IndexMap|HashMap|hashbrown::HashMap|hashbrown::map::HashMap)::is_empty$": lambda eng, ctx, f, path, args, dty: z3.BoolVal(len(the_map(eng, ctx, args[0]).data) == 0),
    r"^std::sync::RwLock::(read|write)$|^RwLock::(read|write)$": m_lock,
    r"RwLock(Read|Write)Guard as Deref(Mut)?>::deref(_mut)?$": m_guard_deref,
    r"^<(IndexMap|HashMap) as Clone>::clone$": m_clone,
    r"^(IndexMap|HashMap|hashbrown::HashMap|hashbrown::map::HashMap)::len$": m_len,
    r"^<&?(mut )?(IndexMap|HashMap|hashbrown::map::HashMap) as IntoIterator>::into_iter$|^(IndexMap|HashMap)::(iter|iter_mut)$": m_into_iter,
    r"^std::sync::Mutex::lock$|^Mutex::lock$": m_lock,
    r"MutexGuard as Deref(Mut)?>::deref(_mut)?$": m_guard_deref,
}

"""Models for crossbeam-epoch / crossbeam-utils as used by metrics-util's AtomicBucket, and small std helpers
(Vec of shared pointers, mem::replace/take, slices). Epoch reclamation itself is trusted: `defer_unchecked` only
records a 'retire' observation."""
import re
import z3
from .sym import *
from .models import order_name, _is_local

POISON = 0xDEAD0000


def shared(idterm):
    return Ptr(("obj", idterm))


def sid(eng, ctx, v):
    """Shared/Owned value (or reference to one) -> z3 Int object id"""
    if isinstance(v, Ptr) and v.root[0] == "local":
        v = eng.load_ptr(ctx, v)
    if isinstance(v, Ptr) and v.root[0] == "obj":
        o = v.root[1]
        return z3.IntVal(o) if isinstance(o, int) else o
    if isinstance(v, Agg) and 0 in v.f:
        return sid(eng, ctx, v.f[0])
    raise Unsupported(f"not a shared pointer: {v}")


def cb_loc(eng, ctx, p):
    if isinstance(p, Ptr) and p.root[0] == "obj":
        return p.root[1], eng.norm_path(p.path)
    raise Unsupported(f"crossbeam Atomic at {p}")


def m_pin(eng, ctx, f, path, args, dty):
    return Opaque("epoch-guard")


def m_cb_load(eng, ctx, f, path, args, dty):
    o, p = cb_loc(eng, ctx, args[0])
    v = ctx.mem_read(o, p, "ptr", True, order_name(args[1]), "cb_load")
    ctx.mark_site()
    return shared(v)


def m_cb_store(eng, ctx, f, path, args, dty):
    o, p = cb_loc(eng, ctx, args[0])
    ctx.mem_write(o, p, "ptr", sid(eng, ctx, args[1]), True, order_name(args[2]), "cb_store")
    ctx.mark_site()
    return UNIT


def m_cb_cas(eng, ctx, f, path, args, dty):
    o, p = cb_loc(eng, ctx, args[0])
    cur = sid(eng, ctx, args[1])
    new = sid(eng, ctx, args[2])
    old = ctx.mem_rmw(o, p, "ptr", lambda x: new, lambda x: x == cur, order_name(args[3]), "cb_cas", forder=order_name(args[4]))
    ctx.mark_site()
    ok = old == cur
    return Fork([(ok, Enum(0, {0: Agg({0: shared(new)})}, "Result")),
                 (z3.Not(ok), Enum(1, {1: Agg({0: Agg({0: shared(old), 1: args[2]})})}, "Result"))])


def m_shared_null(eng, ctx, f, path, args, dty):
    return shared(z3.IntVal(0))


def m_is_null(eng, ctx, f, path, args, dty):
    return sid(eng, ctx, args[0]) == 0


def m_shared_deref(eng, ctx, f, path, args, dty):
    return shared(sid(eng, ctx, args[0]))


def m_shared_as_ref(eng, ctx, f, path, args, dty):
    """Shared::as_ref: None for the null pointer, Some(&T) otherwise (crossbeam-epoch documentation)"""
    i = sid(eng, ctx, args[0])
    isnull = i == 0
    return Fork([(isnull, Enum(0, {}, "Option")), (z3.Not(isnull), Enum(1, {1: Agg({0: shared(i)})}, "Option"))])


def m_zeroed(eng, ctx, f, path, args, dty):
    return Native("zeroed", path)


def m_owned_new(block_size):
    def h(eng, ctx, f, path, args, dty):
        v = args[0]
        if not (isinstance(v, Native) and v.kind == "zeroed"):
            raise Unsupported(f"Owned::new of {v}")
        init = {(0,): (64, bv(0)), (1,): (64, bv(0)), (3,): ("ptr", z3.IntVal(0))}
        for i in range(block_size):
            init[(2, ("idx", i))] = (64, bv(POISON + i))      # uninitialised slot: reading it shows up as a fabricated value
        oid = ctx.alloc("Block", init)
        return Ptr(("obj", oid))
    return h


def m_owned_deref(eng, ctx, f, path, args, dty):
    """&Owned<T> -> &T: the not-yet-shared object itself"""
    o = args[0]
    while isinstance(o, Ptr) and o.root[0] != "obj":
        o = eng.load_ptr(ctx, o)
    return o


def m_get_unchecked(eng, ctx, f, path, args, dty):
    base, idx = args[0], args[1]
    m = re.search(r"impl \[(.*)\]>::get_unchecked", path)
    return Ptr(base.root, base.path + (("idx", idx),), m.group(1) if m else None)


def m_from_raw_parts(eng, ctx, f, path, args, dty):
    return Native("slice", (args[0], args[1]))


def m_ident(eng, ctx, f, path, args, dty):
    return args[0]


def m_vec_new(eng, ctx, f, path, args, dty):
    return Native("vec", [])


def _vec(eng, ctx, p):
    v = eng.load_ptr(ctx, p) if isinstance(p, Ptr) else p
    if not (isinstance(v, Native) and v.kind == "vec"):
        raise Unsupported(f"not a modelled Vec: {v}")
    return v


def m_vec_push(eng, ctx, f, path, args, dty):
    v = _vec(eng, ctx, args[0])
    eng.store_ptr(ctx, args[0], Native("vec", v.data + [args[1]]))
    return UNIT


def m_vec_len(eng, ctx, f, path, args, dty):
    return bv(len(_vec(eng, ctx, args[0]).data))


def m_vec_is_empty(eng, ctx, f, path, args, dty):
    return z3.BoolVal(len(_vec(eng, ctx, args[0]).data) == 0)


def m_mem_replace(eng, ctx, f, path, args, dty):
    old = clone(eng.load_ptr(ctx, args[0]))
    eng.store_ptr(ctx, args[0], args[1])
    return old


def m_mem_take(eng, ctx, f, path, args, dty):
    old = eng.load_ptr(ctx, args[0])
    eng.store_ptr(ctx, args[0], Native("vec", []))
    return old


def m_defer(eng, ctx, f, path, args, dty):
    clo = args[1]
    blocks = []
    if isinstance(clo, Closure):
        for v in clo.caps.values():
            if isinstance(v, Native) and v.kind == "vec":
                blocks = [sid(eng, ctx, x) for x in v.data]
    ctx.observe("retire", blocks=blocks)
    return UNIT


def bucket_models(block_size):
    return {
        r"(^|::)pin$": m_pin,
        r"crossbeam_epoch::Atomic::load$": m_cb_load,
        r"crossbeam_epoch::Atomic::store$": m_cb_store,
        r"crossbeam_epoch::Atomic::compare_exchange$": m_cb_cas,
        r"crossbeam_epoch::Atomic::null$": m_shared_null,
        r"Shared::null$": m_shared_null,
        r"Shared::is_null$": m_is_null,
        r"Shared::deref$|Shared::deref_mut$": m_shared_deref,
        r"Shared::as_ref$": m_shared_as_ref,
        r"Owned::new$": m_owned_new(block_size),
        r"Owned as Deref(Mut)?>::deref(_mut)?$": m_owned_deref,
        r"MaybeUninit::zeroed$": m_zeroed,
        r"MaybeUninit::assume_init$|MaybeUninit::assume_init_ref$|MaybeUninit::as_ptr$": m_ident,
        r"slice::get_unchecked$|^core::slice::get_unchecked$": m_get_unchecked,
        r"slice::from_raw_parts$": m_from_raw_parts,
        r"^Vec::new$": m_vec_new,
        r"^Vec::push$": m_vec_push,
        r"^Vec::len$": m_vec_len,
        r"^Vec::is_empty$": m_vec_is_empty,
        r"mem::replace$": m_mem_replace,
        r"mem::take$": m_mem_take,
        r"Guard::defer_unchecked$": m_defer,
        r"Guard::flush$": lambda *a: UNIT,
        r"Backoff::new$": lambda *a: Opaque("backoff"),
        r"Backoff::snooze$": lambda *a: UNIT,
    }

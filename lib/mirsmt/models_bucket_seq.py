"""AtomicBucket for *sequential* scenarios with interference: the bucket is a list (`Native("lvec")`) in a static cell, every bucket
operation is one atomic step (that is C05's subject), and a recorder on another thread may complete a push right before any bucket
operation of the code under analysis (`env_pending` in the context holds the values it has not pushed yet; the solver chooses where
each one lands). This is the sequentialisation of `caller || record(x)` at the granularity of bucket operations."""
import z3
from .sym import *
from . import models_str as MS


def cell_of(eng, ctx, p):
    while isinstance(p, Ptr) and isinstance(eng.load_ptr(ctx, p), Ptr):
        p = eng.load_ptr(ctx, p)
    return p


def with_env(eng, ctx, cellp, op, what):
    pend = ctx.statics.get("env_pending", ())
    if not pend:
        return op(ctx)
    tag = pend[0]
    here = eng.fresh("concurrent_record_lands_before_this_bucket_operation", "bool")

    def yes(c):
        c.statics["env_pending"] = tuple(pend[1:])
        cur = eng.load_ptr(c, cellp)
        eng.store_ptr(c, cellp, MS.lvec(tuple(cur.data) + (tag,)))
        c.observe("env_pushed", tag=tag, before=what)
        return op(c)
    return Fork([(here, yes), (z3.Not(here), op)])


def _content(eng, c, cellp, what):
    cur = eng.load_ptr(c, cellp)
    if not (isinstance(cur, Native) and cur.kind == "lvec"):
        raise Unsupported(f"{what} on {cur}")
    return cur


def m_clear_with(eng, ctx, f, path, args, dty):
    cellp = cell_of(eng, ctx, args[0])

    def op(c):
        cur = _content(eng, c, cellp, "clear_with")
        eng.store_ptr(c, cellp, MS.lvec(()))
        return TailCall(args[1], [cur])
    return with_env(eng, ctx, cellp, op, "clear_with")


def m_data_with(eng, ctx, f, path, args, dty):
    cellp = cell_of(eng, ctx, args[0])
    return with_env(eng, ctx, cellp, lambda c: TailCall(args[1], [_content(eng, c, cellp, "data_with")]), "data_with")


def m_data(eng, ctx, f, path, args, dty):
    cellp = cell_of(eng, ctx, args[0])
    return with_env(eng, ctx, cellp, lambda c: _content(eng, c, cellp, "data"), "data")


def m_clear(eng, ctx, f, path, args, dty):
    cellp = cell_of(eng, ctx, args[0])

    def op(c):
        _content(eng, c, cellp, "clear")
        eng.store_ptr(c, cellp, MS.lvec(()))
        return UNIT
    return with_env(eng, ctx, cellp, op, "clear")


def m_is_empty(eng, ctx, f, path, args, dty):
    cellp = cell_of(eng, ctx, args[0])
    return with_env(eng, ctx, cellp, lambda c: z3.BoolVal(len(_content(eng, c, cellp, "is_empty").data) == 0), "is_empty")


def m_push(eng, ctx, f, path, args, dty):
    cellp = cell_of(eng, ctx, args[0])

    def op(c):
        cur = _content(eng, c, cellp, "push")
        eng.store_ptr(c, cellp, MS.lvec(tuple(cur.data) + (args[1],)))
        return UNIT
    return with_env(eng, ctx, cellp, op, "push")


BUCKET_SEQ = {
    r"AtomicBucket::clear_with$": m_clear_with,
    r"AtomicBucket::data_with$": m_data_with,
    r"AtomicBucket::data$": m_data,
    r"AtomicBucket::clear$": m_clear,
    r"AtomicBucket::is_empty$": m_is_empty,
    r"AtomicBucket::push$": m_push,
    r"AtomicBucket::new$": lambda *a: MS.lvec(()),
}

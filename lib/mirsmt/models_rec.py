"""Models for the recorder-scoping scenarios (C01): thread-locals (`LocalKey::with` calls the closure on a per-thread
cell), `Cell`, `NonNull`, dynamic dispatch on `dyn Recorder` (observed, identity of the recorder object), and the
scenario primitives of /verif/mirharness (`nd_bool`, `nd_panic`, `rec`, `mark_scope_end`)."""
import re
import z3
from .sym import *


def m_localkey_with(eng, ctx, f, path, args, dty):
    key = args[0]
    if isinstance(key, Ptr):
        key = eng.load_ptr(ctx, key)
    if not (isinstance(key, Native) and key.kind == "localkey"):
        raise Unsupported(f"LocalKey::with on {key}")
    name = "tls:" + key.data
    if name not in ctx.statics:
        ctx.statics[name] = eng.tls_init.get(key.data, Enum(0, {}, "Option"))
    return TailCall(args[1], [Ptr(("static", name))])


def m_cell_replace(eng, ctx, f, path, args, dty):
    old = clone(eng.load_ptr(ctx, args[0]))
    eng.store_ptr(ctx, args[0], args[1])
    return old


def m_cell_get(eng, ctx, f, path, args, dty):
    return clone(eng.load_ptr(ctx, args[0]))


def m_cell_set(eng, ctx, f, path, args, dty):
    eng.store_ptr(ctx, args[0], args[1])
    return UNIT


def m_option_take(eng, ctx, f, path, args, dty):
    old = clone(eng.load_ptr(ctx, args[0]))
    eng.store_ptr(ctx, args[0], Enum(0, {}, "Option"))
    return old


def m_ident(eng, ctx, f, path, args, dty):
    return args[0]


def rec_id(eng, ctx, p):
    if isinstance(p, Ptr) and p.root[0] in ("local", "static"):
        p = eng.load_ptr(ctx, p)
    if isinstance(p, Agg) and 0 in p.f:
        p = p.f[0]
    if isinstance(p, Ptr) and p.root[0] == "obj":
        o = p.root[1]
        return z3.IntVal(o) if isinstance(o, int) else o
    raise Unsupported(f"recorder identity of {p}")


def m_dispatch(eng, ctx, f, path, args, dty):
    op = path.split("::")[-1]
    g = ghost(ctx).data
    ctx.observe("dispatch", rec=rec_id(eng, ctx, args[0]), op=op, top=(g[-1] if g else z3.IntVal(0)), ended=ctx.statics.get("scope_ended", z3.IntVal(0)))
    return Opaque("handle") if op.startswith("register") else UNIT


def m_nd_bool(eng, ctx, f, path, args, dty):
    b = z3.Bool(f"nd{len(eng.nd)}")
    eng.nd.append(b)
    return b


def m_rec(eng, ctx, f, path, args, dty):
    i = concrete(args[0])
    return Ptr(("obj", eng.static_objs[f"rec{i}"].root[1]))


def ghost(ctx):
    g = ctx.statics.get("ghost")
    if g is None:
        g = Native("vec", [])
        ctx.statics["ghost"] = g
    return g


def m_mark_install(eng, ctx, f, path, args, dty):
    i = concrete(args[0])
    ctx.statics["ghost"] = Native("vec", ghost(ctx).data + [z3.IntVal(i)])
    return UNIT


def m_mark_scope_end(eng, ctx, f, path, args, dty):
    """the borrow that installed recorder i has ended: it leaves the ghost list of live installations"""
    i = concrete(args[0])
    g = ghost(ctx).data
    # remove the (last) occurrence of i; entries are concrete in every scenario at this point or merged ite terms
    out = []
    removed = False
    for x in reversed(g):
        if not removed and z3.is_int_value(z3.simplify(x)) and z3.simplify(x).as_long() == i:
            removed = True
            continue
        out.append(x)
    ctx.statics["ghost"] = Native("vec", list(reversed(out)))
    cur = ctx.statics.get("scope_ended", z3.IntVal(0))
    ctx.statics["scope_ended"] = cur + (1 << i)
    return UNIT


REC_MODELS = {
    r"LocalKey::with$": m_localkey_with,
    r"^Cell::replace$": m_cell_replace,
    r"^Cell::get$": m_cell_get,
    r"^Cell::set$": m_cell_set,
    r"^Option::take$": m_option_take,
    r"NonNull::new_unchecked$|NonNull::as_ptr$|NonNull::as_ref$|^<NonNull as From>::from$|NonNull::from$|NonNull::from_ref$|NonNull::from_mut$": m_ident,
    r"^<dyn Recorder as Recorder>::\w+$|^<dyn recorder::Recorder as recorder::Recorder>::\w+$": m_dispatch,
    r"(^|::)nd_bool$": m_nd_bool,
    r"(^|::)nd_panic$": lambda *a: Unwind(),
    r"(^|::)rec$": m_rec,
    r"(^|::)mark_scope_end$": m_mark_scope_end,
    r"(^|::)mark_install$": m_mark_install,
    r"(^|::)mark_global_hit$": lambda *a: UNIT,
    r"^std::mem::forget$|^core::mem::forget$": lambda *a: UNIT,
    r"KeyName::from_const_str$|Cow::const_str$": lambda *a: Opaque("str"),
}

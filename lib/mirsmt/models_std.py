"""General std models, consulted as a *fallback*: only for a callee that has no check-specific model and no body in the
MIR dump. They make the encoder survive ordinary edits of /repo (a new `Option::filter`, `slice::partition_point`,
`OnceLock::get_or_init`, `<bool as Ord>::cmp` ...) instead of stopping with "no model and no body".

Representations shared with the other model files:
  Vec / slice / VecDeque        Native("lvec", (e0, e1, ...))          concrete length, symbolic elements
  iterators                     Native("liter", (items, pos)) and Native("iterchain", (adaptor, inner, fn))
  String / &str                 Native("sstr", (c0, c1, ...))          (models_str)
  HashMap / IndexMap            Native("kmap", ((key, cell), ...))     (models_coll)
  Option / Result               Enum(discr, {variant: Agg})
  cmp::Ordering                 Enum(discr in {-1, 0, 1} as u64, {}, "CmpOrdering")
  Cell<T>, OnceLock<T>          T / Option<T> in place
Every model follows the documented std contract of the function it stands for; each one that is used by a run is listed
in the evidence (`callees_modelled`)."""
import re
import z3
from .sym import *
from .prog import norm_callee, strip_generics, base_name
from . import models_coll as MC
from . import models_str as MS

LESS = 0xFFFFFFFFFFFFFFFF


def load(eng, ctx, v):
    while isinstance(v, Ptr):
        v = eng.load_ptr(ctx, v)
    return v


def some(v):
    return Enum(1, {1: Agg({0: v})}, "Option")


def none():
    return Enum(0, {}, "Option")


def ok(v):
    return Enum(0, {0: Agg({0: v})}, "Result")


def err(v):
    return Enum(1, {1: Agg({0: v})}, "Result")


def ordering(lt, eq):
    return Enum(z3.If(lt, bv(LESS), z3.If(eq, bv(0), bv(1))), {}, "CmpOrdering")


def dterm(d):
    return bv(d) if isinstance(d, int) else d


def discr_is(e, k):
    return z3.BoolVal(e.discr == k) if isinstance(e.discr, int) else e.discr == bv(k)


def callv(clo, args):
    """script step: call a closure / fn item / body with values"""
    return ("callv", clo, list(args))


def call_fn(eng, c, fn, args):
    """generator helper: result of calling `fn` (Closure, FnItem with body or model, Body) on args"""
    if isinstance(fn, FnItem):
        b = eng.prog.resolve(fn.path)
        if b is not None:
            r = yield ("callv", b, list(args))
            return r
        norm = norm_callee(fn.path)
        for table in (eng.models, FALLBACK):
            for pat, h in table.items():
                if not pat.startswith("__") and re.search(pat, norm):
                    r = h(eng, c, None, fn.path, list(args), None)
                    if isinstance(r, (Fork, Script, Diverge, TailCall)):
                        raise Unsupported(f"fn item {fn.path}: model is not a plain function")
                    return r
        raise Unsupported(f"fn item {fn.path}: no body and no model")
    r = yield ("callv", fn, list(args))
    return r


# ------------------------------------------------------------------------------------------------ equality / ordering
def generic_eq(eng, ctx, a, b):
    a, b = load(eng, ctx, a), load(eng, ctx, b)
    for v in (a, b):
        if isinstance(v, Native) and v.kind in getattr(eng, "native_eq", {}):
            return eng.native_eq[v.kind](eng, ctx, a, b)
    if isinstance(a, Native) and isinstance(b, Native) and a.kind == b.kind == "sstr":
        return MS.text_eq(a.data, b.data)
    if isinstance(a, Native) and isinstance(b, Native) and a.kind == b.kind == "lvec":
        if len(a.data) != len(b.data):
            return z3.BoolVal(False)
        return z3.And(*[generic_eq(eng, ctx, x, y) for x, y in zip(a.data, b.data)]) if a.data else z3.BoolVal(True)
    if isinstance(a, Native) and isinstance(b, Native) and a.kind == b.kind == "str":
        return z3.BoolVal(a.data == b.data)
    if z3.is_expr(a) and z3.is_expr(b) and a.sort() != b.sort():
        raise Unsupported(f"equality of {a.sort()} and {b.sort()}")
    return MC.key_eq(eng, ctx, a, b)


def m_eq(eng, ctx, f, path, args, dty):
    return generic_eq(eng, ctx, args[0], args[1])


def m_ne(eng, ctx, f, path, args, dty):
    return z3.Not(generic_eq(eng, ctx, args[0], args[1]))


def _self_type(path):
    m = re.match(r"^<(.*) as ", path.strip(), re.S)
    if not m:
        return ""
    return m.group(1).strip()


def _signed_of(tyname):
    t = tyname.replace("&", "").replace("mut ", "").strip()
    return t in SIGNED


def lt_eq(eng, ctx, a, b, ty=""):
    """(a < b, a == b) for primitives, Option, tuples, strings; `ty` decides signedness of integers"""
    a, b = load(eng, ctx, a), load(eng, ctx, b)
    for v in (a, b):
        if isinstance(v, Native) and v.kind in getattr(eng, "native_lt", {}):
            return eng.native_lt[v.kind](eng, ctx, a, b)
    if z3.is_expr(a) and z3.is_expr(b):
        if z3.is_bool(a):
            return z3.And(z3.Not(a), b), a == b
        if z3.is_int(a):
            return a < b, a == b
        inner = re.sub(r"^Option<(.*)>$", r"\1", ty.strip())
        if _signed_of(inner):
            return a < b, a == b
        return z3.ULT(a, b), a == b
    if isinstance(a, Enum) and isinstance(b, Enum) and (a.name == "Option" or b.name == "Option"):
        inner = re.sub(r"^&?Option<(.*)>$", r"\1", ty.strip(), flags=re.S)
        pa = a.v.get(1, Agg()).f.get(0)
        pb = b.v.get(1, Agg()).f.get(0)
        if pa is not None and pb is not None:
            l2, e2 = lt_eq(eng, ctx, pa, pb, inner)
        else:
            l2, e2 = z3.BoolVal(False), z3.BoolVal(True)
        sa, sb = discr_is(a, 1), discr_is(b, 1)
        return z3.Or(z3.And(z3.Not(sa), sb), z3.And(sa, sb, l2)), z3.Or(z3.And(z3.Not(sa), z3.Not(sb)), z3.And(sa, sb, e2))
    if isinstance(a, Enum) and isinstance(b, Enum) and a.name == b.name == "CmpOrdering":
        x, y = dterm(a.discr), dterm(b.discr)
        return x + bv(1) < y + bv(1) if False else z3.ULT(x + bv(1), y + bv(1)), x == y
    if isinstance(a, Agg) and isinstance(b, Agg):
        lt, eq = z3.BoolVal(False), z3.BoolVal(True)
        tys = split_tuple_type(ty)
        for i, k in enumerate(sorted(set(a.f) | set(b.f), key=str)):
            l2, e2 = lt_eq(eng, ctx, a.f[k], b.f[k], tys[i] if i < len(tys) else "")
            lt = z3.Or(lt, z3.And(eq, l2))
            eq = z3.And(eq, e2)
        return lt, eq
    if isinstance(a, Native) and isinstance(b, Native) and a.kind == b.kind == "sstr":
        lt, eq = z3.BoolVal(False), z3.BoolVal(True)
        for x, y in zip(a.data, b.data):
            if not (z3.is_expr(x) and z3.is_expr(y)):
                raise Unsupported("ordering of strings with abstract tokens")
            lt = z3.Or(lt, z3.And(eq, z3.ULT(x, y)))
            eq = z3.And(eq, x == y)
        if len(a.data) < len(b.data):
            lt, eq = z3.Or(lt, eq), z3.BoolVal(False)
        elif len(a.data) > len(b.data):
            eq = z3.BoolVal(False)
        return lt, eq
    if isinstance(a, Native) and isinstance(b, Native) and a.kind == b.kind == "lvec":
        lt, eq = z3.BoolVal(False), z3.BoolVal(True)
        for x, y in zip(a.data, b.data):
            l2, e2 = lt_eq(eng, ctx, x, y, "")
            lt = z3.Or(lt, z3.And(eq, l2))
            eq = z3.And(eq, e2)
        if len(a.data) < len(b.data):
            lt, eq = z3.Or(lt, eq), z3.BoolVal(False)
        elif len(a.data) > len(b.data):
            eq = z3.BoolVal(False)
        return lt, eq
    raise Unsupported(f"ordering of {a} and {b}")


def split_tuple_type(ty):
    t = ty.strip().lstrip("&").strip()
    if t.startswith("(") and t.endswith(")"):
        from .parse import split_top
        return [x.strip() for x in split_top(t[1:-1])]
    return []


def m_cmp(eng, ctx, f, path, args, dty):
    lt, eq = lt_eq(eng, ctx, args[0], args[1], _self_type(path))
    return ordering(lt, eq)


def m_partial_cmp(eng, ctx, f, path, args, dty):
    lt, eq = lt_eq(eng, ctx, args[0], args[1], _self_type(path))
    return some(ordering(lt, eq))


def _rel(fn):
    def h(eng, ctx, f, path, args, dty):
        lt, eq = lt_eq(eng, ctx, args[0], args[1], _self_type(path))
        return fn(lt, eq)
    return h


def m_max(eng, ctx, f, path, args, dty):
    a, b = args[0], args[1]
    lt, eq = lt_eq(eng, ctx, a, b, _self_type(path) or (re.search(r"::<(.*)>$", path, re.S).group(1) if re.search(r"::<(.*)>$", path, re.S) else ""))
    return _ite_val(eng, ctx, z3.Or(lt, eq), b, a)       # std: max returns the second argument when equal


def m_min(eng, ctx, f, path, args, dty):
    a, b = args[0], args[1]
    lt, eq = lt_eq(eng, ctx, a, b, _self_type(path) or (re.search(r"::<(.*)>$", path, re.S).group(1) if re.search(r"::<(.*)>$", path, re.S) else ""))
    return _ite_val(eng, ctx, z3.Or(lt, eq), a, b)


def _ite_val(eng, ctx, cond, x, y):
    s = z3.simplify(cond)
    if z3.is_true(s):
        return x
    if z3.is_false(s):
        return y
    if z3.is_expr(x) and z3.is_expr(y):
        return z3.If(cond, x, y)
    return Fork([(cond, x), (z3.Not(cond), y)])


def m_ord_reverse(eng, ctx, f, path, args, dty):
    o = load(eng, ctx, args[0])
    d = dterm(o.discr)
    return Enum(z3.If(d == bv(LESS), bv(1), z3.If(d == bv(1), bv(LESS), bv(0))), {}, "CmpOrdering")


def m_ord_then(eng, ctx, f, path, args, dty):
    a, b = load(eng, ctx, args[0]), load(eng, ctx, args[1])
    return Enum(z3.If(dterm(a.discr) == bv(0), dterm(b.discr), dterm(a.discr)), {}, "CmpOrdering")


def m_ord_then_with(eng, ctx, f, path, args, dty):
    a = load(eng, ctx, args[0])

    def script(c):
        iseq = yield ("branch", dterm(a.discr) == bv(0))
        if not iseq:
            return a
        r = yield from call_fn(eng, c, args[1], [])
        return r
    return Script(script)


def _ord_is(fn):
    def h(eng, ctx, f, path, args, dty):
        d = dterm(load(eng, ctx, args[0]).discr)
        return fn(d)
    return h


# ------------------------------------------------------------------------------------------------ integers
def _w(path, a):
    return a.size() if z3.is_bv(a) else None


def _int_ty(path):
    m = re.search(r"<impl (\w+)>", path)
    return m.group(1) if m else None


def _is_int_mode(a):
    return z3.is_int(a)


def m_saturating_sub(eng, ctx, f, path, args, dty):
    a, b = args
    if _is_int_mode(a):
        return z3.If(a >= b, a - b, z3.IntVal(0))
    if _int_ty(path) in SIGNED:
        raise Unsupported("signed saturating_sub")
    return z3.If(z3.UGE(a, b), a - b, bv(0, a.size()))


def m_saturating_add(eng, ctx, f, path, args, dty):
    a, b = args
    if _is_int_mode(a):
        mx = z3.IntVal((1 << 64) - 1)
        return z3.If(a + b > mx, mx, a + b)
    if _int_ty(path) in SIGNED:
        raise Unsupported("signed saturating_add")
    w = a.size()
    return z3.If(z3.ULT(a + b, a), bv((1 << w) - 1, w), a + b)


def m_saturating_mul(eng, ctx, f, path, args, dty):
    a, b = args
    if _is_int_mode(a):
        mx = z3.IntVal((1 << 64) - 1)
        return z3.If(a * b > mx, mx, a * b)
    w = a.size()
    wide = z3.ZeroExt(w, a) * z3.ZeroExt(w, b)
    return z3.If(z3.UGT(wide, z3.ZeroExt(w, bv((1 << w) - 1, w))), bv((1 << w) - 1, w), a * b)


def _checked(op):
    def h(eng, ctx, f, path, args, dty):
        a, b = args
        if _is_int_mode(a):
            mx = z3.IntVal((1 << 64) - 1)
            r = {"add": a + b, "sub": a - b, "mul": a * b}[op]
            good = z3.And(r >= 0, r <= mx)
        else:
            if _int_ty(path) in SIGNED:
                raise Unsupported(f"signed checked_{op}")
            w = a.size()
            if op == "add":
                r, good = a + b, z3.UGE(a + b, a)
            elif op == "sub":
                r, good = a - b, z3.UGE(a, b)
            else:
                wide = z3.ZeroExt(w, a) * z3.ZeroExt(w, b)
                r, good = a * b, z3.ULE(wide, z3.ZeroExt(w, bv((1 << w) - 1, w)))
        return Enum(z3.If(good, bv(1), bv(0)), {1: Agg({0: r})}, "Option")
    return h


def _wrapping(op):
    def h(eng, ctx, f, path, args, dty):
        a, b = args
        if _is_int_mode(a):
            m = 1 << 64
            return {"add": (a + b) % m, "sub": (a - b) % m, "mul": (a * b) % m}[op]
        return {"add": a + b, "sub": a - b, "mul": a * b}[op]
    return h


def _overflowing(op):
    def h(eng, ctx, f, path, args, dty):
        a, b = args
        if _is_int_mode(a) or _int_ty(path) in SIGNED:
            raise Unsupported(f"overflowing_{op} in this mode")
        w = a.size()
        if op == "add":
            return Agg({0: a + b, 1: z3.ULT(a + b, a)})
        if op == "sub":
            return Agg({0: a - b, 1: z3.ULT(a, b)})
        wide = z3.ZeroExt(w, a) * z3.ZeroExt(w, b)
        return Agg({0: a * b, 1: z3.UGT(wide, z3.ZeroExt(w, bv((1 << w) - 1, w)))})
    return h


def m_abs_diff(eng, ctx, f, path, args, dty):
    a, b = args
    if _is_int_mode(a):
        return z3.If(a >= b, a - b, b - a)
    return z3.If(z3.UGE(a, b), a - b, b - a)


def m_is_power_of_two(eng, ctx, f, path, args, dty):
    a = args[0]
    if _is_int_mode(a):
        raise Unsupported("is_power_of_two in integer mode")
    return z3.And(a != bv(0, a.size()), (a & (a - bv(1, a.size()))) == bv(0, a.size()))


def m_count_ones(eng, ctx, f, path, args, dty):
    a = args[0]
    w = a.size()
    return z3.Sum(*[z3.ZeroExt(31, z3.Extract(i, i, a)) for i in range(w)]) if w > 1 else z3.ZeroExt(31, a)


def m_leading_zeros(eng, ctx, f, path, args, dty):
    a = args[0]
    w = a.size()
    r = bv(w, 32)
    for i in range(w):
        r = z3.If(z3.Extract(i, i, a) == z3.BitVecVal(1, 1), bv(w - 1 - i, 32), r)
    return r


def m_trailing_zeros(eng, ctx, f, path, args, dty):
    a = args[0]
    w = a.size()
    r = bv(w, 32)
    for i in reversed(range(w)):
        r = z3.If(z3.Extract(i, i, a) == z3.BitVecVal(1, 1), bv(i, 32), r)
    return r


def m_pow(eng, ctx, f, path, args, dty):
    a, e = args
    if not is_concrete(e):
        raise Unsupported("pow with a symbolic exponent")
    r = z3.IntVal(1) if _is_int_mode(a) else bv(1, a.size())
    for _ in range(concrete(e)):
        r = r * a
    return r


# ------------------------------------------------------------------------------------------------ Option / Result / bool
def _opt(eng, ctx, v):
    v = load(eng, ctx, v)
    if not isinstance(v, Enum):
        raise Unsupported(f"Option expected, got {v}")
    return v


def _payload(e, k=1):
    a = e.v.get(k)
    if a is None or 0 not in a.f:
        raise Unsupported(f"payload of variant {k} of {e} is not set")
    return a.f[0]


def m_opt_filter(eng, ctx, f, path, args, dty):
    o = _opt(eng, ctx, args[0])

    def script(c):
        is_some = yield ("branch", discr_is(o, 1))
        if not is_some:
            return none()
        x = _payload(o)
        cell = yield ("effect", lambda c_: MC.new_cell(c_, x, "optfilter"))
        r = yield from call_fn(eng, c, args[1], [Ptr(("static", cell))])
        keep = yield ("branch", eng.as_bool(r))
        return some(x) if keep else none()
    return Script(script)


def m_opt_is_some_and(eng, ctx, f, path, args, dty):
    o = _opt(eng, ctx, args[0])

    def script(c):
        is_some = yield ("branch", discr_is(o, 1))
        if not is_some:
            return z3.BoolVal(False)
        r = yield from call_fn(eng, c, args[1], [_payload(o)])
        return r
    return Script(script)


def m_opt_is_none_or(eng, ctx, f, path, args, dty):
    o = _opt(eng, ctx, args[0])

    def script(c):
        is_some = yield ("branch", discr_is(o, 1))
        if not is_some:
            return z3.BoolVal(True)
        r = yield from call_fn(eng, c, args[1], [_payload(o)])
        return r
    return Script(script)


def m_opt_ok_or_else(eng, ctx, f, path, args, dty):
    o = _opt(eng, ctx, args[0])

    def script(c):
        is_some = yield ("branch", discr_is(o, 1))
        if is_some:
            return ok(_payload(o))
        r = yield from call_fn(eng, c, args[1], [])
        return err(r)
    return Script(script)


def m_opt_map_or_else(eng, ctx, f, path, args, dty):
    o = _opt(eng, ctx, args[0])

    def script(c):
        is_some = yield ("branch", discr_is(o, 1))
        if is_some:
            r = yield from call_fn(eng, c, args[2], [_payload(o)])
        else:
            r = yield from call_fn(eng, c, args[1], [])
        return r
    return Script(script)


def default_of(ty):
    t = (ty or "").strip()
    b = base_name(t)
    if b in INT_W:
        return bv(0, INT_W[b])
    if b == "bool":
        return z3.BoolVal(False)
    if b == "Option":
        return none()
    if b in ("Vec", "VecDeque"):
        return MS.lvec(())
    if b in ("HashMap", "IndexMap", "BTreeMap"):
        return MC.kmap()
    if b in ("String", "str"):
        return MS.sstr(())
    if b == "f64":
        return bv(0, 64)
    raise Unsupported(f"Default::default() of {ty}")


def m_default(eng, ctx, f, path, args, dty):
    return default_of(dty or _self_type(path))


def m_opt_unwrap_or_default(eng, ctx, f, path, args, dty):
    o = _opt(eng, ctx, args[0])
    d = default_of(dty)
    return _ite_val(eng, ctx, discr_is(o, 1), _payload(o) if 1 in o.v else d, d)


def m_opt_get_or_insert_with(eng, ctx, f, path, args, dty):
    p = args[0]
    o = _opt(eng, ctx, p)

    def script(c):
        is_some = yield ("branch", discr_is(o, 1))
        if not is_some:
            v = yield from call_fn(eng, c, args[1], [])
            yield ("effect", lambda c_: eng.store_ptr(c_, p, some(v)))
        return Ptr(p.root, p.path + (("variant", "Some"), 0))
    return Script(script)


def m_opt_insert(eng, ctx, f, path, args, dty):
    p = args[0]
    eng.store_ptr(ctx, p, some(args[1]))
    return Ptr(p.root, p.path + (("variant", "Some"), 0))


def m_opt_xor(eng, ctx, f, path, args, dty):
    a, b = _opt(eng, ctx, args[0]), _opt(eng, ctx, args[1])
    sa, sb = discr_is(a, 1), discr_is(b, 1)
    return Fork([(z3.And(sa, z3.Not(sb)), a), (z3.And(sb, z3.Not(sa)), b), (sa == sb, none())])


def m_opt_and(eng, ctx, f, path, args, dty):
    a, b = _opt(eng, ctx, args[0]), _opt(eng, ctx, args[1])
    return Fork([(discr_is(a, 1), b), (z3.Not(discr_is(a, 1)), none())])


def m_opt_zip(eng, ctx, f, path, args, dty):
    a, b = _opt(eng, ctx, args[0]), _opt(eng, ctx, args[1])
    both = z3.And(discr_is(a, 1), discr_is(b, 1))
    return Fork([(both, lambda c: some(Agg({0: _payload(a), 1: _payload(b)}))), (z3.Not(both), none())])


def m_opt_as_deref(eng, ctx, f, path, args, dty):
    o = _opt(eng, ctx, args[0])
    if 1 in o.v and 0 in o.v[1].f:
        p = args[0]
        inner = Ptr(p.root, p.path + (("variant", "Some"), 0)) if isinstance(p, Ptr) else o.v[1].f[0]
        return Enum(o.discr, {1: Agg({0: inner})}, "Option")
    return Enum(o.discr, {}, "Option")


def m_opt_flatten(eng, ctx, f, path, args, dty):
    o = _opt(eng, ctx, args[0])
    if 1 not in o.v:
        return none()
    inner = _payload(o)
    return Fork([(discr_is(o, 1), inner), (z3.Not(discr_is(o, 1)), none())])


def m_opt_unwrap_unchecked(eng, ctx, f, path, args, dty):
    return _payload(_opt(eng, ctx, args[0]))


def m_bool_then(eng, ctx, f, path, args, dty):
    b = eng.as_bool(args[0])

    def script(c):
        t = yield ("branch", b)
        if not t:
            return none()
        r = yield from call_fn(eng, c, args[1], [])
        return some(r)
    return Script(script)


def m_bool_then_some(eng, ctx, f, path, args, dty):
    b = eng.as_bool(args[0])
    return Fork([(b, some(args[1])), (z3.Not(b), none())])


def m_res_unwrap_or(eng, ctx, f, path, args, dty):
    r = _opt(eng, ctx, args[0])
    return _ite_val(eng, ctx, discr_is(r, 0), _payload(r, 0) if 0 in r.v else args[1], args[1])


def m_res_is_ok_and(eng, ctx, f, path, args, dty):
    r = _opt(eng, ctx, args[0])

    def script(c):
        good = yield ("branch", discr_is(r, 0))
        if not good:
            return z3.BoolVal(False)
        x = yield from call_fn(eng, c, args[1], [_payload(r, 0)])
        return x
    return Script(script)


def m_res_unwrap_or_default(eng, ctx, f, path, args, dty):
    r = _opt(eng, ctx, args[0])
    d = default_of(dty)
    return _ite_val(eng, ctx, discr_is(r, 0), _payload(r, 0) if 0 in r.v else d, d)


def m_res_unwrap_err(eng, ctx, f, path, args, dty):
    r = _opt(eng, ctx, args[0])
    return Fork([(discr_is(r, 1), lambda c: _payload(r, 1)), (z3.Not(discr_is(r, 1)), Diverge("panic", "Result::unwrap_err on Ok"))])


# ------------------------------------------------------------------------------------------------ mem / cells / once
def m_mem_swap(eng, ctx, f, path, args, dty):
    a, b = eng.load_ptr(ctx, args[0]), eng.load_ptr(ctx, args[1])
    eng.store_ptr(ctx, args[0], clone(b))
    eng.store_ptr(ctx, args[1], clone(a))
    return UNIT


def m_mem_replace(eng, ctx, f, path, args, dty):
    old = eng.load_ptr(ctx, args[0])
    eng.store_ptr(ctx, args[0], args[1])
    return old


def m_mem_take(eng, ctx, f, path, args, dty):
    old = eng.load_ptr(ctx, args[0])
    eng.store_ptr(ctx, args[0], default_of(dty))
    return old


def m_cell_get(eng, ctx, f, path, args, dty):
    return clone(eng.load_ptr(ctx, args[0]))


def m_cell_set(eng, ctx, f, path, args, dty):
    eng.store_ptr(ctx, args[0], args[1])
    return UNIT


def m_once_get(eng, ctx, f, path, args, dty):
    p = args[0]
    o = _opt(eng, ctx, p)
    return Enum(o.discr, {1: Agg({0: Ptr(p.root, p.path + (("variant", "Some"), 0))})}, "Option")


def m_once_get_or_init(eng, ctx, f, path, args, dty):
    p = args[0]
    o = _opt(eng, ctx, p)

    def script(c):
        is_some = yield ("branch", discr_is(o, 1))
        if not is_some:
            v = yield from call_fn(eng, c, args[1], [])
            yield ("effect", lambda c_: eng.store_ptr(c_, p, some(v)))
        return Ptr(p.root, p.path + (("variant", "Some"), 0))
    return Script(script)


def m_once_set(eng, ctx, f, path, args, dty):
    p = args[0]
    o = _opt(eng, ctx, p)

    def fresh(c):
        eng.store_ptr(c, p, some(args[1]))
        return ok(UNIT)
    return Fork([(discr_is(o, 1), err(args[1])), (z3.Not(discr_is(o, 1)), fresh)])


def m_once_take(eng, ctx, f, path, args, dty):
    old = eng.load_ptr(ctx, args[0])
    eng.store_ptr(ctx, args[0], none())
    return old


# ------------------------------------------------------------------------------------------------ Vec / slice / VecDeque
def the_vec(eng, ctx, p):
    v = load(eng, ctx, p)
    if isinstance(v, Native) and v.kind == "lvec":
        return v
    if isinstance(v, Native) and v.kind == "strvec":
        return MS.lvec(v.data)
    raise Unsupported(f"Vec/slice expected, got {v}")


def _set_vec(eng, ctx, p, elems):
    while isinstance(p, Ptr):
        q = eng.load_ptr(ctx, p)
        if isinstance(q, Ptr):
            p = q
        else:
            break
    eng.store_ptr(ctx, p, MS.lvec(tuple(elems)))


def elem_ptr(eng, ctx, p, i):
    """pointer to element i of the vector that `p` designates (through any number of references)"""
    while isinstance(p, Ptr):
        q = eng.load_ptr(ctx, p)
        if isinstance(q, Ptr):
            p = q
        else:
            break
    if not isinstance(p, Ptr):
        raise Unsupported("element reference into a vector that is not held in a place")
    return Ptr(p.root, p.path + (("idx", bv(i)),))


def m_vec_new(eng, ctx, f, path, args, dty):
    return MS.lvec(())


def m_vec_push(eng, ctx, f, path, args, dty):
    v = the_vec(eng, ctx, args[0])
    _set_vec(eng, ctx, args[0], v.data + (args[1],))
    return UNIT


def m_vec_push_front(eng, ctx, f, path, args, dty):
    v = the_vec(eng, ctx, args[0])
    _set_vec(eng, ctx, args[0], (args[1],) + v.data)
    return UNIT


def m_vec_pop(eng, ctx, f, path, args, dty):
    v = the_vec(eng, ctx, args[0])
    if not v.data:
        return none()
    _set_vec(eng, ctx, args[0], v.data[:-1])
    return some(v.data[-1])


def m_vec_pop_front(eng, ctx, f, path, args, dty):
    v = the_vec(eng, ctx, args[0])
    if not v.data:
        return none()
    _set_vec(eng, ctx, args[0], v.data[1:])
    return some(v.data[0])


def m_vec_len(eng, ctx, f, path, args, dty):
    n = len(the_vec(eng, ctx, args[0]).data)
    return z3.IntVal(n) if eng.int_mode else bv(n)


def m_vec_is_empty(eng, ctx, f, path, args, dty):
    return z3.BoolVal(len(the_vec(eng, ctx, args[0]).data) == 0)


def m_vec_clear(eng, ctx, f, path, args, dty):
    the_vec(eng, ctx, args[0])
    _set_vec(eng, ctx, args[0], ())
    return UNIT


def _index_alts(eng, ctx, idx, n, on_i, on_oob):
    """fork over the value of a (possibly symbolic) index into a vector of concrete length n"""
    if is_concrete(idx):
        i = concrete(idx)
        return on_i(ctx, i) if 0 <= i < n else on_oob(ctx)
    alts = []
    for i in range(n):
        alts.append((idx == (z3.IntVal(i) if z3.is_int(idx) else bv(i, idx.size())), (lambda c, i=i: on_i(c, i))))
    inb = (z3.And(idx >= 0, idx < n) if z3.is_int(idx) else z3.ULT(idx, bv(n, idx.size())))
    alts.append((z3.Not(inb), on_oob))
    return Fork(alts)


def m_vec_get(eng, ctx, f, path, args, dty):
    v = the_vec(eng, ctx, args[0])
    by_ptr = isinstance(args[0], Ptr)
    return _index_alts(eng, ctx, args[1], len(v.data), lambda c, i: some(elem_ptr(eng, c, args[0], i) if by_ptr else v.data[i]), lambda c: none())


def m_vec_index(eng, ctx, f, path, args, dty):
    v = the_vec(eng, ctx, args[0])
    return _index_alts(eng, ctx, args[1], len(v.data), lambda c, i: elem_ptr(eng, c, args[0], i), lambda c: Diverge("panic", "index out of bounds"))


def m_vec_first(eng, ctx, f, path, args, dty):
    v = the_vec(eng, ctx, args[0])
    return some(elem_ptr(eng, ctx, args[0], 0)) if v.data else none()


def m_vec_last(eng, ctx, f, path, args, dty):
    v = the_vec(eng, ctx, args[0])
    return some(elem_ptr(eng, ctx, args[0], len(v.data) - 1)) if v.data else none()


def m_vec_insert(eng, ctx, f, path, args, dty):
    v = the_vec(eng, ctx, args[0])

    def at(c, i):
        _set_vec(eng, c, args[0], v.data[:i] + (args[2],) + v.data[i:])
        return UNIT
    n = len(v.data)
    return _index_alts(eng, ctx, args[1], n + 1, at, lambda c: Diverge("panic", "insertion index out of bounds"))


def m_vec_remove(eng, ctx, f, path, args, dty):
    v = the_vec(eng, ctx, args[0])

    def at(c, i):
        _set_vec(eng, c, args[0], v.data[:i] + v.data[i + 1:])
        return v.data[i]
    return _index_alts(eng, ctx, args[1], len(v.data), at, lambda c: Diverge("panic", "removal index out of bounds"))


def m_deque_remove(eng, ctx, f, path, args, dty):
    v = the_vec(eng, ctx, args[0])

    def at(c, i):
        _set_vec(eng, c, args[0], v.data[:i] + v.data[i + 1:])
        return some(v.data[i])
    return _index_alts(eng, ctx, args[1], len(v.data), at, lambda c: none())


def m_vec_swap_remove(eng, ctx, f, path, args, dty):
    v = the_vec(eng, ctx, args[0])

    def at(c, i):
        d = list(v.data)
        x = d[i]
        d[i] = d[-1]
        d.pop()
        _set_vec(eng, c, args[0], d)
        return x
    return _index_alts(eng, ctx, args[1], len(v.data), at, lambda c: Diverge("panic", "swap_remove index out of bounds"))


def m_vec_truncate(eng, ctx, f, path, args, dty):
    v = the_vec(eng, ctx, args[0])

    def at(c, i):
        _set_vec(eng, c, args[0], v.data[:i])
        return UNIT
    return _index_alts(eng, ctx, args[1], len(v.data) + 1, at, lambda c: UNIT)


def m_vec_contains(eng, ctx, f, path, args, dty):
    v = the_vec(eng, ctx, args[0])
    return z3.Or(*[generic_eq(eng, ctx, x, args[1]) for x in v.data]) if v.data else z3.BoolVal(False)


def m_vec_iter(eng, ctx, f, path, args, dty):
    """iter()/iter_mut()/(&v).into_iter(): pointers to the elements"""
    v = the_vec(eng, ctx, args[0])
    if not isinstance(_strip(eng, ctx, args[0]), Ptr):
        # a slice value that is not held in a place (handed over by a model): read-only element cells
        return Native("liter", (tuple(Ptr(("static", MC.new_cell(ctx, x, "elem"))) for x in v.data), 0))
    return Native("liter", (tuple(elem_ptr(eng, ctx, args[0], i) for i in range(len(v.data))), 0))


def m_vec_into_iter(eng, ctx, f, path, args, dty):
    a = args[0]
    if isinstance(a, Native) and a.kind in ("liter", "iterchain", "chars", "sliceiter", "range"):
        return a
    if isinstance(a, Ptr):
        w = load(eng, ctx, a)
        if isinstance(w, Native) and w.kind == "kmap":
            return MC.m_into_iter(eng, ctx, f, path, args, dty)
        return m_vec_iter(eng, ctx, f, path, args, dty)
    if isinstance(a, Native) and a.kind == "kmap":
        return MC.m_into_iter(eng, ctx, f, path, args, dty)
    if isinstance(a, Enum) and a.name == "Option":
        return Native("optiter", a)
    v = the_vec(eng, ctx, a)
    if path.strip().startswith("<&"):
        # iteration by reference over a slice value that is not held in a place: read-only element cells
        return Native("liter", (tuple(Ptr(("static", MC.new_cell(ctx, x, "elem"))) for x in v.data), 0))
    return Native("liter", (v.data, 0))


def m_vec_drain(eng, ctx, f, path, args, dty):
    v = the_vec(eng, ctx, args[0])
    rng = args[1]
    lo, hi = 0, len(v.data)
    if isinstance(rng, Agg) and rng.f:
        if 0 in rng.f and 1 in rng.f:
            lo_t, hi_t = rng.f[0], rng.f[1]
        elif "RangeTo" in path:
            lo_t, hi_t = bv(0), rng.f[0]
        elif "RangeFrom" in path:
            lo_t, hi_t = rng.f[0], bv(hi)
        else:
            raise Unsupported(f"drain range {rng}")
        if not (is_concrete(lo_t) and is_concrete(hi_t)):
            n = len(v.data)
            alts = []
            for a in range(n + 1):
                for b in range(a, n + 1):
                    def do(c, a=a, b=b):
                        _set_vec(eng, c, args[0], v.data[:a] + v.data[b:])
                        return Native("liter", (v.data[a:b], 0))
                    alts.append((z3.And(lo_t == _num(lo_t, a), hi_t == _num(hi_t, b)), do))
            bad = z3.Or(_gt(lo_t, hi_t), _gt(hi_t, _num(hi_t, n)))
            alts.append((bad, Diverge("panic", "drain range out of bounds")))
            return Fork(alts)
        lo, hi = concrete(lo_t), concrete(hi_t)
        if lo > hi or hi > len(v.data):
            return Diverge("panic", "drain range out of bounds")
    _set_vec(eng, ctx, args[0], v.data[:lo] + v.data[hi:])
    return Native("liter", (v.data[lo:hi], 0))


def _num(like, n):
    return z3.IntVal(n) if z3.is_int(like) else bv(n, like.size())


def _gt(a, b):
    return a > b if z3.is_int(a) else z3.UGT(a, b)


def m_vec_extend(eng, ctx, f, path, args, dty):
    v = the_vec(eng, ctx, args[0])

    def script(c):
        items = yield from iter_items(eng, c, args[1])
        yield ("effect", lambda c_: _set_vec(eng, c_, args[0], the_vec(eng, c_, args[0]).data + tuple(items)))
        return UNIT
    return Script(script)


def m_vec_retain(eng, ctx, f, path, args, dty):
    v = the_vec(eng, ctx, args[0])

    def script(c):
        kept = []
        for i, x in enumerate(v.data):
            cell = yield ("effect", lambda c_, x=x: MC.new_cell(c_, x, "retain"))
            r = yield from call_fn(eng, c, args[1], [Ptr(("static", cell))])
            k = yield ("branch", eng.as_bool(r))
            if k:
                cur = yield ("effect", lambda c_, cell=cell: c_.statics[cell])
                kept.append(cur)
        yield ("effect", lambda c_: _set_vec(eng, c_, args[0], kept))
        return UNIT
    return Script(script)


def m_vec_clone(eng, ctx, f, path, args, dty):
    return clone(the_vec(eng, ctx, args[0]))


def m_slice_to_vec(eng, ctx, f, path, args, dty):
    return clone(the_vec(eng, ctx, args[0]))


def m_vec_deref(eng, ctx, f, path, args, dty):
    a = args[0]
    while isinstance(a, Ptr):
        q = eng.load_ptr(ctx, a)
        if isinstance(q, Ptr):
            a = q
        else:
            break
    return a


def m_partition_point(eng, ctx, f, path, args, dty):
    """std's binary search, step for step (size halving), so that an unpartitioned slice gives what the real code gives"""
    v = the_vec(eng, ctx, args[0])
    n = len(v.data)

    def script(c):
        # core::slice::binary_search_by (1.74 .. nightly): while size > 1 { half = size/2; mid = base+half; base = if pred(mid) {mid} else {base}; size -= half }
        if n == 0:
            return _num(bv(0), 0) if not eng.int_mode else z3.IntVal(0)
        base, size = 0, n
        while size > 1:
            half = size // 2
            mid = base + half
            r = yield from call_fn(eng, c, args[1], [elem_ptr(eng, c, args[0], mid)])
            t = yield ("branch", eng.as_bool(r))
            if t:
                base = mid
            size -= half
        r = yield from call_fn(eng, c, args[1], [elem_ptr(eng, c, args[0], base)])
        t = yield ("branch", eng.as_bool(r))
        res = base + (1 if t else 0)
        return z3.IntVal(res) if eng.int_mode else bv(res)
    return Script(script)


def m_binary_search_by(eng, ctx, f, path, args, dty):
    v = the_vec(eng, ctx, args[0])
    n = len(v.data)

    def script(c):
        mk = (lambda k: z3.IntVal(k)) if eng.int_mode else (lambda k: bv(k))
        if n == 0:
            return err(mk(0))
        base, size = 0, n
        while size > 1:
            half = size // 2
            mid = base + half
            r = yield from call_fn(eng, c, args[1], [elem_ptr(eng, c, args[0], mid)])
            gt = yield ("branch", dterm(r.discr) == bv(1))
            if not gt:
                base = mid
            size -= half
        r = yield from call_fn(eng, c, args[1], [elem_ptr(eng, c, args[0], base)])
        eq = yield ("branch", dterm(r.discr) == bv(0))
        if eq:
            return ok(mk(base))
        lt = yield ("branch", dterm(r.discr) == bv(LESS))
        return err(mk(base + (1 if lt else 0)))
    return Script(script)


def _stable_sort(eng, c, elems, less_fn):
    """insertion sort driven by a comparison script: returns the permutation (stable, like slice::sort*)"""
    order = []
    for i in range(len(elems)):
        pos = len(order)
        for j in range(len(order)):
            less = yield from less_fn(i, order[j])
            if less:
                pos = j
                break
        order.insert(pos, i)
    return order


def m_sort_by(eng, ctx, f, path, args, dty):
    v = the_vec(eng, ctx, args[0])
    elems = list(v.data)

    def script(c):
        cells = yield ("effect", lambda c_: [MC.new_cell(c_, x, "sortelem") for x in elems])

        def less_fn(i, j):
            r = yield from call_fn(eng, c, args[1], [Ptr(("static", cells[i])), Ptr(("static", cells[j]))])
            t = yield ("branch", dterm(r.discr) == bv(LESS))
            return t
        order = yield from _stable_sort(eng, c, elems, less_fn)
        yield ("effect", lambda c_: _set_vec(eng, c_, args[0], [elems[i] for i in order]))
        return UNIT
    return Script(script)


def m_sort_by_key(eng, ctx, f, path, args, dty):
    v = the_vec(eng, ctx, args[0])
    elems = list(v.data)

    def script(c):
        cells = yield ("effect", lambda c_: [MC.new_cell(c_, x, "sortelem") for x in elems])
        keys = []
        for i in range(len(elems)):
            k = yield from call_fn(eng, c, args[1], [Ptr(("static", cells[i]))])
            keys.append(k)

        def less_fn(i, j):
            lt, eq = lt_eq(eng, c, keys[i], keys[j], "")
            t = yield ("branch", lt)
            return t
        order = yield from _stable_sort(eng, c, elems, less_fn)
        yield ("effect", lambda c_: _set_vec(eng, c_, args[0], [elems[i] for i in order]))
        return UNIT
    return Script(script)


def m_sort(eng, ctx, f, path, args, dty):
    v = the_vec(eng, ctx, args[0])
    elems = list(v.data)
    m = re.search(r"impl \[(.*)\]>", path, re.S)
    ety = m.group(1) if m else ""

    def script(c):
        def less_fn(i, j):
            lt, eq = lt_eq(eng, c, elems[i], elems[j], ety)
            t = yield ("branch", lt)
            return t
        order = yield from _stable_sort(eng, c, elems, less_fn)
        yield ("effect", lambda c_: _set_vec(eng, c_, args[0], [elems[i] for i in order]))
        return UNIT
    return Script(script)


def m_dedup(eng, ctx, f, path, args, dty):
    v = the_vec(eng, ctx, args[0])

    def script(c):
        out = []
        for x in v.data:
            if out:
                same = yield ("branch", generic_eq(eng, c, out[-1], x))
                if same:
                    continue
            out.append(x)
        yield ("effect", lambda c_: _set_vec(eng, c_, args[0], out))
        return UNIT
    return Script(script)


def m_slice_reverse(eng, ctx, f, path, args, dty):
    v = the_vec(eng, ctx, args[0])
    _set_vec(eng, ctx, args[0], tuple(reversed(v.data)))
    return UNIT


# ------------------------------------------------------------------------------------------------ iterators
def iter_items(eng, c, it):
    """generator: the remaining items of an iterator value (adaptor closures are executed as real code, in order).
    The iterator is read through an effect: a model script is re-played after every fork or call, and a later write-back of
    the remainder (find, nth, ...) must not change what the re-play reads here."""
    it0 = it
    it = yield ("effect", lambda c_: load(eng, c_, it0))
    if isinstance(it, Native) and it.kind in ("liter", "sliceiter"):
        return list(it.data[0][it.data[1]:])
    if isinstance(it, Native) and it.kind == "lvec":
        return list(it.data)
    if isinstance(it, Native) and it.kind == "strvec":
        return list(it.data)
    if isinstance(it, Native) and it.kind == "kmap":
        els = yield ("effect", lambda c_: list(MC.elements(eng, c_, it, False)))
        return els
    if isinstance(it, Native) and it.kind == "chars":
        items, pos = it.data[0], it.data[1] if len(it.data) > 1 else 0
        return list(items[pos:])
    if isinstance(it, Native) and it.kind == "optiter":
        o = it.data
        if isinstance(o.discr, int):
            return [_payload(o)] if o.discr == 1 else []
        t = yield ("branch", discr_is(o, 1))
        return [_payload(o)] if t else []
    if isinstance(it, Native) and it.kind == "range":
        lo, hi = it.data
        if not (is_concrete(lo) and is_concrete(hi)):
            raise Unsupported("iteration over a symbolic range in an adaptor chain")
        mk = (lambda k: z3.IntVal(k)) if z3.is_int(lo) else (lambda k: bv(k, lo.size()))
        return [mk(k) for k in range(concrete(lo), concrete(hi))]
    if isinstance(it, Agg) and set(it.f) == {0, 1} and all(z3.is_expr(x) for x in it.f.values()):
        lo, hi = it.f[0], it.f[1]
        if not (is_concrete(lo) and is_concrete(hi)):
            raise Unsupported("iteration over a symbolic range in an adaptor chain")
        mk = (lambda k: z3.IntVal(k)) if z3.is_int(lo) else (lambda k: bv(k, lo.size()))
        return [mk(k) for k in range(concrete(lo), concrete(hi))]
    if isinstance(it, Native) and it.kind == "iterchain":
        kind = it.data[0]
        inner = yield from iter_items(eng, c, it.data[1])
        fn = it.data[2] if len(it.data) > 2 else None
        if kind == "map":
            out = []
            for x in inner:
                r = yield from call_fn(eng, c, fn, [x])
                out.append(r)
            return out
        if kind == "filter":
            out = []
            for x in inner:
                cell = yield ("effect", lambda c_, x=x: MC.new_cell(c_, x, "filt"))
                r = yield from call_fn(eng, c, fn, [Ptr(("static", cell))])
                k = yield ("branch", eng.as_bool(r))
                if k:
                    out.append(x)
            return out
        if kind == "filter_map":
            out = []
            for x in inner:
                r = yield from call_fn(eng, c, fn, [x])
                k = yield ("branch", discr_is(r, 1))
                if k:
                    out.append(_payload(r))
            return out
        if kind == "take":
            if not is_concrete(fn):
                n = len(inner)
                for k in range(n):
                    t = yield ("branch", fn == _num(fn, k))
                    if t:
                        return inner[:k]
                return inner
            return inner[:concrete(fn)]
        if kind == "skip":
            if not is_concrete(fn):
                n = len(inner)
                for k in range(n):
                    t = yield ("branch", fn == _num(fn, k))
                    if t:
                        return inner[k:]
                return []
            return inner[concrete(fn):]
        if kind == "take_while":
            out = []
            for x in inner:
                cell = yield ("effect", lambda c_, x=x: MC.new_cell(c_, x, "tw"))
                r = yield from call_fn(eng, c, fn, [Ptr(("static", cell))])
                k = yield ("branch", eng.as_bool(r))
                if not k:
                    break
                out.append(x)
            return out
        if kind == "skip_while":
            out = []
            skipping = True
            for x in inner:
                if skipping:
                    cell = yield ("effect", lambda c_, x=x: MC.new_cell(c_, x, "sw"))
                    r = yield from call_fn(eng, c, fn, [Ptr(("static", cell))])
                    k = yield ("branch", eng.as_bool(r))
                    if k:
                        continue
                    skipping = False
                out.append(x)
            return out
        if kind in ("cloned", "copied"):
            return [clone(load(eng, c, x)) for x in inner]
        if kind == "enumerate":
            mk = (lambda k: z3.IntVal(k)) if eng.int_mode else (lambda k: bv(k))
            return [Agg({0: mk(i), 1: x}) for i, x in enumerate(inner)]
        if kind == "rev":
            return list(reversed(inner))
        if kind == "chain":
            other = yield from iter_items(eng, c, fn)
            return inner + other
        if kind == "zip":
            other = yield from iter_items(eng, c, fn)
            return [Agg({0: x, 1: y}) for x, y in zip(inner, other)]
        if kind == "flatten":
            out = []
            for x in inner:
                sub = yield from iter_items(eng, c, x)
                out.extend(sub)
            return out
        if kind == "flat_map":
            out = []
            for x in inner:
                r = yield from call_fn(eng, c, fn, [x])
                sub = yield from iter_items(eng, c, r)
                out.extend(sub)
            return out
        if kind == "inspect":
            return inner
        if kind == "keys":
            return [x.f[0] for x in inner]
        if kind == "values":
            return [x.f[1] for x in inner]
        if kind == "peekable":
            return inner
        raise Unsupported(f"iterator adaptor {kind}")
    if isinstance(it, Enum) and it.name == "Option":
        if isinstance(it.discr, int):
            return [_payload(it)] if it.discr == 1 else []
        t = yield ("branch", discr_is(it, 1))
        return [_payload(it)] if t else []
    raise Unsupported(f"iteration over {it}")


def _adaptor(kind, nargs=1):
    def h(eng, ctx, f, path, args, dty):
        return Native("iterchain", (kind, args[0]) + tuple(args[1:1 + nargs]))
    return h


def m_iter_next(eng, ctx, f, path, args, dty):
    p = args[0]
    it = eng.load_ptr(ctx, p) if isinstance(p, Ptr) else p
    if isinstance(it, Native) and it.kind in ("liter", "sliceiter"):
        items, pos = it.data
        if pos >= len(items):
            return none()
        eng.store_ptr(ctx, p, Native(it.kind, (items, pos + 1)))
        return some(items[pos])
    if isinstance(it, Native) and it.kind == "chars":
        return MS.m_chars_next(eng, ctx, f, path, args, dty)

    def script(c):
        items = yield from iter_items(eng, c, it)
        yield ("effect", lambda c_: eng.store_ptr(c_, p, Native("liter", (tuple(items[1:]), 0))))
        return some(items[0]) if items else none()
    return Script(script)


def m_iter_next_back(eng, ctx, f, path, args, dty):
    p = args[0]
    it = eng.load_ptr(ctx, p)

    def script(c):
        items = yield from iter_items(eng, c, it)
        yield ("effect", lambda c_: eng.store_ptr(c_, p, Native("liter", (tuple(items[:-1]), 0))))
        return some(items[-1]) if items else none()
    return Script(script)


def m_iter_collect(eng, ctx, f, path, args, dty):
    target = path.split("collect")[-1]
    tb = base_name(dty or "") if dty else ""

    def script(c):
        items = yield from iter_items(eng, c, args[0])
        if "String" in target and "Vec" not in target and "Map" not in target:
            out = []
            for x in items:
                x = load(eng, c, x)
                if isinstance(x, Native) and x.kind == "sstr":
                    out.extend(x.data)
                else:
                    out.append(x)
            return MS.sstr(tuple(out))
        if re.search(r"(HashMap|IndexMap|BTreeMap)", target) or tb in ("HashMap", "IndexMap", "BTreeMap"):
            mcell = yield ("effect", lambda c_: MC.new_cell(c_, MC.kmap(), "collectmap"))
            for x in items:
                if not isinstance(x, Agg):
                    raise Unsupported(f"collect into a map of {x}")
                key, val = x.f[0], x.f[1]
                m = yield ("effect", lambda c_: c_.statics[mcell])
                hit = None
                for i, (ek, cell) in enumerate(m.data):
                    same = yield ("branch", generic_eq(eng, c, ek, key))
                    if same:
                        hit = cell
                        break
                if hit is not None:
                    yield ("effect", lambda c_, hit=hit, val=val: c_.statics.__setitem__(hit, val))
                else:
                    yield ("effect", lambda c_, key=key, val=val: c_.statics.__setitem__(mcell, MC.kmap(c_.statics[mcell].data + ((key, MC.new_cell(c_, val)),))))
            m = yield ("effect", lambda c_: c_.statics[mcell])
            return m
        if re.search(r"(HashSet|BTreeSet|IndexSet)", target):
            raise Unsupported("collect into a set")
        if all(isinstance(v, Native) and v.kind == "sstr" for v in items) and items and "String" in target:
            return Native("strvec", tuple(items))
        return MS.lvec(tuple(items))
    return Script(script)


def _fold_script(eng, args, init, step, finish=lambda acc: acc):
    def script(c):
        items = yield from iter_items(eng, c, args[0])
        acc = init
        for x in items:
            acc = yield from step(c, acc, x)
            if isinstance(acc, tuple) and acc and acc[0] == "__break__":
                return acc[1]
        return finish(acc)
    return Script(script)


def m_iter_count(eng, ctx, f, path, args, dty):
    def script(c):
        items = yield from iter_items(eng, c, args[0])
        return z3.IntVal(len(items)) if eng.int_mode else bv(len(items))
    return Script(script)


def m_iter_last(eng, ctx, f, path, args, dty):
    def script(c):
        items = yield from iter_items(eng, c, args[0])
        return some(items[-1]) if items else none()
    return Script(script)


def m_iter_nth(eng, ctx, f, path, args, dty):
    p = args[0]

    def script(c):
        items = yield from iter_items(eng, c, p)
        n = args[1]
        if not is_concrete(n):
            raise Unsupported("Iterator::nth with a symbolic index")
        k = concrete(n)
        yield ("effect", lambda c_: eng.store_ptr(c_, p, Native("liter", (tuple(items[k + 1:]), 0))))
        return some(items[k]) if k < len(items) else none()
    return Script(script)


def m_iter_any(eng, ctx, f, path, args, dty):
    p = args[0]

    def script(c):
        items = yield from iter_items(eng, c, p)
        for x in items:
            r = yield from call_fn(eng, c, args[1], [x])
            t = yield ("branch", eng.as_bool(r))
            if t:
                return z3.BoolVal(True)
        return z3.BoolVal(False)
    return Script(script)


def m_iter_all(eng, ctx, f, path, args, dty):
    p = args[0]

    def script(c):
        items = yield from iter_items(eng, c, p)
        for x in items:
            r = yield from call_fn(eng, c, args[1], [x])
            t = yield ("branch", eng.as_bool(r))
            if not t:
                return z3.BoolVal(False)
        return z3.BoolVal(True)
    return Script(script)


def m_iter_find(eng, ctx, f, path, args, dty):
    p = args[0]

    def script(c):
        items = yield from iter_items(eng, c, p)
        for i, x in enumerate(items):
            cell = yield ("effect", lambda c_, x=x: MC.new_cell(c_, x, "find"))
            r = yield from call_fn(eng, c, args[1], [Ptr(("static", cell))])
            t = yield ("branch", eng.as_bool(r))
            if t:
                if isinstance(p, Ptr):
                    yield ("effect", lambda c_, i=i: eng.store_ptr(c_, p, Native("liter", (tuple(items[i + 1:]), 0))))
                return some(x)
        if isinstance(p, Ptr):
            yield ("effect", lambda c_: eng.store_ptr(c_, p, Native("liter", ((), 0))))
        return none()
    return Script(script)


def m_iter_find_map(eng, ctx, f, path, args, dty):
    p = args[0]

    def script(c):
        items = yield from iter_items(eng, c, p)
        for x in items:
            r = yield from call_fn(eng, c, args[1], [x])
            t = yield ("branch", discr_is(r, 1))
            if t:
                return r
        return none()
    return Script(script)


def m_iter_position(eng, ctx, f, path, args, dty):
    p = args[0]

    def script(c):
        items = yield from iter_items(eng, c, p)
        for i, x in enumerate(items):
            r = yield from call_fn(eng, c, args[1], [x])
            t = yield ("branch", eng.as_bool(r))
            if t:
                return some(z3.IntVal(i) if eng.int_mode else bv(i))
        return none()
    return Script(script)


def m_iter_fold(eng, ctx, f, path, args, dty):
    def script(c):
        items = yield from iter_items(eng, c, args[0])
        acc = args[1]
        for x in items:
            acc = yield from call_fn(eng, c, args[2], [acc, x])
        return acc
    return Script(script)


def m_iter_for_each(eng, ctx, f, path, args, dty):
    def script(c):
        items = yield from iter_items(eng, c, args[0])
        for x in items:
            yield from call_fn(eng, c, args[1], [x])
        return UNIT
    return Script(script)


def m_iter_sum(eng, ctx, f, path, args, dty):
    def script(c):
        items = yield from iter_items(eng, c, args[0])
        items = [load(eng, c, x) for x in items]
        if not items:
            return default_of(dty)
        if any(not z3.is_expr(x) for x in items):
            raise Unsupported("sum of non-scalars")
        if base_name(dty or "") in ("f64", "f32"):
            raise Unsupported("floating-point sum")
        acc = items[0]
        for x in items[1:]:
            if z3.is_bv(acc):
                ovf = z3.ULT(acc + x, acc)
                t = yield ("branch", ovf)
                if t:
                    return Diverge("panic", "attempt to add with overflow (Iterator::sum)")
            acc = acc + x
        return acc
    return Script(script)


def _minmax(want_max, with_key):
    def h(eng, ctx, f, path, args, dty):
        def script(c):
            items = yield from iter_items(eng, c, args[0])
            if not items:
                return none()
            keys = []
            for x in items:
                if with_key:
                    cell = yield ("effect", lambda c_, x=x: MC.new_cell(c_, x, "mk"))
                    k = yield from call_fn(eng, c, args[1], [Ptr(("static", cell))])
                else:
                    k = x
                keys.append(k)
            best = 0
            for i in range(1, len(items)):
                lt, eq = lt_eq(eng, c, keys[best], keys[i], "")
                # max: last maximal element; min: first minimal element (std contract)
                cond = z3.Or(lt, eq) if want_max else z3.And(z3.Not(lt), z3.Not(eq))
                t = yield ("branch", cond)
                if t:
                    best = i
            return some(items[best])
        return Script(script)
    return h


def m_iter_size_hint(eng, ctx, f, path, args, dty):
    it = load(eng, ctx, args[0])
    if isinstance(it, Native) and it.kind in ("liter", "sliceiter"):
        n = len(it.data[0]) - it.data[1]
        k = z3.IntVal(n) if eng.int_mode else bv(n)
        return Agg({0: k, 1: some(k)})
    return Agg({0: (z3.IntVal(0) if eng.int_mode else bv(0)), 1: none()})


def m_iter_len(eng, ctx, f, path, args, dty):
    it = load(eng, ctx, args[0])
    if isinstance(it, Native) and it.kind in ("liter", "sliceiter"):
        n = len(it.data[0]) - it.data[1]
        return z3.IntVal(n) if eng.int_mode else bv(n)
    raise Unsupported(f"ExactSizeIterator::len of {it}")


def m_peek(eng, ctx, f, path, args, dty):
    p = args[0]

    def script(c):
        items = yield from iter_items(eng, c, p)
        yield ("effect", lambda c_: eng.store_ptr(c_, p, Native("liter", (tuple(items), 0))))
        if not items:
            return none()
        cell = yield ("effect", lambda c_: MC.new_cell(c_, items[0], "peek"))
        return some(Ptr(("static", cell)))
    return Script(script)


# ------------------------------------------------------------------------------------------------ maps (beyond models_coll)
def m_map_keys(eng, ctx, f, path, args, dty):
    m = MC.the_map(eng, ctx, args[0])
    return Native("liter", (tuple(k for k, cell in m.data), 0))


def m_map_values(eng, ctx, f, path, args, dty):
    m = MC.the_map(eng, ctx, args[0])
    return Native("liter", (tuple(Ptr(("static", cell)) for k, cell in m.data), 0))


def m_map_into_values(eng, ctx, f, path, args, dty):
    m = MC.the_map(eng, ctx, args[0])
    return Native("liter", (tuple(ctx.statics[cell] for k, cell in m.data), 0))


def m_map_clear(eng, ctx, f, path, args, dty):
    MC.the_map(eng, ctx, args[0])
    eng.store_ptr(ctx, _strip(eng, ctx, args[0]), MC.kmap())
    return UNIT


def _strip(eng, ctx, p):
    while isinstance(p, Ptr):
        q = eng.load_ptr(ctx, p)
        if isinstance(q, Ptr):
            p = q
        else:
            break
    return p


def m_map_retain(eng, ctx, f, path, args, dty):
    m = MC.the_map(eng, ctx, args[0])
    tgt = _strip(eng, ctx, args[0])

    def script(c):
        kept = []
        for k, cell in m.data:
            kc = yield ("effect", lambda c_, k=k: MC.new_cell(c_, k, "rk"))
            r = yield from call_fn(eng, c, args[1], [Ptr(("static", kc)), Ptr(("static", cell))])
            t = yield ("branch", eng.as_bool(r))
            if t:
                kept.append((k, cell))
        yield ("effect", lambda c_: eng.store_ptr(c_, tgt, MC.kmap(tuple(kept))))
        return UNIT
    return Script(script)


def m_map_drain(eng, ctx, f, path, args, dty):
    m = MC.the_map(eng, ctx, args[0])
    eng.store_ptr(ctx, _strip(eng, ctx, args[0]), MC.kmap())
    return Native("liter", (MC.elements(eng, ctx, m, False), 0))


def m_entry_or_default(eng, ctx, f, path, args, dty):
    ent = args[0]
    if not (isinstance(ent, Native) and ent.kind == "entry"):
        raise Unsupported(f"or_default on {ent}")
    mp, key = ent.data
    m = MC.the_map(eng, ctx, mp)
    vt = re.search(r"Entry::<'_, (.*)>::or_default", path, re.S)
    vty = None
    if vt:
        from .parse import split_top
        parts = split_top(vt.group(1))
        vty = parts[1].strip() if len(parts) >= 2 else None
    if vty is None and dty:
        vty = pointee_type(dty)

    def miss(c):
        cell = MC.new_cell(c, default_of(vty))
        eng.store_ptr(c, _strip(eng, c, mp), MC.kmap(m.data + ((key, cell),)))
        return Ptr(("static", cell))
    return MC._find(eng, ctx, m, key, lambda c, i, cell: Ptr(("static", cell)), miss)


def m_entry_and_modify(eng, ctx, f, path, args, dty):
    ent = args[0]
    mp, key = ent.data
    m = MC.the_map(eng, ctx, mp)

    def script(c):
        for i, (ek, cell) in enumerate(m.data):
            same = yield ("branch", generic_eq(eng, c, ek, key))
            if same:
                yield from call_fn(eng, c, args[1], [Ptr(("static", cell))])
                break
        return ent
    return Script(script)


def m_entry_or_insert_with_key(eng, ctx, f, path, args, dty):
    ent = args[0]
    mp, key = ent.data
    m = MC.the_map(eng, ctx, mp)

    def script(c):
        for i, (ek, cell) in enumerate(m.data):
            same = yield ("branch", generic_eq(eng, c, ek, key))
            if same:
                return Ptr(("static", cell))
        kc = yield ("effect", lambda c_: MC.new_cell(c_, key, "ek"))
        v = yield from call_fn(eng, c, args[1], [Ptr(("static", kc))])
        cell = yield ("effect", lambda c_: MC.new_cell(c_, v))
        yield ("effect", lambda c_: eng.store_ptr(c_, _strip(eng, c_, mp), MC.kmap(MC.the_map(eng, c_, mp).data + ((key, cell),))))
        return Ptr(("static", cell))
    return Script(script)


INTS = r"(u8|u16|u32|u64|u128|usize|i8|i16|i32|i64|i128|isize)"
PRIM = r"(&*(mut )?)*(u8|u16|u32|u64|u128|usize|i8|i16|i32|i64|i128|isize|bool|char|\(\))"
MAPT = r"(\w+::)*(IndexMap|HashMap|BTreeMap)"
VECT = r"(\w+::)*(Vec|VecDeque)"

FALLBACK = {
    # comparison
    r" as PartialEq(<.*>)?>::eq$": m_eq,
    r" as PartialEq(<.*>)?>::ne$": m_ne,
    r" as Ord>::cmp$": m_cmp,
    r" as PartialOrd(<.*>)?>::partial_cmp$": m_partial_cmp,
    r" as PartialOrd(<.*>)?>::lt$": _rel(lambda lt, eq: lt),
    r" as PartialOrd(<.*>)?>::le$": _rel(lambda lt, eq: z3.Or(lt, eq)),
    r" as PartialOrd(<.*>)?>::gt$": _rel(lambda lt, eq: z3.And(z3.Not(lt), z3.Not(eq))),
    r" as PartialOrd(<.*>)?>::ge$": _rel(lambda lt, eq: z3.Not(lt)),
    r"^(std|core)::cmp::max$| as Ord>::max$|(^|::)num::(.*::)?max$": m_max,
    r"^(std|core)::cmp::min$| as Ord>::min$|(^|::)num::(.*::)?min$": m_min,
    r"(cmp::)?Ordering::reverse$": m_ord_reverse,
    r"(cmp::)?Ordering::then$": m_ord_then,
    r"(cmp::)?Ordering::then_with$": m_ord_then_with,
    r"(cmp::)?Ordering::is_eq$": _ord_is(lambda d: d == bv(0)),
    r"(cmp::)?Ordering::is_ne$": _ord_is(lambda d: d != bv(0)),
    r"(cmp::)?Ordering::is_lt$": _ord_is(lambda d: d == bv(LESS)),
    r"(cmp::)?Ordering::is_gt$": _ord_is(lambda d: d == bv(1)),
    r"(cmp::)?Ordering::is_le$": _ord_is(lambda d: d != bv(1)),
    r"(cmp::)?Ordering::is_ge$": _ord_is(lambda d: d != bv(LESS)),
    # integers
    r"(^|::)num::(.*::)?saturating_sub$": m_saturating_sub,
    r"(^|::)num::(.*::)?saturating_add$": m_saturating_add,
    r"(^|::)num::(.*::)?saturating_mul$": m_saturating_mul,
    r"(^|::)num::(.*::)?checked_add$": _checked("add"),
    r"(^|::)num::(.*::)?checked_sub$": _checked("sub"),
    r"(^|::)num::(.*::)?checked_mul$": _checked("mul"),
    r"(^|::)num::(.*::)?wrapping_add$": _wrapping("add"),
    r"(^|::)num::(.*::)?wrapping_sub$": _wrapping("sub"),
    r"(^|::)num::(.*::)?wrapping_mul$": _wrapping("mul"),
    r"(^|::)num::(.*::)?overflowing_add$": _overflowing("add"),
    r"(^|::)num::(.*::)?overflowing_sub$": _overflowing("sub"),
    r"(^|::)num::(.*::)?overflowing_mul$": _overflowing("mul"),
    r"(^|::)num::(.*::)?abs_diff$": m_abs_diff,
    r"(^|::)num::(.*::)?is_power_of_two$": m_is_power_of_two,
    r"(^|::)num::(.*::)?count_ones$": m_count_ones,
    r"(^|::)num::(.*::)?leading_zeros$": m_leading_zeros,
    r"(^|::)num::(.*::)?trailing_zeros$": m_trailing_zeros,
    r"(^|::)num::(.*::)?pow$": m_pow,
    # Option / Result / bool
    r"(^|::)Option::filter$": m_opt_filter,
    r"(^|::)Option::is_some_and$": m_opt_is_some_and,
    r"(^|::)Option::is_none_or$": m_opt_is_none_or,
    r"(^|::)Option::ok_or_else$": m_opt_ok_or_else,
    r"(^|::)Option::map_or_else$": m_opt_map_or_else,
    r"(^|::)Option::unwrap_or_default$": m_opt_unwrap_or_default,
    r"(^|::)Option::get_or_insert_with$": m_opt_get_or_insert_with,
    r"(^|::)Option::insert$": m_opt_insert,
    r"(^|::)Option::xor$": m_opt_xor,
    r"(^|::)Option::and$": m_opt_and,
    r"(^|::)Option::zip$": m_opt_zip,
    r"(^|::)Option::(as_deref|as_deref_mut)$": m_opt_as_deref,
    r"(^|::)Option::flatten$": m_opt_flatten,
    r"(^|::)Option::unwrap_unchecked$": m_opt_unwrap_unchecked,
    r"(^|::)Option::(iter|into_iter)$|^<Option as IntoIterator>::into_iter$": lambda eng, ctx, f, path, args, dty: Native("optiter", _opt(eng, ctx, args[0])),
    r"(^|::)bool::(.*::)?then$": m_bool_then,
    r"(^|::)bool::(.*::)?then_some$": m_bool_then_some,
    r"(^|::)Result::unwrap_or$": m_res_unwrap_or,
    r"(^|::)Result::is_ok_and$": m_res_is_ok_and,
    r"(^|::)Result::unwrap_or_default$": m_res_unwrap_or_default,
    r"(^|::)Result::(unwrap_err|expect_err)$": m_res_unwrap_err,
    r" as Default>::default$": m_default,
    # mem / cells / once
    r"^(std|core)::mem::(drop|forget)$": lambda *a: UNIT,      # (a /repo type with a Drop impl is handled by the engine before the models)
    r"^(std|core)::mem::swap$": m_mem_swap,
    r"^(std|core)::mem::replace$": m_mem_replace,
    r"^(std|core)::mem::take$": m_mem_take,
    r"(^|::)Cell::new$|(^|::)RefCell::new$|(^|::)UnsafeCell::new$": lambda eng, ctx, f, path, args, dty: args[0],
    r"(^|::)Cell::get$": m_cell_get,
    r"(^|::)Cell::set$": m_cell_set,
    r"(^|::)Cell::replace$|(^|::)RefCell::replace$": m_mem_replace,
    r"(^|::)Cell::take$|(^|::)RefCell::take$": m_mem_take,
    r"(^|::)RefCell::(borrow|borrow_mut)$": lambda eng, ctx, f, path, args, dty: args[0],
    r"^<(Ref|RefMut) as Deref(Mut)?>::deref(_mut)?$": lambda eng, ctx, f, path, args, dty: load_one(eng, ctx, args[0]),
    r"(^|::)(OnceLock|OnceCell|once_cell::sync::OnceCell|once_cell::unsync::OnceCell)::new$": lambda *a: none(),
    r"(^|::)(OnceLock|OnceCell)::get$": m_once_get,
    r"(^|::)(OnceLock|OnceCell)::get_or_init$": m_once_get_or_init,
    r"(^|::)(OnceLock|OnceCell)::set$": m_once_set,
    r"(^|::)(OnceLock|OnceCell)::take$": m_once_take,
    # Vec / VecDeque / slices
    r"^" + VECT + r"::(new|with_capacity)$": m_vec_new,
    r"^" + VECT + r"::(push|push_back)$": m_vec_push,
    r"^VecDeque::push_front$": m_vec_push_front,
    r"^" + VECT + r"::(pop|pop_back)$": m_vec_pop,
    r"^VecDeque::pop_front$": m_vec_pop_front,
    r"^" + VECT + r"::len$|^core::slice::(.*::)?len$": m_vec_len,
    r"^" + VECT + r"::is_empty$|^core::slice::(.*::)?is_empty$": m_vec_is_empty,
    r"^" + VECT + r"::clear$": m_vec_clear,
    r"^" + VECT + r"::(get|get_mut)$|^core::slice::(.*::)?(get|get_mut)$": m_vec_get,
    r"^<(Vec|VecDeque|\[.*\]) as Index(Mut)?>::index(_mut)?$": m_vec_index,
    r"^core::slice::(.*::)?(first|first_mut)$|^VecDeque::(front|front_mut)$": m_vec_first,
    r"^core::slice::(.*::)?(last|last_mut)$|^VecDeque::(back|back_mut)$": m_vec_last,
    r"^" + VECT + r"::insert$": m_vec_insert,
    r"^Vec::remove$": m_vec_remove,
    r"^VecDeque::remove$": m_deque_remove,
    r"^Vec::swap_remove$": m_vec_swap_remove,
    r"^" + VECT + r"::truncate$": m_vec_truncate,
    r"^core::slice::(.*::)?contains$|^VecDeque::contains$": m_vec_contains,
    r"^core::slice::(.*::)?(iter|iter_mut)$|^" + VECT + r"::(iter|iter_mut)$": m_vec_iter,
    r"^" + VECT + r"::drain$": m_vec_drain,
    r"^<" + VECT + r" as Extend>::extend$|^" + VECT + r"::(extend|extend_from_slice|append)$": m_vec_extend,
    r"^" + VECT + r"::retain(_mut)?$": m_vec_retain,
    r"^<" + VECT + r" as Clone>::clone$": m_vec_clone,
    r"^core::slice::(.*::)?to_vec$|^<\[.*\] as ToOwned>::to_owned$": m_slice_to_vec,
    r"^<" + VECT + r" as Deref(Mut)?>::deref(_mut)?$|^" + VECT + r"::(as_slice|as_mut_slice)$": m_vec_deref,
    r"^core::slice::(.*::)?partition_point$": m_partition_point,
    r"^core::slice::(.*::)?binary_search_by$": m_binary_search_by,
    r"^core::slice::(.*::)?(sort_by|sort_unstable_by)$": m_sort_by,
    r"^core::slice::(.*::)?(sort_by_key|sort_unstable_by_key|sort_by_cached_key)$": m_sort_by_key,
    r"^core::slice::(.*::)?(sort|sort_unstable)$": m_sort,
    r"^Vec::dedup$": m_dedup,
    r"^core::slice::(.*::)?reverse$": m_slice_reverse,
    # iterators
    r" as IntoIterator>::into_iter$": m_vec_into_iter,
    r" as Iterator>::next$": m_iter_next,
    r" as DoubleEndedIterator>::next_back$": m_iter_next_back,
    r" as Iterator>::map$": _adaptor("map"),
    r" as Iterator>::filter$": _adaptor("filter"),
    r" as Iterator>::filter_map$": _adaptor("filter_map"),
    r" as Iterator>::take$": _adaptor("take"),
    r" as Iterator>::skip$": _adaptor("skip"),
    r" as Iterator>::take_while$": _adaptor("take_while"),
    r" as Iterator>::skip_while$": _adaptor("skip_while"),
    r" as Iterator>::cloned$": _adaptor("cloned", 0),
    r" as Iterator>::copied$": _adaptor("copied", 0),
    r" as Iterator>::enumerate$": _adaptor("enumerate", 0),
    r" as Iterator>::rev$": _adaptor("rev", 0),
    r" as Iterator>::chain$": _adaptor("chain"),
    r" as Iterator>::zip$": _adaptor("zip"),
    r" as Iterator>::flatten$": _adaptor("flatten", 0),
    r" as Iterator>::flat_map$": _adaptor("flat_map"),
    r" as Iterator>::inspect$": _adaptor("inspect"),
    r" as Iterator>::peekable$": _adaptor("peekable", 0),
    r" as Iterator>::by_ref$": lambda eng, ctx, f, path, args, dty: args[0],
    r" as Iterator>::collect$|<impl FromIterator.*>::from_iter$| as FromIterator(<.*>)?>::from_iter$": m_iter_collect,
    r" as Iterator>::count$": m_iter_count,
    r" as Iterator>::last$": m_iter_last,
    r" as Iterator>::nth$": m_iter_nth,
    r" as Iterator>::any$": m_iter_any,
    r" as Iterator>::all$": m_iter_all,
    r" as Iterator>::find$": m_iter_find,
    r" as Iterator>::find_map$": m_iter_find_map,
    r" as Iterator>::position$": m_iter_position,
    r" as Iterator>::fold$": m_iter_fold,
    r" as Iterator>::for_each$": m_iter_for_each,
    r" as Iterator>::sum$": m_iter_sum,
    r" as Iterator>::max$": _minmax(True, False),
    r" as Iterator>::min$": _minmax(False, False),
    r" as Iterator>::max_by_key$": _minmax(True, True),
    r" as Iterator>::min_by_key$": _minmax(False, True),
    r" as Iterator>::size_hint$": m_iter_size_hint,
    r" as ExactSizeIterator>::len$": m_iter_len,
    r"Peekable::peek$": m_peek,
    # maps
    r"^" + MAPT + r"::keys$": m_map_keys,
    r"^" + MAPT + r"::(values|values_mut)$": m_map_values,
    r"^" + MAPT + r"::into_values$": m_map_into_values,
    r"^" + MAPT + r"::clear$": m_map_clear,
    r"^" + MAPT + r"::retain$": m_map_retain,
    r"^" + MAPT + r"::drain$": m_map_drain,
    r"Entry::or_default$": m_entry_or_default,
    r"Entry::and_modify$": m_entry_and_modify,
    r"Entry::or_insert_with_key$": m_entry_or_insert_with_key,
}
for _k, _v in MC.COLL.items():
    FALLBACK.setdefault(_k.replace("^(IndexMap|HashMap|hashbrown::HashMap|hashbrown::map::HashMap)", "^" + MAPT), _v)
# ------------------------------------------------------------------------------------------------ thread-locals
# `thread_local! { static K: T = init }`: `const K: LocalKey<T> = LocalKey::new(K::{constant#0})`. The storage machinery of std is
# not executed: a key has one cell per thread (`ctx.statics["w_thread"]`, 0 if the scenario has no threads), initialised on first
# use from the key's initialiser (`K::__RUST_STD_INTERNAL_INIT` for `const { .. }`, `__rust_std_internal_init_fn` otherwise).
def m_localkey_new(eng, ctx, f, path, args, dty):
    a = args[0]
    if not isinstance(a, FnItem):
        raise Unsupported(f"LocalKey::new({a})")
    return Native("localkey", strip_generics(a.path).rsplit("::{constant#0}", 1)[0])


def _localkey_with(try_):
    def h(eng, ctx, f, path, args, dty):
        key = load(eng, ctx, args[0])
        if not (isinstance(key, Native) and key.kind == "localkey"):
            raise Unsupported(f"LocalKey::with on {key}")
        kname = key.data

        def script(c):
            name = yield ("effect", lambda c_: f"tls:{kname}:{c_.statics.get('w_thread', 0)}")
            have = yield ("effect", lambda c_: name in c_.statics)
            if not have:
                short = kname.split("::")[-1]
                fnb = [b for n, b in eng.prog.bodies.items() if n.endswith("__rust_std_internal_init_fn") and (short + "::{constant#0}") in n]
                if fnb:
                    init = yield ("callv", fnb[0], [])
                else:
                    cb = eng.prog.const_value(kname + "::__RUST_STD_INTERNAL_INIT")
                    if cb is None:
                        raise Unsupported(f"initialiser of thread-local {kname} not found")
                    init = yield ("effect", lambda c_: eng.eval_const_body(c_, cb))
                yield ("effect", lambda c_: c_.statics.__setitem__(name, init))
            r = yield ("callv", args[1], [Ptr(("static", name))])
            return ok(r) if try_ else r
        return Script(script)
    return h


# reference-counted / boxed values are transparent where nothing more specific is modelled (no counting: C20 has its own Arc model)
FALLBACK.setdefault(r"(^|::)(Arc|Rc|Box)::new$", lambda eng, ctx, f, path, args, dty: args[0])
FALLBACK.setdefault(r"^<(Arc|Rc|Box) as Deref(Mut)?>::deref(_mut)?$", lambda eng, ctx, f, path, args, dty: args[0])
FALLBACK[r"(^|::)LocalKey::new$"] = m_localkey_new
FALLBACK[r"(^|::)LocalKey::with$"] = _localkey_with(False)
FALLBACK[r"(^|::)LocalKey::try_with$"] = _localkey_with(True)

FALLBACK.setdefault(r"^" + MAPT + r"::(with_capacity|with_hasher|with_capacity_and_hasher|default)$", lambda *a: MC.kmap())


def m_into(eng, ctx, f, path, args, dty):
    """<X as Into<Y>>::into(x) is <Y as From<X>>::from(x) (std's blanket impl); identity when Y has no From<X> in the dump
    (conversions between representations that share one model value, e.g. &str -> String)."""
    m = re.match(r"^<(.*) as (?:std::convert::)?Into<(.*)>>::into$", path.strip(), re.S)
    if m:
        x, y = m.group(1).strip(), m.group(2).strip()
        cands = [b for b in eng.prog.by_last.get("from", []) if b.impl and b.impl[0] == "From" and b.impl[1] == base_name(y)]
        cands = [b for b in cands if b.args and base_name(b.args[0][1]) == base_name(x)] or (cands if len(cands) == 1 else [])
        if len(cands) == 1:
            return TailCall(cands[0], list(args))
    return args[0]


def load_one(eng, ctx, p):
    if isinstance(p, Ptr):
        q = eng.load_ptr(ctx, p)
        if isinstance(q, Ptr):
            return q
    return p

FALLBACK[r" as Into(<.*>)?>::into$"] = m_into
for _tab in (MS.STR, MS.FMT, MS.LIST, MS.MAPS):
    for _k, _v in _tab.items():
        FALLBACK.setdefault(_k, _v)


# ------------------------------------------------------------------------------------------------ str / String (character level)
def _items(eng, ctx, v):
    v = load(eng, ctx, v)
    if z3.is_expr(v) and z3.is_bv(v) and v.size() == 32:
        return (v,)                       # a char used as a pattern
    return MS.as_items(eng, ctx, v)


def utf8_len(c, as_int=False):
    k = (lambda n: z3.IntVal(n)) if as_int else (lambda n: bv(n))
    return z3.If(z3.ULT(c, bv(0x80, 32)), k(1), z3.If(z3.ULT(c, bv(0x800, 32)), k(2), z3.If(z3.ULT(c, bv(0x10000, 32)), k(3), k(4))))


def m_str_len(eng, ctx, f, path, args, dty):
    items = _items(eng, ctx, args[0])
    if any(isinstance(x, tuple) for x in items):
        raise Unsupported("byte length of a string with an opaque token")
    if not items:
        return z3.IntVal(0) if eng.int_mode else bv(0)
    n = utf8_len(items[0], eng.int_mode)
    for c in items[1:]:
        n = n + utf8_len(c, eng.int_mode)
    return z3.simplify(n)


def m_str_is_empty(eng, ctx, f, path, args, dty):
    return z3.BoolVal(len(_items(eng, ctx, args[0])) == 0)


def m_str_starts_with(eng, ctx, f, path, args, dty):
    s, p = _items(eng, ctx, args[0]), _items(eng, ctx, args[1])
    return MS.text_eq(s[:len(p)], p) if len(p) <= len(s) else z3.BoolVal(False)


def m_str_ends_with(eng, ctx, f, path, args, dty):
    s, p = _items(eng, ctx, args[0]), _items(eng, ctx, args[1])
    return MS.text_eq(s[len(s) - len(p):], p) if len(p) <= len(s) else z3.BoolVal(False)


def m_str_contains(eng, ctx, f, path, args, dty):
    s, p = _items(eng, ctx, args[0]), _items(eng, ctx, args[1])
    if len(p) > len(s):
        return z3.BoolVal(False)
    return z3.Or(*[MS.text_eq(s[i:i + len(p)], p) for i in range(len(s) - len(p) + 1)])


def m_str_find(eng, ctx, f, path, args, dty):
    s, p = _items(eng, ctx, args[0]), _items(eng, ctx, args[1])
    if any(isinstance(x, tuple) for x in s):
        raise Unsupported("str::find over an opaque token")
    alts, none_before = [], []
    off = z3.IntVal(0) if eng.int_mode else bv(0)
    for i in range(len(s) - len(p) + 1):
        here = MS.text_eq(s[i:i + len(p)], p)
        alts.append((z3.And(here, *none_before), some(z3.simplify(off))))
        none_before.append(z3.Not(here))
        off = off + utf8_len(s[i], eng.int_mode)
    alts.append((z3.And(*none_before) if none_before else z3.BoolVal(True), none()))
    return Fork(alts)


def _lower(c):
    return z3.If(z3.And(z3.UGE(c, bv(65, 32)), z3.ULE(c, bv(90, 32))), c + bv(32, 32), c)


def _upper(c):
    return z3.If(z3.And(z3.UGE(c, bv(97, 32)), z3.ULE(c, bv(122, 32))), c - bv(32, 32), c)


def m_eq_ignore_ascii_case(eng, ctx, f, path, args, dty):
    a, b = _items(eng, ctx, args[0]), _items(eng, ctx, args[1])
    if len(a) != len(b):
        return z3.BoolVal(False)
    return z3.And(*[_lower(x) == _lower(y) for x, y in zip(a, b)]) if a else z3.BoolVal(True)


def _mapchars(fn):
    def h(eng, ctx, f, path, args, dty):
        items = _items(eng, ctx, args[0])
        if any(isinstance(x, tuple) for x in items):
            raise Unsupported("case mapping of an opaque token")
        return MS.sstr(tuple(z3.simplify(fn(c)) for c in items))
    return h


def m_char_lower(eng, ctx, f, path, args, dty):
    return _lower(load(eng, ctx, args[0]))


def m_char_upper(eng, ctx, f, path, args, dty):
    return _upper(load(eng, ctx, args[0]))


def m_str_identity(eng, ctx, f, path, args, dty):
    return MS.sstr(_items(eng, ctx, args[0]))


def m_str_concat(eng, ctx, f, path, args, dty):
    return MS.sstr(_items(eng, ctx, args[0]) + _items(eng, ctx, args[1]))


def m_string_clear(eng, ctx, f, path, args, dty):
    eng.store_ptr(ctx, _strip(eng, ctx, args[0]), MS.sstr(()))
    return UNIT


def m_char_is(pred):
    def h(eng, ctx, f, path, args, dty):
        return pred(load(eng, ctx, args[0]))
    return h


def _between(c, lo, hi):
    return z3.And(z3.UGE(c, bv(ord(lo), 32)), z3.ULE(c, bv(ord(hi), 32)))


STRX = {
    r"^core::str::(.*::)?len$|^String::len$": m_str_len,
    r"^core::str::(.*::)?is_empty$|^String::is_empty$": m_str_is_empty,
    r"^core::str::(.*::)?starts_with$": m_str_starts_with,
    r"^core::str::(.*::)?ends_with$": m_str_ends_with,
    r"^core::str::(.*::)?contains$": m_str_contains,
    r"^core::str::(.*::)?find$": m_str_find,
    r"^core::str::(.*::)?eq_ignore_ascii_case$": m_eq_ignore_ascii_case,
    r"^core::str::(.*::)?to_ascii_lowercase$|^String::to_ascii_lowercase$": _mapchars(_lower),
    r"^core::str::(.*::)?to_ascii_uppercase$|^String::to_ascii_uppercase$": _mapchars(_upper),
    r"char::(.*::)?to_ascii_lowercase$": m_char_lower,
    r"char::(.*::)?to_ascii_uppercase$": m_char_upper,
    r"char::(.*::)?is_ascii_uppercase$": m_char_is(lambda c: _between(c, "A", "Z")),
    r"char::(.*::)?is_ascii_lowercase$": m_char_is(lambda c: _between(c, "a", "z")),
    r"char::(.*::)?is_ascii$": m_char_is(lambda c: z3.ULT(c, bv(128, 32))),
    r"char::(.*::)?is_ascii_whitespace$": m_char_is(lambda c: z3.Or(c == bv(32, 32), c == bv(9, 32), c == bv(10, 32), c == bv(12, 32), c == bv(13, 32))),
    r"char::(.*::)?is_ascii_punctuation$": m_char_is(lambda c: z3.Or(_between(c, "!", "/"), _between(c, ":", "@"), _between(c, "[", "`"), _between(c, "{", "~"))),
    r"char::(.*::)?is_ascii_hexdigit$": m_char_is(lambda c: z3.Or(_between(c, "0", "9"), _between(c, "a", "f"), _between(c, "A", "F"))),
    r"^<String as Clone>::clone$|^<str as ToOwned>::to_owned$|^core::str::(.*::)?to_owned$|^<String as From<&str>>::from$|^<String as From>::from$|^core::str::(.*::)?to_string$"
    r"|^<&?str as Into<String>>::into$|^<String as Borrow<str>>::borrow$|^<String as Borrow>::borrow$|^String::into_boxed_str$|^<str as ToString>::to_string$|^<String as ToString>::to_string$"
    r"|^<Box<str> as From<String>>::from$|^String::from_utf8_unchecked$|^<String as AsRef<str>>::as_ref$|^String::as_mut_str$|^core::str::(.*::)?as_str$": m_str_identity,
    r"^<String as Add<&str>>::add$|^<String as Add>::add$": m_str_concat,
    r"^String::clear$": m_string_clear,
}
for _k, _v in STRX.items():
    FALLBACK.setdefault(_k, _v)


def m_strip_prefix(eng, ctx, f, path, args, dty):
    s, p = _items(eng, ctx, args[0]), _items(eng, ctx, args[1])
    if len(p) > len(s):
        return none()
    c = MS.text_eq(s[:len(p)], p)
    return Fork([(c, some(MS.sstr(s[len(p):]))), (z3.Not(c), none())])


def m_strip_suffix(eng, ctx, f, path, args, dty):
    s, p = _items(eng, ctx, args[0]), _items(eng, ctx, args[1])
    if len(p) > len(s):
        return none()
    c = MS.text_eq(s[len(s) - len(p):], p)
    return Fork([(c, some(MS.sstr(s[:len(s) - len(p)]))), (z3.Not(c), none())])


FALLBACK.setdefault(r"^core::str::(.*::)?strip_prefix$", m_strip_prefix)
FALLBACK.setdefault(r"^core::str::(.*::)?strip_suffix$", m_strip_suffix)
FALLBACK.setdefault(r"(^|::)(RwLock|Mutex)::new$", lambda eng, ctx, f, path, args, dty: args[0])
FALLBACK.setdefault(r"(^|::)(RwLock|Mutex)::(into_inner|get_mut)$", lambda eng, ctx, f, path, args, dty: ok(args[0]))
# Clone of a value the dump has no impl for (std types, type parameters): the model values are immutable trees; shared mutable
# state lives behind pointers (cells / heap objects), which a clone of the handle keeps pointing to
FALLBACK.setdefault(r" as Clone>::clone$", lambda eng, ctx, f, path, args, dty: clone(load(eng, ctx, args[0])) if not isinstance(load_one(eng, ctx, args[0]), Ptr) or True else args[0])
FALLBACK.setdefault(r"^((core|std)::panicking::)?(panic|panic_fmt|panic_display|panic_str|panic_explicit|panic_nounwind|panic_cold_explicit|begin_panic|assert_failed|unreachable_display|panic_bounds_check)$|(^|::)(unwrap_failed|expect_failed)$",
                    lambda eng, ctx, f, path, args, dty: Diverge("panic", f"explicit panic in {f.body.name if f is not None else '?'}"))


def m_clone_into(eng, ctx, f, path, args, dty):
    """<str as ToOwned>::clone_into(&self, target: &mut String) / <[T] as ToOwned>::clone_into: the target takes the source's content"""
    eng.store_ptr(ctx, _strip(eng, ctx, args[1]), clone(load(eng, ctx, args[0])))
    return UNIT


FALLBACK.setdefault(r" as ToOwned>::clone_into$| as Clone>::clone_from$", m_clone_into)


# ------------------------------------------------------------------------------------------------ f64 (IEEE semantics, z3 FP theory)
def _fp(v):
    return z3.fpBVToFP(v, z3.Float64() if v.size() == 64 else z3.Float32())


def _f1(fn):
    def h(eng, ctx, f, path, args, dty):
        v = load(eng, ctx, args[0])
        if not (z3.is_bv(v) and v.size() in (32, 64)):
            raise Unsupported(f"float method on {v}")
        r = fn(_fp(v))
        return r if z3.is_bool(r) else eng.fp_result(ctx, r, v.size())
    return h


FLOATS = {
    r"(^|::)f(32|64)::(.*::)?trunc$": _f1(lambda x: z3.fpRoundToIntegral(z3.RTZ(), x)),
    r"(^|::)f(32|64)::(.*::)?floor$": _f1(lambda x: z3.fpRoundToIntegral(z3.RTN(), x)),
    r"(^|::)f(32|64)::(.*::)?ceil$": _f1(lambda x: z3.fpRoundToIntegral(z3.RTP(), x)),
    r"(^|::)f(32|64)::(.*::)?fract$": _f1(lambda x: z3.fpSub(z3.RNE(), x, z3.fpRoundToIntegral(z3.RTZ(), x))),
    r"(^|::)f(32|64)::(.*::)?abs$": _f1(lambda x: z3.fpAbs(x)),
    r"(^|::)f(32|64)::(.*::)?is_nan$": _f1(lambda x: z3.fpIsNaN(x)),
    r"(^|::)f(32|64)::(.*::)?is_infinite$": _f1(lambda x: z3.fpIsInf(x)),
    r"(^|::)f(32|64)::(.*::)?is_finite$": _f1(lambda x: z3.And(z3.Not(z3.fpIsNaN(x)), z3.Not(z3.fpIsInf(x)))),
    r"(^|::)f(32|64)::(.*::)?is_sign_negative$": _f1(lambda x: z3.fpIsNegative(x)),
    r"(^|::)f(32|64)::(.*::)?is_sign_positive$": _f1(lambda x: z3.fpIsPositive(x)),
}
for _k, _v in FLOATS.items():
    FALLBACK.setdefault(_k, _v)

"""Partial-order encoding of a multi-threaded scenario: clocks + reads-from (sequential consistency),
locks/awaits as assumptions on the value read, optional release/acquire race relation.

All events come from sym.Engine (one symbolic execution per thread). The interleaving is a solver
unknown: an integer clock per event."""
import time, subprocess, os, re
import z3
from .sym import Unsupported


class Scenario:
    def __init__(self, eng, name):
        self.eng = eng
        self.name = name
        self.cons = []           # list of z3 constraints describing all executions
        self.order = []          # (tid_before, tid_after): all events of a before all of b (spawn/join)
        self.clock = {}
        self.rf = {}
        self.race_pairs = []
        self._anc = {}
        self.built = False
        self.stats = {}

    def thread_order(self, a, b):
        self.order.append((a, b))

    def build(self):
        eng = self.eng
        ev = eng.events
        clk = {e.id: z3.Int(f"clk{e.id}") for e in ev}
        self.clock = clk
        cons = []
        # program order (tree edges)
        for e in ev:
            cons.append(clk[e.id] > 0)
            for par in e.parents:
                cons.append(clk[par.id] < clk[e.id])
        # spawn/join order between threads
        by_t = {}
        for e in ev:
            by_t.setdefault(e.tid, []).append(e)
        for a, b in self.order:
            for x in by_t.get(a, []):
                for y in by_t.get(b, []):
                    cons.append(clk[x.id] < clk[y.id])
        mem = [e for e in ev if e.kind in ("R", "W", "U")]
        # distinct clocks for memory events of different threads (same-thread events are ordered by po on a path;
        # events on different paths of one thread are never enabled together)
        for i, a in enumerate(mem):
            for b in mem[i + 1:]:
                if a.tid != b.tid and (a.kind != "R" or b.kind != "R") and self.same_loc(a, b) is not None:
                    cons.append(clk[a.id] != clk[b.id])
        # each thread completes along exactly one leaf (cut leaves = awaits that never come true are excluded)
        for tid, leaves in eng.leaves.items():
            done = [l.taken() for l in leaves if l.status in ("done", "panic", "unwound")]
            cons.append(z3.Or(*done) if done else z3.BoolVal(False))
        # reads-from
        writes = [e for e in mem if e.kind in ("W", "U")]
        reads = [e for e in mem if e.kind in ("R", "U")]
        nrf = 0
        for r in reads:
            cands = []
            for w in writes:
                if w is r:
                    continue
                same = self.same_loc(r, w)
                if same is None:
                    continue
                if w.tid == r.tid and not self.may_precede(w, r):
                    continue
                cands.append((w, same))
            opts = []
            for w, same in cands:
                wen = z3.And(w.guard, w.wguard)
                cond = [r.guard, wen, same, clk[w.id] < clk[r.id], r.rval == w.wval]
                for w2, same2 in cands:
                    if w2 is w:
                        continue
                    cond.append(z3.Not(z3.And(w2.guard, w2.wguard, same2, clk[w.id] < clk[w2.id], clk[w2.id] < clk[r.id])))
                v = z3.Bool(f"rf_{r.id}_{w.id}")
                cons.append(v == z3.And(*cond))
                self.rf[(r.id, w.id)] = v
                opts.append(v)
                nrf += 1
            cons.append(z3.Implies(r.guard, z3.Or(*opts) if opts else z3.BoolVal(False)))
        # assumptions attached to events (lock acquisition succeeds, awaited condition holds)
        for e in ev:
            if e.assume is not None:
                cons.append(z3.Implies(e.guard, e.assume))
        self.cons = cons
        self.built = True
        self.stats = {"events": len(ev), "memory_events": len(mem), "rf_candidates": nrf, "threads": len(by_t), "constraints": len(cons)}
        return self

    def may_precede(self, w, r):
        """same thread: w must be a po-ancestor of r"""
        key = (w.id, r.id)
        if key in self._anc:
            return self._anc[key]
        seen = set()
        stack = list(r.parents)
        res = False
        while stack:
            x = stack.pop()
            if x.id in seen:
                continue
            seen.add(x.id)
            if x is w:
                res = True
                break
            if x.id < w.id:
                continue          # event ids grow along program order
            stack.extend(x.parents)
        self._anc[key] = res
        return res

    def same_loc(self, a, b):
        """z3 condition for 'same location', or None when statically different"""
        if a.sort != b.sort or len(a.path) != len(b.path):
            return None
        conds = []
        for x, y in zip(a.path, b.path):
            if isinstance(x, tuple) and isinstance(y, tuple) and x[0] == "idx" and y[0] == "idx":
                xi, yi = x[1], y[1]
                if isinstance(xi, int) and isinstance(yi, int):
                    if xi != yi:
                        return None
                else:
                    xe = z3.BitVecVal(xi, 64) if isinstance(xi, int) else xi
                    ye = z3.BitVecVal(yi, 64) if isinstance(yi, int) else yi
                    conds.append(xe == ye)
            elif x != y:
                return None
        ao, bo = a.obj, b.obj
        if isinstance(ao, int) and isinstance(bo, int):
            if ao != bo:
                return None
        else:
            ae = z3.IntVal(ao) if isinstance(ao, int) else ao
            be = z3.IntVal(bo) if isinstance(bo, int) else bo
            conds.append(ae == be)
        return z3.And(*conds) if conds else z3.BoolVal(True)

    # ------------------------------------------------------------------ release/acquire race relation
    def po_before(self, x, y):
        """static: x is a program-order ancestor of y (same thread, same path)"""
        return x.tid == y.tid and self.may_precede(x, y)

    def race_condition(self, locs=None):
        """z3 condition: two conflicting accesses, at least one non-atomic, from different threads, both enabled,
        not ordered by happens-before = (po U sw)+ with sw = release write -> acquire read that reads from it.
        Returns (condition, extra constraints defining hb)."""
        ev = [e for e in self.eng.events if e.kind in ("R", "W", "U")]
        clk = self.clock
        REL = ("Release", "AcqRel", "SeqCst", "Init")
        ACQ = ("Acquire", "AcqRel", "SeqCst")

        def is_rel(w):
            return w.atomic and w.order in REL

        def is_acq(r):
            if not r.atomic:
                return z3.BoolVal(False)
            if r.kind == "U" and getattr(r, "forder", None) is not None:
                return z3.If(r.wguard, z3.BoolVal(r.order in ACQ), z3.BoolVal(r.forder in ACQ))
            return z3.BoolVal(r.order in ACQ)
        relw = [e for e in ev if e.kind in ("W", "U") and is_rel(e)]
        acqr = [e for e in ev if e.kind in ("R", "U") and e.atomic]
        na = [e for e in ev if not e.atomic and e.order != "Init"]
        init = [e for e in ev if e.order == "Init"]
        targets = {e.id: e for e in na + relw}
        hb = {}
        extra = []
        # release sequences: an RMW that reads from a release write (or from a later member of its release sequence)
        # continues that sequence, so an acquire read of the RMW's write synchronises with the head as well
        rmws = [e for e in ev if e.kind == "U"]
        rs = {}

        def rsv(w, u):
            k = (w.id, u.id)
            if k not in rs:
                rs[k] = z3.Bool(f"rs_{w.id}_{u.id}")
            return rs[k]
        for w in relw:
            for u in rmws:
                if u is w or (u.id, w.id) not in self.rf and not any((u.id, x.id) in self.rf for x in rmws):
                    continue
                alts = []
                if (u.id, w.id) in self.rf:
                    alts.append(self.rf[(u.id, w.id)])
                for x in rmws:
                    if x is not u and x is not w and (u.id, x.id) in self.rf and self.same_loc(w, x) is not None:
                        alts.append(z3.And(self.rf[(u.id, x.id)], rsv(w, x), clk[x.id] < clk[u.id]))
                extra.append(rsv(w, u) == (z3.Or(*alts) if alts else z3.BoolVal(False)))

        sw_cache = {}

        def sw_of(r, w):
            """r (acquire read) synchronises with release write w (and r is an acquire): reads from w or from its release sequence"""
            k = (r.id, w.id)
            if k not in sw_cache:
                c = sw_of_(r, w)
                sw_cache[k] = None if c is None else z3.And(c, is_acq(r))
            return sw_cache[k]

        def sw_of_(r, w):
            opts = []
            if (r.id, w.id) in self.rf:
                opts.append(self.rf[(r.id, w.id)])
            for u in rmws:
                if (w.id, u.id) in rs and (r.id, u.id) in self.rf:
                    opts.append(z3.And(rs[(w.id, u.id)], self.rf[(r.id, u.id)]))
            return z3.Or(*opts) if opts else None

        def hbv(x, y):
            k = (x.id, y.id)
            if k not in hb:
                hb[k] = z3.Bool(f"hb_{x.id}_{y.id}")
            return hb[k]
        # define hb(x, y) for x in (na + init), y in targets, different threads
        xs = na + init + relw
        work = [(x, y) for x in xs for y in targets.values() if x.tid != y.tid]
        done = set()
        sw_into = {}
        while work:
            x, y = work.pop()
            if (x.id, y.id) in done:
                continue
            done.add((x.id, y.id))
            alts = []
            if (x.tid, y.tid) in self.order:
                alts.append(z3.BoolVal(True))     # spawn / join edge
            if y.id not in sw_into:
                sw_into[y.id] = [(w, sw_of(r, w)) for r in acqr if r.tid == y.tid and (r is y or self.po_before(r, y))
                                 for w in relw if w.tid != y.tid and sw_of(r, w) is not None]
            for w, sw in sw_into[y.id]:
                if True:
                    if w is x or self.po_before(x, w):
                        alts.append(sw)
                    elif w.tid != x.tid:
                        alts.append(z3.And(sw, hbv(x, w)))
                        if (x.id, w.id) not in done:
                            work.append((x, w))
            extra.append(hbv(x, y) == z3.And(x.guard, y.guard, clk[x.id] < clk[y.id], z3.Or(*alts) if alts else z3.BoolVal(False)))
        races = []
        for i, a in enumerate(ev):
            for b in ev:
                if a.tid == b.tid or (a.atomic and b.atomic) or a.order == "Init" and b.order == "Init":
                    continue
                if a.kind == "R" and b.kind == "R":
                    continue
                if locs is not None and not locs(a):
                    continue
                same = self.same_loc(a, b)
                if same is None:
                    continue
                if b.id not in targets or a not in xs:
                    continue
                aw = a.wguard if a.kind == "U" else z3.BoolVal(True)
                c = z3.And(a.guard, b.guard, same, clk[a.id] < clk[b.id], z3.Not(hbv(a, b)))
                races.append(c)
                self.race_pairs.append((a, b, c))
        return (z3.Or(*races) if races else z3.BoolVal(False)), extra

    # ------------------------------------------------------------------ queries
    def leaf_ite(self, tid, fn, default):
        """merge a per-leaf z3 term over the leaves of a thread"""
        out = default
        for l in self.eng.leaves[tid]:
            if l.status == "done":
                out = z3.If(l.taken(), fn(l), out)
        return out

    def all_done(self):
        return z3.And(*[z3.Or(*[l.taken() for l in ls if l.status == "done"]) if any(l.status == "done" for l in ls) else z3.BoolVal(False)
                        for ls in self.eng.leaves.values()])

    def reach(self, status):
        return z3.Or(*[l.taken() for ls in self.eng.leaves.values() for l in ls if l.status == status] or [z3.BoolVal(False)])


class Query:
    """one SMT query: constraints + negated property; solved by z3 and cross-checked by cvc5 (CLI)."""

    def __init__(self, name, cons, expect, desc=""):
        self.name, self.cons, self.expect, self.desc = name, cons, expect, desc
        self.result = None
        self.model = None
        self.time = 0.0
        self.cross = None


def to_smt2(cons, logic="ALL"):
    s = z3.Solver()
    s.add(*cons)
    txt = s.to_smt2()
    txt = re.sub(r"^\(set-info[^\n]*\n", "", txt, flags=re.M)
    return f"(set-logic {logic})\n" + txt


CROSS_CAP_S = 12


def solve(q, timeout_s=120, cross=True, workdir=None):
    """decides q with z3 (python API = libz3) and cvc5 CLI on the same SMT-LIB text. returns 'sat'|'unsat'|'unknown'|'disagree'"""
    t0 = time.time()
    s = z3.Solver()
    s.set("timeout", int(timeout_s * 1000))
    s.add(*q.cons)
    r = s.check()
    q.time = time.time() - t0
    q.result = str(r)
    if r == z3.sat:
        q.model = s.model()
    if cross and q.result in ("sat", "unsat"):
        txt = to_smt2(q.cons)
        wd = workdir or os.path.join("/verif/.build/work", os.environ.get("VERIF_PROP", "adhoc"), "smt")
        os.makedirs(wd, exist_ok=True)
        p = os.path.join(wd, re.sub(r"\W+", "_", q.name) + ".smt2")
        open(p, "w").write(txt)
        q.smt2 = p
        try:
            t1 = time.time()
            cap = min(timeout_s, CROSS_CAP_S)
            out = subprocess.run(["cvc5", "--lang", "smt2", f"--tlimit={int(cap * 1000)}", p], capture_output=True, text=True, timeout=cap + 10)
            ans = out.stdout.strip().splitlines()
            q.cross_time = time.time() - t1
            if "(error" in out.stdout or "(error" in out.stderr:
                q.cross = "error: " + (out.stdout + out.stderr)[:300]
            else:
                q.cross = ans[0] if ans else "timeout"
                if q.cross not in ("sat", "unsat"):
                    q.cross = "timeout"
        except subprocess.TimeoutExpired:
            q.cross = "timeout"
        if q.cross == "timeout":
            # second opinion from the other installed z3 (5.1.0 CLI) when cvc5 does not finish within its cap
            try:
                t1 = time.time()
                out = subprocess.run(["z3-new", f"-T:{int(max(20, q.time * 6))}", p], capture_output=True, text=True, timeout=max(30, q.time * 6 + 10))
                ans = out.stdout.strip().splitlines()
                q.cross_time += time.time() - t1
                if "(error" in out.stdout:
                    q.cross = "error: " + out.stdout[:200]
                elif ans and ans[0] in ("sat", "unsat"):
                    q.cross = ans[0]
                    q.cross_solver = "z3-5.1.0"
            except (subprocess.TimeoutExpired, FileNotFoundError):
                pass
        if q.cross in ("sat", "unsat") and q.cross != q.result:
            q.result = "disagree"
        elif q.cross not in ("sat", "unsat", "timeout"):
            q.result = "unknown"      # an (error line of the second solver = inconclusive
        # a timeout of the second solver within its (short) cap leaves the first solver's verdict standing; it is
        # recorded in the evidence as "cvc5=timeout" (not cross-checked)
    return q.result


def _run_cli(cmd, timeout):
    t0 = time.time()
    try:
        out = subprocess.run(cmd, capture_output=True, text=True, timeout=timeout)
        txt = out.stdout.strip()
        if "(error" in txt or "(error" in out.stderr:
            return "error: " + (txt + out.stderr)[:200], time.time() - t0
        first = txt.splitlines()[0] if txt else "timeout"
        return (first if first in ("sat", "unsat") else "timeout"), time.time() - t0
    except subprocess.TimeoutExpired:
        return "timeout", time.time() - t0


def solve_many(queries, timeout_s=120, workdir=None, jobs=None):
    """Discharge many queries concurrently: every query is written as SMT-LIB text and decided by /usr/bin/z3 (4.8.12),
    and independently by cvc5 (short cap) or, if cvc5 does not finish, by z3 5.1.0. Verdict rules: an `(error` line,
    `unknown` from the first solver, or two different verdicts = inconclusive. For `sat` the model is then obtained
    in-process."""
    from concurrent.futures import ThreadPoolExecutor
    wd = workdir or os.path.join("/verif/.build/work", os.environ.get("VERIF_PROP", "adhoc"), "smt")
    os.makedirs(wd, exist_ok=True)
    for q in queries:
        q.smt2 = os.path.join(wd, re.sub(r"\W+", "_", q.name) + ".smt2")
        open(q.smt2, "w").write(to_smt2(q.cons))

    def work(q):
        # first solver and the short-capped second opinion run side by side; when cvc5 does not finish within its cap, z3 5.1.0 is
        # started at once (it then overlaps with the first solver instead of following it)
        with ThreadPoolExecutor(max_workers=2) as inner:
            f1 = inner.submit(_run_cli, ["z3", f"-T:{int(timeout_s)}", q.smt2], timeout_s + 10)
            r2, t2 = _run_cli(["cvc5", "--lang", "smt2", f"--tlimit={int(CROSS_CAP_S * 1000)}", q.smt2], CROSS_CAP_S + 10)
            solver2 = "cvc5"
            if r2 == "timeout":
                cap = int(min(max(60, timeout_s * 2), 1800))
                r2, t3 = _run_cli(["z3-new", f"-T:{cap}", q.smt2], cap + 10)
                solver2 = "z3-5.1.0"
                t2 += t3
            r1, t1 = f1.result()
        q.time, q.cross_time, q.cross, q.cross_solver = t1, t2, r2, solver2
        if r1 not in ("sat", "unsat"):
            q.result = "unknown"
        elif r2 in ("sat", "unsat") and r2 != r1:
            q.result = "disagree"
        elif r2.startswith("error"):
            q.result = "unknown"
        else:
            q.result = r1
        if q.result == "unsat":
            # decided and nothing to diagnose: the text (gigabytes for the race relation of a large scenario) is not kept
            try:
                os.remove(q.smt2)
            except OSError:
                pass
        return q
    with ThreadPoolExecutor(max_workers=jobs or min(8, (os.cpu_count() or 8) // 2)) as ex:
        list(ex.map(work, queries))
    for q in queries:
        if q.result == "sat":
            s = z3.Solver()
            s.set("timeout", int(timeout_s * 1000))
            s.add(*q.cons)
            if s.check() == z3.sat:
                q.model = s.model()
            else:
                q.result = "unknown"
    return queries

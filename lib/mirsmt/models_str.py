"""Character-level model of str / String / char iterators for the formatting code of the Prometheus exporter.

A string value is `Native("sstr", items)` with `items` a tuple whose length is concrete on every path and whose elements are
  * a 32-bit term: one `char` (symbolic or literal), or
  * ("tok", class, id): an opaque run of characters whose *class* is all the check needs (e.g. the Display text of a number).
`&str`, `String` and `&String` share the representation; `&mut String` is a pointer to the local that holds the value.
Trusted base (std contracts): push / push_str append, chars()/next() iterate in order, enumerate() numbers from 0, map()
applies the closure to every element, collect::<String>() concatenates, char::is_ascii_* are the ASCII ranges."""
import re
import z3
from .sym import *
from .models import m_identity
from .prog import norm_callee

_tok = [0]


def sstr(items=()):
    return Native("sstr", tuple(items))


def lit_items(s):
    return tuple(bv(ord(ch), 32) for ch in s)


def tok(cls):
    _tok[0] += 1
    return ("tok", cls, _tok[0])


def as_items(eng, ctx, v):
    """items of a str-like value (loads through pointers; literals are expanded)"""
    while isinstance(v, Ptr):
        v = eng.load_ptr(ctx, v)
    if isinstance(v, Native) and v.kind == "sstr":
        return v.data
    if isinstance(v, Native) and v.kind == "str":
        lit, n = v.data
        s = unescape_rust(lit)
        if len(s) != n:
            raise Unsupported(f"string literal longer than the parser keeps: {lit!r}...")
        return lit_items(s)
    raise Unsupported(f"string value expected, got {v}")


def m_new(eng, ctx, f, path, args, dty):
    return sstr()


def m_push_str(eng, ctx, f, path, args, dty):
    cur = as_items(eng, ctx, args[0])
    eng.store_ptr(ctx, args[0], sstr(cur + as_items(eng, ctx, args[1])))
    return UNIT


def m_push(eng, ctx, f, path, args, dty):
    cur = as_items(eng, ctx, args[0])
    c = args[1]
    if not (z3.is_expr(c) and z3.is_bv(c) and c.size() == 32):
        raise Unsupported(f"String::push of {c}")
    eng.store_ptr(ctx, args[0], sstr(cur + (c,)))
    return UNIT


def m_as_str(eng, ctx, f, path, args, dty):
    return sstr(as_items(eng, ctx, args[0]))


def m_to_string(eng, ctx, f, path, args, dty):
    v = args[0]
    while isinstance(v, Ptr):
        v = eng.load_ptr(ctx, v)
    if isinstance(v, Native) and v.kind in ("sstr", "str"):
        return sstr(as_items(eng, ctx, v))
    if isinstance(v, Native) and v.kind == "display":
        return sstr((("tok", v.data[0], v.data[1]),))
    if z3.is_expr(v):
        t = tok("number")
        # provenance of a formatted number: which value, printed as which type (Display of the integer and float types is trusted to
        # print the exact value / the shortest text that parses back to the same float)
        ty = re.match(r"^<&*(\w+) as ", path.strip())
        prov = getattr(eng, "numtok", None)
        if prov is None:
            prov = eng.numtok = {}
        tn = ty.group(1) if ty else "?"
        if tn not in INT_W and tn not in ("f64", "f32"):
            # a type parameter of a generic function: the numeric type among the instantiation's generic arguments
            nums = [a.lstrip("&") for fr in reversed(ctx.frames) for a in getattr(fr, "targs", ()) if a.lstrip("&") in INT_W or a.lstrip("&") in ("f64", "f32")]
            tn = nums[0] if nums else tn
        prov[t[2]] = (v, tn)
        return sstr((t,))
    raise Unsupported(f"to_string of {v}")


def m_chars(eng, ctx, f, path, args, dty):
    return Native("chars", (as_items(eng, ctx, args[0]), 0))


def m_chars_next(eng, ctx, f, path, args, dty):
    it = eng.load_ptr(ctx, args[0])
    if not (isinstance(it, Native) and it.kind == "chars"):
        raise Unsupported(f"Chars::next on {it}")
    items, pos = it.data
    if pos >= len(items):
        return Enum(0, {}, "Option")
    c = items[pos]
    if isinstance(c, tuple):
        raise Unsupported("character iteration over an opaque token")
    eng.store_ptr(ctx, args[0], Native("chars", (items, pos + 1)))
    return Enum(1, {1: Agg({0: c})}, "Option")


def m_enumerate(eng, ctx, f, path, args, dty):
    return Native("iterchain", ("enumerate", args[0]))


def m_map(eng, ctx, f, path, args, dty):
    return Native("iterchain", ("map", args[0], args[1]))


def run_pure(eng, ctx, clo, args):
    """value of a side-effect-free closure call: executed on a copy of the context, the results of its paths joined by ite"""
    if not isinstance(clo, Closure):
        raise Unsupported(f"closure expected, got {clo}")
    b = eng.prog.closure_body(clo)
    if b is None:
        raise Unsupported(f"closure body {clo.span} not found")
    c2 = ctx.clone()
    base = len(c2.frames)
    first = clo
    if b.args and b.args[0][1].startswith("&"):
        tmp = 810000 + len(eng.events) + len(c2.frames)
        c2.frames[-1].locals[tmp] = clo
        first = Ptr(("local", c2.frames[-1].fid, tmp))
    nev = len(eng.events)
    eng.push_frame(c2, b, [first] + list(args), None)
    merging, eng.merging = eng.merging, False
    try:
        out = eng.drive(c2, base)
    finally:
        eng.merging = merging
    if len(eng.events) != nev:
        raise Unsupported(f"closure {clo.span} has side effects: not a pure element function")
    res = None
    npc = len(ctx.pc)
    for leaf in out:
        if leaf.status != "done":
            raise Unsupported(f"closure {clo.span} does not return on every path ({leaf.status})")
        cond = z3.And(*leaf.pc[npc:]) if len(leaf.pc) > npc else z3.BoolVal(True)
        r = leaf.ret
        if not z3.is_expr(r):
            raise Unsupported(f"closure {clo.span} returns a non-scalar {r}")
        res = r if res is None else z3.If(cond, r, res)
    return res


def eval_chain(eng, ctx, it):
    """elements of an iterator chain, in order"""
    if isinstance(it, Native) and it.kind == "chars":
        items, pos = it.data
        if any(isinstance(x, tuple) for x in items[pos:]):
            raise Unsupported("character iteration over an opaque token")
        return list(items[pos:])
    if isinstance(it, Native) and it.kind == "iterchain":
        if it.data[0] == "enumerate":
            inner = eval_chain(eng, ctx, it.data[1])
            return [Agg({0: bv(i), 1: x}) for i, x in enumerate(inner)]
        if it.data[0] == "map":
            inner = eval_chain(eng, ctx, it.data[1])
            return [run_pure(eng, ctx, it.data[2], [x]) for x in inner]
    raise Unsupported(f"iterator chain {it}")


def m_collect_string(eng, ctx, f, path, args, dty):
    if "String" not in path.split("collect")[-1]:
        raise Unsupported(f"collect into something else than String: {path}")
    out = eval_chain(eng, ctx, args[0])
    for x in out:
        if not (z3.is_expr(x) and z3.is_bv(x) and x.size() == 32):
            raise Unsupported(f"collect::<String> of a non-char element {x}")
    return sstr(tuple(out))


def _c(args, eng, ctx):
    c = args[0]
    if isinstance(c, Ptr):
        c = eng.load_ptr(ctx, c)
    return c


def _rng(c, lo, hi):
    return z3.And(z3.UGE(c, bv(ord(lo), 32)), z3.ULE(c, bv(ord(hi), 32)))


def m_is_alpha(eng, ctx, f, path, args, dty):
    c = _c(args, eng, ctx)
    return z3.Or(_rng(c, "a", "z"), _rng(c, "A", "Z"))


def m_is_alnum(eng, ctx, f, path, args, dty):
    c = _c(args, eng, ctx)
    return z3.Or(_rng(c, "a", "z"), _rng(c, "A", "Z"), _rng(c, "0", "9"))


def m_is_digit(eng, ctx, f, path, args, dty):
    return _rng(_c(args, eng, ctx), "0", "9")


def m_slice_is_empty(eng, ctx, f, path, args, dty):
    v = args[0]
    if isinstance(v, Ptr):
        v = eng.load_ptr(ctx, v)
    if isinstance(v, Native) and v.kind == "strvec":
        return z3.BoolVal(len(v.data) == 0)
    raise Unsupported(f"is_empty of {v}")


def m_slice_into_iter(eng, ctx, f, path, args, dty):
    v = args[0]
    if isinstance(v, Ptr):
        v = eng.load_ptr(ctx, v)
    if isinstance(v, Native) and v.kind == "strvec":
        return Native("sliceiter", (v.data, 0))
    raise Unsupported(f"iteration over {v}")


def m_slice_next(eng, ctx, f, path, args, dty):
    it = eng.load_ptr(ctx, args[0])
    if not (isinstance(it, Native) and it.kind == "sliceiter"):
        raise Unsupported(f"slice::Iter::next on {it}")
    items, pos = it.data
    if pos >= len(items):
        return Enum(0, {}, "Option")
    eng.store_ptr(ctx, args[0], Native("sliceiter", (items, pos + 1)))
    return Enum(1, {1: Agg({0: items[pos]})}, "Option")


# ---- list-shaped containers with a concrete number of elements (HashMap / IndexMap / Vec seen through iteration only) ----

def lmap(pairs):
    return Native("lmap", tuple(pairs))


def lvec(elems):
    return Native("lvec", tuple(elems))


def _load(eng, ctx, v):
    while isinstance(v, Ptr):
        v = eng.load_ptr(ctx, v)
    return v


def m_drain(eng, ctx, f, path, args, dty):
    m = _load(eng, ctx, args[0])
    if not (isinstance(m, Native) and m.kind in ("lmap", "lvec")):
        raise Unsupported(f"drain of {m}")
    eng.store_ptr(ctx, args[0], Native(m.kind, ()))
    elems = tuple(Agg({0: k, 1: v}) for k, v in m.data) if m.kind == "lmap" else m.data
    return Native("liter", (elems, 0))


def m_into_iter(eng, ctx, f, path, args, dty):
    v = args[0]
    if isinstance(v, Native) and v.kind in ("liter", "chars", "sliceiter", "iterchain"):
        return v
    w = _load(eng, ctx, v)
    if isinstance(w, Native) and w.kind == "strvec":
        return Native("sliceiter", (w.data, 0))
    if isinstance(w, Native) and w.kind == "lvec":
        # by value: the elements; by reference: pointers are not needed by the code under analysis (elements are read only)
        return Native("liter", (w.data, 0))
    if isinstance(w, Native) and w.kind == "lmap":
        return Native("liter", (tuple(Agg({0: k, 1: x}) for k, x in w.data), 0))
    from . import models_std          # everything else (Option, keyed maps, adaptor chains ...): the general model
    return models_std.m_vec_into_iter(eng, ctx, f, path, args, dty)


def m_next(eng, ctx, f, path, args, dty):
    it = eng.load_ptr(ctx, args[0])
    if isinstance(it, Native) and it.kind == "chars":
        return m_chars_next(eng, ctx, f, path, args, dty)
    if isinstance(it, Native) and it.kind in ("sliceiter", "liter"):
        items, pos = it.data
        if pos >= len(items):
            return Enum(0, {}, "Option")
        eng.store_ptr(ctx, args[0], Native(it.kind, (items, pos + 1)))
        return Enum(1, {1: Agg({0: items[pos]})}, "Option")
    from . import models_std
    return models_std.m_iter_next(eng, ctx, f, path, args, dty)


def m_vec_deref(eng, ctx, f, path, args, dty):
    return _load(eng, ctx, args[0])


LIST = {
    r"^(HashMap|IndexMap|Vec)::drain$": m_drain,
    r"as IntoIterator>::into_iter$": m_into_iter,
    r"as Iterator>::next$": m_next,
    r"^core::slice::(.*::)?iter$|^(HashMap|IndexMap|Vec)::iter$": m_into_iter,
    r"^<Vec as Deref>::deref$|^<Arc as Deref>::deref$": m_vec_deref,
}


# ---- format!: the compiler's template encoding (nightly 1.97): 0xC0 = next argument with default formatting, a byte n < 0x80 =
# a literal of n bytes follows, 0x00 = end. Anything else is refused. ----

def m_fmt_arg(eng, ctx, f, path, args, dty):
    return Native("fmtarg", args[0])


def m_fmt_args_new(eng, ctx, f, path, args, dty):
    tpl = args[0]
    if not (isinstance(tpl, Native) and tpl.kind == "str"):
        raise Unsupported(f"format template {tpl}")
    raw = unescape_rust(tpl.data[0])
    if len(raw) != tpl.data[1]:
        raise Unsupported("format template longer than the parser keeps")
    arr = _load(eng, ctx, args[1])
    fargs = [arr.f[i] for i in sorted(arr.f)] if isinstance(arr, Agg) else [arr]
    return Native("fmtargs", (tuple(ord(c) for c in raw), tuple(fargs)))


def m_fmt_format(eng, ctx, f, path, args, dty):
    a = args[0]
    if not (isinstance(a, Native) and a.kind == "fmtargs"):
        raise Unsupported(f"format of {a}")
    tpl, fargs = a.data
    out = []
    i = 0
    nxt = 0
    while i < len(tpl):
        b = tpl[i]
        if b == 0:
            break
        if b == 0xC0:
            if nxt >= len(fargs) or not (isinstance(fargs[nxt], Native) and fargs[nxt].kind == "fmtarg"):
                raise Unsupported("format argument")
            out.extend(m_to_string(eng, ctx, f, path, [fargs[nxt].data], dty).data)
            nxt += 1
            i += 1
        elif b < 0x80:
            out.extend(bv(x, 32) for x in tpl[i + 1:i + 1 + b])
            i += 1 + b
        else:
            raise Unsupported(f"format template byte {b:#x} (non-default formatting) is not modelled")
    return sstr(tuple(out))


FMT = {
    r"Argument::new_display$": m_fmt_arg,
    r"^Arguments::new$": m_fmt_args_new,
    r"^format$|^alloc::fmt::format$|^std::fmt::format$": m_fmt_format,
    r"^must_use$": m_identity,
}


# ---- insertion-ordered map with string keys (IndexMap<String, String>): a list of pairs; insert replaces the value of an equal key
# (position kept) or appends. Key equality is decided per pair of texts; symbolic texts fork. ----

def text_eq(a, b):
    if len(a) != len(b):
        return z3.BoolVal(False)
    cs = []
    for x, y in zip(a, b):
        if isinstance(x, tuple) or isinstance(y, tuple):
            if x != y:
                return z3.BoolVal(False)
        else:
            cs.append(x == y)
    return z3.And(*cs) if cs else z3.BoolVal(True)


def m_imap_insert(eng, ctx, f, path, args, dty):
    m = _load(eng, ctx, args[0])
    if not (isinstance(m, Native) and m.kind == "lmap"):
        raise Unsupported(f"IndexMap::insert on {m}")
    k, v = args[1], args[2]
    kitems = as_items(eng, ctx, k)
    alts = []
    none_eq = []
    for i, (ek, ev) in enumerate(m.data):
        eq = text_eq(as_items(eng, ctx, ek), kitems)
        cond = z3.And(eq, *none_eq)

        def do(c, i=i, ev=ev):
            pairs = list(m.data)
            pairs[i] = (pairs[i][0], v)
            eng.store_ptr(c, args[0], lmap(pairs))
            return Enum(1, {1: Agg({0: ev})}, "Option")
        alts.append((cond, do))
        none_eq.append(z3.Not(eq))

    def app(c):
        eng.store_ptr(c, args[0], lmap(list(m.data) + [(k, v)]))
        return Enum(0, {}, "Option")
    alts.append((z3.And(*none_eq) if none_eq else z3.BoolVal(True), app))
    return Fork(alts)


def m_for_each(eng, ctx, f, path, args, dty):
    it = _load(eng, ctx, args[0])
    if not (isinstance(it, Native) and it.kind in ("liter", "sliceiter")):
        raise Unsupported(f"for_each over {it}")
    items, pos = it.data
    clo = args[1]

    def script(c):
        for x in items[pos:]:
            yield ("callv", clo, [x])
        return UNIT
    return Script(script)


def m_unwrap_or_default_map(eng, ctx, f, path, args, dty):
    e = args[0]
    if isinstance(e, Enum) and isinstance(e.discr, int):
        return e.v[1].f[0] if e.discr == 1 else lmap([])
    raise Unsupported("unwrap_or_default on a symbolic Option")


def chain_elements(eng, ctx, it):
    """(base elements, [closures / fn items of map adaptors, innermost first]) of an iterator chain over a list-shaped container"""
    maps = []
    while isinstance(it, Native) and it.kind == "iterchain" and it.data[0] == "map":
        maps.append(it.data[2])
        it = it.data[1]
    it = _load(eng, ctx, it)
    if isinstance(it, Native) and it.kind in ("liter", "sliceiter"):
        return list(it.data[0][it.data[1]:]), list(reversed(maps))
    raise Unsupported(f"iterator chain over {it}")


def m_collect(eng, ctx, f, path, args, dty):
    """collect(): into String for character chains (pure element functions), into Vec for chains over list-shaped containers
    (the closures are executed as real code, in order)"""
    target = path.split("collect")[-1]
    if "String" in target and "Vec" not in target:
        return m_collect_string(eng, ctx, f, path, args, dty)
    try:
        elems, maps = chain_elements(eng, ctx, args[0])
    except Unsupported:
        from . import models_std          # adaptor chains beyond map-over-a-list: the general iterator model
        return models_std.m_iter_collect(eng, ctx, f, path, args, dty)

    def script(c):
        out = []
        for x in elems:
            v = x
            for clo in maps:
                if isinstance(clo, FnItem):
                    norm = norm_callee(clo.path)
                    h = next((hh for pat, hh in eng.models.items() if not pat.startswith("__") and re.search(pat, norm)), None)
                    if h is None:
                        raise Unsupported(f"map({clo.path}): no model")
                    v = h(eng, c, None, clo.path, [v], None)
                else:
                    v = yield ("callv", clo, [v])
            out.append(v)
        if all(isinstance(v, Native) and v.kind == "sstr" for v in out):
            return Native("strvec", tuple(out))
        return lvec(out)
    return Script(script)


MAPS = {
    r"^IndexMap::insert$": m_imap_insert,
    r"as Iterator>::for_each$": m_for_each,
    r"(^|::)Option::unwrap_or_default$": m_unwrap_or_default_map,
}


STR = {
    r"^String::(new|with_capacity)$": m_new,
    r"^String::push_str$": m_push_str,
    r"^String::push$": m_push,
    r"^String::as_str$|^<String as Deref>::deref$|^<String as AsRef>::as_ref$|^<str as AsRef>::as_ref$": m_as_str,
    r"as ToString>::to_string$": m_to_string,
    r"^core::str::(.*::)?chars$|^str::chars$": m_chars,
    r"^core::str::(.*::)?as_bytes$": lambda *a: Opaque("bytes"),
    r"^<Chars as IntoIterator>::into_iter$": m_identity,
    r"^<Chars as Iterator>::next$": m_next,
    r"as Iterator>::enumerate$": m_enumerate,
    r"as Iterator>::map$": m_map,
    r"as Iterator>::collect$": m_collect,
    r"char::(.*::)?is_ascii_alphabetic$": m_is_alpha,
    r"char::(.*::)?is_ascii_alphanumeric$": m_is_alnum,
    r"char::(.*::)?is_ascii_digit$": m_is_digit,
    r"^core::slice::(.*::)?is_empty$": m_slice_is_empty,
    r"^<&\[String\] as IntoIterator>::into_iter$": m_slice_into_iter,
    r"^<std::slice::Iter as Iterator>::next$|^<Iter as Iterator>::next$": m_next,
}


# ---------------------------------------------------------------------------------------------------------------------
# reference automata ("a strict grammar-level parser written from the exposition-format specification"), run over items

def valid_scalar(c):
    """c is a Unicode scalar value"""
    return z3.And(z3.ULE(c, bv(0x10FFFF, 32)), z3.Or(z3.ULT(c, bv(0xD800, 32)), z3.UGT(c, bv(0xDFFF, 32))))


def is_ch(c, ch):
    return c == bv(ord(ch), 32)


def name_start(c, colon=True):
    alts = [_rng(c, "a", "z"), _rng(c, "A", "Z"), is_ch(c, "_")]
    if colon:
        alts.append(is_ch(c, ":"))
    return z3.Or(*alts)


def name_char(c, colon=True):
    return z3.Or(name_start(c, colon), _rng(c, "0", "9"))


def run_dfa(items, start, step_char, step_tok, bad):
    """state after feeding `items`; states are z3 Int terms, `bad` is absorbing"""
    st = z3.IntVal(start)
    for it in items:
        if isinstance(it, tuple):
            nxt = step_tok(st, it[1])
        else:
            nxt = step_char(st, it)
        st = z3.If(st == bad, z3.IntVal(bad), nxt)
    return st


def table(st, rows, default):
    """rows: [(state, cond, next)] -> nested ite"""
    out = z3.IntVal(default)
    for s, cond, nx in reversed(rows):
        out = z3.If(z3.And(st == s, cond), z3.IntVal(nx), out)
    return out

"""ipnet / std::net values for the allowlist code (C18).
IPv4-only form:   IpNet = Native("net", (addr: bv32, prefix_len: bv8))                 IpAddr = Native("ip", addr: bv32)
two-family form:  IpNet = Native("net", (addr: bv128, prefix_len: bv8, is_v6: Bool))   IpAddr = Native("ip", (addr: bv128, is_v6: Bool))
(an IPv4 address sits in the low 32 bits; a network contains an address only of its own family; the derived orders put V4 before V6)
Contracts (ipnet 2.x documentation): contains(net, ip) <=> ip & netmask == addr & netmask; trunc() clears the host bits;
network() = addr & netmask; broadcast() = addr | hostmask; Eq/Ord are the derived ones on (addr, prefix_len); IpAddr is ordered
numerically. IPv6 goes through the same generic code paths of /repo and is outside the encoding."""
import z3
from .sym import *


def net(addr, plen):
    return Native("net", (addr, plen))


def ip(addr):
    return Native("ip", addr)


def mask(plen):
    return z3.BitVecVal(0xFFFFFFFF, 32) << (z3.BitVecVal(32, 32) - z3.ZeroExt(24, plen))


def net2(addr, plen, v6):
    return Native("net", (addr, plen, v6))


def ip2(addr, v6):
    return Native("ip", (addr, v6))


def two(v):
    return isinstance(v.data, tuple) and len(v.data) == (3 if v.kind == "net" else 2) and z3.is_bool(v.data[-1])


def mask2(plen, v6):
    p = z3.ZeroExt(120, plen)
    m6 = z3.BitVecVal((1 << 128) - 1, 128) << (z3.BitVecVal(128, 128) - p)
    m4 = (z3.BitVecVal(0xFFFFFFFF, 128) << (z3.BitVecVal(32, 128) - p)) & z3.BitVecVal(0xFFFFFFFF, 128)
    return z3.If(v6, m6, m4)


def contains_ip(n, a):
    if two(n):
        addr, plen, v6 = n.data
        ia, i6 = a
        m = mask2(plen, v6)
        return z3.And(v6 == i6, (ia & m) == (addr & m))
    m = mask(n.data[1])
    return (a & m) == (n.data[0] & m)


def _ld(eng, ctx, v):
    while isinstance(v, Ptr):
        v = eng.load_ptr(ctx, v)
    return v


def m_contains(eng, ctx, f, path, args, dty):
    n, o = _ld(eng, ctx, args[0]), _ld(eng, ctx, args[1])
    if not (isinstance(n, Native) and n.kind == "net"):
        raise Unsupported(f"IpNet::contains on {n}")
    if isinstance(o, Native) and o.kind == "ip":
        return contains_ip(n, o.data)
    if isinstance(o, Native) and o.kind == "net" and two(n):
        return z3.And(z3.ULE(n.data[1], o.data[1]), contains_ip(n, (o.data[0], o.data[2])))
    if isinstance(o, Native) and o.kind == "net":
        return z3.And(z3.ULE(n.data[1], o.data[1]), contains_ip(n, o.data[0]))
    raise Unsupported(f"IpNet::contains({n}, {o})")


def _net1(fn):
    def h(eng, ctx, f, path, args, dty):
        n = _ld(eng, ctx, args[0])
        if not (isinstance(n, Native) and n.kind == "net"):
            raise Unsupported(f"IpNet method on {n}")
        if two(n):
            a, l, v6 = n.data
            m = mask2(l, v6)
            full = z3.If(v6, z3.BitVecVal((1 << 128) - 1, 128), z3.BitVecVal(0xFFFFFFFF, 128))
            name = fn.__name__ if hasattr(fn, "__name__") else ""
            return fn2[h.which](a, l, v6, m, full)
        return fn(n.data[0], n.data[1])
    return h


fn2 = {
    "trunc": lambda a, l, v6, m, full: net2(a & m, l, v6),
    "network": lambda a, l, v6, m, full: ip2(a & m, v6),
    "broadcast": lambda a, l, v6, m, full: ip2(a | (~m & full), v6),
    "netmask": lambda a, l, v6, m, full: ip2(m, v6),
    "hostmask": lambda a, l, v6, m, full: ip2(~m & full, v6),
    "addr": lambda a, l, v6, m, full: ip2(a, v6),
    "prefix_len": lambda a, l, v6, m, full: l,
    "max_prefix_len": lambda a, l, v6, m, full: z3.If(v6, z3.BitVecVal(128, 8), z3.BitVecVal(32, 8)),
}


def native_eq(eng, ctx, a, b):
    if not (isinstance(a, Native) and isinstance(b, Native) and a.kind == b.kind):
        raise Unsupported(f"equality of {a} and {b}")
    if two(a) and two(b):
        return z3.And(*[x == y for x, y in zip(a.data, b.data)])
    if a.kind == "ip":
        return a.data == b.data
    return z3.And(a.data[0] == b.data[0], a.data[1] == b.data[1])


def native_lt(eng, ctx, a, b):
    if not (isinstance(a, Native) and isinstance(b, Native) and a.kind == b.kind):
        raise Unsupported(f"ordering of {a} and {b}")
    if two(a) and two(b):
        # derived orders of the enums IpNet / IpAddr: the V4 variant first, then the fields in order
        fa, fb = a.data[-1], b.data[-1]
        eq = z3.And(*[x == y for x, y in zip(a.data, b.data)])
        if a.kind == "ip":
            inner = z3.ULT(a.data[0], b.data[0])
        else:
            inner = z3.Or(z3.ULT(a.data[0], b.data[0]), z3.And(a.data[0] == b.data[0], z3.ULT(a.data[1], b.data[1])))
        return z3.Or(z3.And(z3.Not(fa), fb), z3.And(fa == fb, inner)), eq
    if a.kind == "ip":
        return z3.ULT(a.data, b.data), a.data == b.data
    lt = z3.Or(z3.ULT(a.data[0], b.data[0]), z3.And(a.data[0] == b.data[0], z3.ULT(a.data[1], b.data[1])))
    return lt, z3.And(a.data[0] == b.data[0], a.data[1] == b.data[1])


def install(eng):
    eng.native_eq["net"] = native_eq
    eng.native_eq["ip"] = native_eq
    eng.native_lt["net"] = native_lt
    eng.native_lt["ip"] = native_lt


def _named(which, fn):
    h = _net1(fn)
    h.which = which
    return h


def _from_ip(eng, ctx, f, path, args, dty):
    a = _ld(eng, ctx, args[0])
    if two(a):
        return net2(a.data[0], z3.If(a.data[1], z3.BitVecVal(128, 8), z3.BitVecVal(32, 8)), a.data[1])
    return net(a.data, z3.BitVecVal(32, 8))


def _is_v6(want):
    def h(eng, ctx, f, path, args, dty):
        a = _ld(eng, ctx, args[0])
        if isinstance(a, Native) and a.kind == "ip":
            v6 = a.data[1] if two(a) else z3.BoolVal(False)
            return v6 if want else z3.Not(v6)
        raise Unsupported(f"is_ipv4/is_ipv6 of {a}")
    return h


NET = {
    r"^(std::net::)?IpAddr::is_ipv6$": _is_v6(True),
    r"^(std::net::)?IpAddr::is_ipv4$": _is_v6(False),
    r"^(ipnet::)?(IpNet|Ipv4Net|Ipv6Net)::contains$": m_contains,
    r"^(ipnet::)?(IpNet|Ipv4Net|Ipv6Net)::trunc$": _named("trunc", lambda a, l: net(a & mask(l), l)),
    r"^(ipnet::)?(IpNet|Ipv4Net|Ipv6Net)::network$": _named("network", lambda a, l: ip(a & mask(l))),
    r"^(ipnet::)?(IpNet|Ipv4Net|Ipv6Net)::broadcast$": _named("broadcast", lambda a, l: ip(a | ~mask(l))),
    r"^(ipnet::)?(IpNet|Ipv4Net|Ipv6Net)::netmask$": _named("netmask", lambda a, l: ip(mask(l))),
    r"^(ipnet::)?(IpNet|Ipv4Net|Ipv6Net)::hostmask$": _named("hostmask", lambda a, l: ip(~mask(l))),
    r"^(ipnet::)?(IpNet|Ipv4Net|Ipv6Net)::addr$": _named("addr", lambda a, l: ip(a)),
    r"^(ipnet::)?(IpNet|Ipv4Net|Ipv6Net)::prefix_len$": _named("prefix_len", lambda a, l: l),
    r"^(ipnet::)?(IpNet|Ipv4Net|Ipv6Net)::max_prefix_len$": _named("max_prefix_len", lambda a, l: z3.BitVecVal(32, 8)),
    r"^<(IpNet|Ipv4Net|IpAddr|Ipv4Addr) as Clone>::clone$": lambda eng, ctx, f, path, args, dty: _ld(eng, ctx, args[0]),
    r"^<IpNet as From<IpAddr>>::from$|^<IpAddr as Into<IpNet>>::into$": _from_ip,
}

"""ipnet / std::net values for the allowlist code (C18), IPv4 only:
  IpNet  = Native("net", (addr: bv32, prefix_len: bv8))      IpAddr = Native("ip", addr: bv32)
Contracts (ipnet 2.x documentation): contains(net, ip) <=> ip & netmask == addr & netmask; trunc() clears the host bits;
network() = addr & netmask; broadcast() = addr | hostmask; Eq/Ord are the derived ones on (addr, prefix_len); IpAddr is ordered
numerically. IPv6 goes through the same generic code paths of /repo and is outside the encoding."""
import z3
from .sym import *


def net(addr, plen):
    return Native("net", (addr, plen))


def ip(addr):
    return Native("ip", addr)


def mask(plen):
    return z3.BitVecVal(0xFFFFFFFF, 32) << (z3.BitVecVal(32, 32) - z3.ZeroExt(24, plen))


def contains_ip(n, a):
    m = mask(n.data[1])
    return (a & m) == (n.data[0] & m)


def _ld(eng, ctx, v):
    while isinstance(v, Ptr):
        v = eng.load_ptr(ctx, v)
    return v


def m_contains(eng, ctx, f, path, args, dty):
    n, o = _ld(eng, ctx, args[0]), _ld(eng, ctx, args[1])
    if not (isinstance(n, Native) and n.kind == "net"):
        raise Unsupported(f"IpNet::contains on {n}")
    if isinstance(o, Native) and o.kind == "ip":
        return contains_ip(n, o.data)
    if isinstance(o, Native) and o.kind == "net":
        return z3.And(z3.ULE(n.data[1], o.data[1]), contains_ip(n, o.data[0]))
    raise Unsupported(f"IpNet::contains({n}, {o})")


def _net1(fn):
    def h(eng, ctx, f, path, args, dty):
        n = _ld(eng, ctx, args[0])
        if not (isinstance(n, Native) and n.kind == "net"):
            raise Unsupported(f"IpNet method on {n}")
        return fn(n.data[0], n.data[1])
    return h


def native_eq(eng, ctx, a, b):
    if not (isinstance(a, Native) and isinstance(b, Native) and a.kind == b.kind):
        raise Unsupported(f"equality of {a} and {b}")
    if a.kind == "ip":
        return a.data == b.data
    return z3.And(a.data[0] == b.data[0], a.data[1] == b.data[1])


def native_lt(eng, ctx, a, b):
    if not (isinstance(a, Native) and isinstance(b, Native) and a.kind == b.kind):
        raise Unsupported(f"ordering of {a} and {b}")
    if a.kind == "ip":
        return z3.ULT(a.data, b.data), a.data == b.data
    lt = z3.Or(z3.ULT(a.data[0], b.data[0]), z3.And(a.data[0] == b.data[0], z3.ULT(a.data[1], b.data[1])))
    return lt, z3.And(a.data[0] == b.data[0], a.data[1] == b.data[1])


def install(eng):
    eng.native_eq["net"] = native_eq
    eng.native_eq["ip"] = native_eq
    eng.native_lt["net"] = native_lt
    eng.native_lt["ip"] = native_lt


NET = {
    r"^(ipnet::)?(IpNet|Ipv4Net)::contains$": m_contains,
    r"^(ipnet::)?(IpNet|Ipv4Net)::trunc$": _net1(lambda a, l: net(a & mask(l), l)),
    r"^(ipnet::)?(IpNet|Ipv4Net)::network$": _net1(lambda a, l: ip(a & mask(l))),
    r"^(ipnet::)?(IpNet|Ipv4Net)::broadcast$": _net1(lambda a, l: ip(a | ~mask(l))),
    r"^(ipnet::)?(IpNet|Ipv4Net)::netmask$": _net1(lambda a, l: ip(mask(l))),
    r"^(ipnet::)?(IpNet|Ipv4Net)::hostmask$": _net1(lambda a, l: ip(~mask(l))),
    r"^(ipnet::)?(IpNet|Ipv4Net)::addr$": _net1(lambda a, l: ip(a)),
    r"^(ipnet::)?(IpNet|Ipv4Net)::prefix_len$": _net1(lambda a, l: l),
    r"^(ipnet::)?(IpNet|Ipv4Net)::max_prefix_len$": _net1(lambda a, l: z3.BitVecVal(32, 8)),
    r"^<(IpNet|Ipv4Net|IpAddr|Ipv4Addr) as Clone>::clone$": lambda eng, ctx, f, path, args, dty: _ld(eng, ctx, args[0]),
    r"^<IpNet as From<IpAddr>>::from$|^<IpAddr as Into<IpNet>>::into$": lambda eng, ctx, f, path, args, dty: net(_ld(eng, ctx, args[0]).data, z3.BitVecVal(32, 8)),
}

"""std::sync::{Arc, Weak} as operations on a strong counter (trusted base for C20). An Arc<R>/Weak<R> value is a
pointer to an `ArcInner` object: (0,) strong count, (1,) the wrapped value (a 64-bit tag). Finalisation (strong
count reaching zero) overwrites the data with DROPPED so that a later use shows up as a wrong value and as a race."""
import re
import z3
from .sym import *

DROPPED = 0xDD00DD00


def _arc_obj(eng, ctx, v):
    if isinstance(v, Ptr) and v.root[0] in ("local", "static"):
        v = eng.load_ptr(ctx, v)
    if isinstance(v, Agg) and 0 in v.f:
        v = v.f[0]
    if isinstance(v, Ptr) and v.root[0] == "obj":
        return v.root[1]
    raise Unsupported(f"not an Arc/Weak: {v}")


def m_upgrade(eng, ctx, f, path, args, dty):
    o = _arc_obj(eng, ctx, args[0])
    old = ctx.mem_rmw(o, (0,), 64, lambda x: x + 1, lambda x: x != 0, "AcqRel", "upgrade", forder="Relaxed")
    ctx.mark_site()
    return Fork([(old != 0, Enum(1, {1: Agg({0: Ptr(("obj", o))})}, "Option")), (old == 0, Enum(0, {}, "Option"))])


def m_try_unwrap(eng, ctx, f, path, args, dty):
    o = _arc_obj(eng, ctx, args[0])
    old = ctx.mem_rmw(o, (0,), 64, lambda x: bv(0), lambda x: x == 1, "AcqRel", "try_unwrap", forder="Relaxed")
    ctx.mark_site()

    def ok(c):
        v = c.mem_read(o, (1,), 64, False, "NA", "move_out")
        c.observe("recovered", value=v)
        return Enum(0, {0: Agg({0: v})}, "Result")
    return Fork([(old == 1, ok), (old != 1, Enum(1, {1: Agg({0: Ptr(("obj", o))})}, "Result"))])


def m_strong_count(eng, ctx, f, path, args, dty):
    o = _arc_obj(eng, ctx, args[0])
    v = ctx.mem_read(o, (0,), 64, True, "Relaxed", "strong_count")
    ctx.mark_site()
    return v


def m_arc_clone(eng, ctx, f, path, args, dty):
    o = _arc_obj(eng, ctx, args[0])
    ctx.mem_rmw(o, (0,), 64, lambda x: x + 1, None, "Relaxed", "arc_clone")
    ctx.mark_site()
    return Ptr(("obj", o))


def m_downgrade(eng, ctx, f, path, args, dty):
    return Ptr(("obj", _arc_obj(eng, ctx, args[0])))


def m_arc_deref(eng, ctx, f, path, args, dty):
    return Ptr(("obj", _arc_obj(eng, ctx, args[0])), (1,), "R")


def m_weak_as_ptr(eng, ctx, f, path, args, dty):
    return Ptr(("obj", _arc_obj(eng, ctx, args[0])), (1,), "R")


def recorder_call(eng, ctx, who):
    """the wrapped recorder executes: enter, use its state, exit"""
    def h(eng_, ctx_, f, path, args, dty):
        p = args[0]
        if isinstance(p, Ptr) and p.root[0] == "local":
            p = eng_.load_ptr(ctx_, p)
        if isinstance(p, Agg) and 0 in p.f:
            p = p.f[0]
        o = p.root[1]
        ctx_.observe("enter")
        v = ctx_.mem_read(o, (1,), 64, False, "NA", "recorder_state")
        ctx_.mark_site()          # the replay double yields here ("inside the recorder")
        ctx_.observe("exit", value=v)
        return Opaque("handle")
    return h


def drop_handler(eng, ctx, f, v, ty):
    t = (ty or "").strip()
    if re.match(r"^(std::sync::)?Arc<", t) or (re.match(r"^(recoverable::)?RecoveryHandle<", t)):
        if isinstance(v, Agg) and 0 in v.f:
            v = v.f[0]
        if not (isinstance(v, Ptr) and v.root[0] == "obj"):
            return None
        o = v.root[1]
        old = ctx.mem_rmw(o, (0,), 64, lambda x: x - 1, None, "AcqRel", "arc_drop")
        if "RecoveryHandle" in t:
            ctx.mark_site()       # the replay program yields right before dropping the handle  # Release decrement + the Acquire fence std issues before finalising

        def fin(c):
            c.observe("finalize")
            c.mem_write(o, (1,), 64, bv(DROPPED), False, "NA", "drop_in_place")
            return UNIT
        r = Fork([(old == 1, fin), (old != 1, UNIT)])
        # continue at the drop's target block in every alternative
        out = []
        for cond, val in r.alts:
            if not eng.feasible(ctx.pc + [cond]):
                continue
            c2 = ctx.clone()
            c2.pc.append(cond)
            if callable(val):
                val(c2)
            out.append(("ctx", c2))
        return out
    return None


ARC_MODELS = {
    r"Weak::upgrade$": m_upgrade,
    r"Arc::try_unwrap$": m_try_unwrap,
    r"(Arc|Weak)::strong_count$": m_strong_count,
    r"Arc::downgrade$": m_downgrade,
    r"^<Arc as Clone>::clone$": m_arc_clone,
    r"^<Arc as Deref>::deref$": m_arc_deref,
    r"Weak::as_ptr$|Arc::as_ptr$": m_weak_as_ptr,
    r"^(Counter|Gauge|Histogram)::noop$": lambda *a: Opaque("noop-handle"),
    r"(^|::)yield_now$|(^|::)spin_loop$": lambda *a: UNIT,
    r"core::panicking::(unreachable_display|panic|panic_fmt|panic_display)$": lambda *a: Diverge("panic", "explicit panic / unreachable!()"),
    "__drop__": drop_handler,
}

"""Program index over MIR dumps of /repo crates: bodies by name, impl resolution from source spans,
closure bodies by span, named constants, enum variant tables (from the Rust sources)."""
import os, re, subprocess, time
from . import parse
from .parse import split_top, match_close

REPO = os.environ.get("VERIF_REPO", "/repo")
VERIF = os.path.dirname(os.path.dirname(os.path.dirname(os.path.abspath(__file__))))
MIRDIR = os.path.join(VERIF, ".build", "work", os.environ.get("VERIF_PROP", "adhoc"), "mir")


def dump_mir(crate, hooks=True, force=True):
    """Regenerate the MIR text of one crate from /repo's working tree (nightly rustc)."""
    out = os.path.join(MIRDIR, crate + ".mir")
    t0 = time.time()
    r = subprocess.run([os.path.join(VERIF, "tools", "mirdump.sh"), crate, "hooks" if hooks else "nohooks", MIRDIR],
                       capture_output=True, text=True)
    if r.returncode != 0 or not os.path.exists(out) or os.path.getsize(out) == 0:
        err = open(os.path.join(MIRDIR, crate + ".err")).read()[-3000:] if os.path.exists(os.path.join(MIRDIR, crate + ".err")) else r.stderr
        raise RuntimeError(f"MIR dump of {crate} failed:\n{err}")
    return out, time.time() - t0


def strip_generics(path):
    """remove every ::<...> / <...> group from a path"""
    out = []
    i = 0
    n = len(path)
    while i < n:
        if path[i] == "<":
            try:
                j = match_close(path, i)
            except ValueError:
                out.append(path[i])
                i += 1
                continue
            if out[-2:] == [":", ":"]:
                out = out[:-2]
            i = j + 1
            continue
        out.append(path[i])
        i += 1
    return "".join(out)


def norm_callee(path):
    """callee path without generic arguments; `<T as Trait>::m` keeps its shape: `<T as Trait>::m`"""
    p = path.strip()
    if p.startswith("<"):
        try:
            j = match_close(p, 0)
        except ValueError:
            return strip_generics(p)
        inner = p[1:j]
        parts = split_top(inner, " as ")
        inner_n = " as ".join(strip_generics(x).strip() for x in parts)
        return "<" + inner_n + ">" + strip_generics(p[j + 1:])
    return strip_generics(p)


def base_name(ty):
    """last path segment of a type, without generics / refs"""
    ty = ty.strip()
    while ty.startswith(("&", "*")):
        ty = re.sub(r"^(&'\w+ |&mut |&|\*const |\*mut )", "", ty, count=1).strip()
        ty = re.sub(r"^'\w+ ", "", ty)
        if ty.startswith("mut "):
            ty = ty[4:]
    ty = strip_generics(ty)
    return ty.split("::")[-1].strip()


class Program:
    def __init__(self, crates, hooks=True, redump=True, harness=False):
        self.bodies = {}
        self.by_last = {}       # last segment -> [Body]
        self.closures = {}      # span string -> Body
        self.closures_all = {}  # span string -> [Body] (closures written inside a macro share the macro's span)
        self.consts = {}        # name suffix -> value string or Body
        self.impls = {}         # impl span -> (trait or None, self type base, header text)
        self.enums = {}         # enum base name -> [variant names]
        self.dump_times = {}
        self.files = []
        self.allocs = {}
        for c in crates:
            if redump:
                p, dt = dump_mir(c, hooks)
                self.dump_times[c] = round(dt, 1)
            else:
                p = os.path.join(MIRDIR, c + ".mir")
            self.files.append(p)
            for b in parse.parse_file(p):
                b.crate = c
                self.add(b)
            for m in re.finditer(r"^(alloc\d+) \(static: ([^,)\n]+)[,)]", open(p, errors="replace").read(), re.M):
                self.allocs[(c, m.group(1))] = m.group(2)
                self.allocs[m.group(1)] = m.group(2)
            self.scan_enums(os.path.join(REPO, c, "src"))
        if harness:
            # scenario programs written in Rust (/verif/mirharness): only their MIR is used
            hp = os.path.join(MIRDIR, "mirharness.mir")
            if redump:
                r = subprocess.run([os.path.join(VERIF, "tools", "mirdump_path.sh"), os.path.join(VERIF, "mirharness"), "mirharness", MIRDIR], capture_output=True, text=True)
                if r.returncode != 0:
                    raise RuntimeError("MIR dump of the scenario harness failed: " + open(os.path.join(MIRDIR, "mirharness.err")).read()[-2000:])
            for b in parse.parse_file(hp):
                b.crate = "mirharness"
                self.add(b)
            for m in re.finditer(r"^(alloc\d+) \(static: ([^,)\n]+)[,)]", open(hp, errors="replace").read(), re.M):
                self.allocs[("mirharness", m.group(1))] = m.group(2)
        self.enums.setdefault("Option", ["None", "Some"])
        self.enums.setdefault("Result", ["Ok", "Err"])
        self.enums.setdefault("Ordering", ["Relaxed", "Release", "Acquire", "AcqRel", "SeqCst"])
        self.enums.setdefault("RawEntryMut", ["Occupied", "Vacant"])        # hashbrown
        self.enums.setdefault("Entry", ["Occupied", "Vacant"])
        self.enums.setdefault("Cow", ["Borrowed", "Owned"])
        self.enums.setdefault("ControlFlow", ["Continue", "Break"])
        self.enums.setdefault("Poll", ["Ready", "Pending"])

    def add(self, b):
        if b.name in self.bodies and b.kind == "fn":
            return          # `const fn`s are dumped twice (const-eval and runtime MIR): keep the first
        self.bodies[b.name] = b
        last = strip_generics(b.name).split("::")[-1]
        self.by_last.setdefault(last, []).append(b)
        if b.kind == "fn" and b.args:
            m = re.match(r"^&?(?:mut )?(\{closure@[^}]*\})", b.args[0][1])
            if m and re.search(r"\{closure#\d+\}$", b.name):
                self.closures[m.group(1)] = b
                self.closures_all.setdefault(m.group(1), []).append(b)
        if b.kind in ("const", "static"):
            self.consts[b.name] = b
        m = re.search(r"<impl at ([^>]*?):(\d+):(\d+): (\d+):(\d+)>", b.name)
        if m:
            b.impl_span = m.group(0)
            if b.impl_span not in self.impls:
                self.impls[b.impl_span] = self.read_impl(m.group(1), int(m.group(2)), int(m.group(3)), int(m.group(4)), int(m.group(5)))
            b.impl = self.impls[b.impl_span]
        else:
            b.impl = None

    def read_impl(self, file, l1, c1, l2, c2):
        p = os.path.join(REPO, file)
        try:
            lines = open(p).read().split("\n")
        except OSError:
            return (None, None, "")
        txt = "\n".join(lines[l1 - 1:l2])
        txt = txt[c1 - 1:]
        # header ends at the first '{' at top level, or the span end
        hdr = re.split(r"\bwhere\b|\{", txt, maxsplit=1)[0]
        hdr = " ".join(hdr.split())
        if not hdr.startswith("impl") and not hdr.startswith("unsafe impl"):
            return (None, None, hdr)       # derive(...) spans etc.
        hdr = re.sub(r"^(unsafe )?impl", "", hdr).strip()
        if hdr.startswith("<"):
            hdr = hdr[match_close(hdr, 0) + 1:].strip()
        parts = split_top(hdr, " for ")
        if len(parts) == 2:
            return (base_name(parts[0]), base_name(parts[1]), hdr)
        return (None, base_name(hdr), hdr)

    def scan_enums(self, srcdir):
        for root, _, files in os.walk(srcdir):
            for f in files:
                if not f.endswith(".rs"):
                    continue
                txt = open(os.path.join(root, f), errors="replace").read()
                for m in re.finditer(r"\benum\s+(\w+)\s*(?:<[^{]*>)?\s*\{", txt):
                    i = m.end() - 1
                    try:
                        j = match_close(txt, i)
                    except ValueError:
                        continue
                    body = re.sub(r"//[^\n]*", "", txt[i + 1:j])
                    body = re.sub(r"#\[[^\]]*\]", "", body)
                    vs = []
                    for part in split_top(body):
                        mm = re.match(r"\s*(\w+)", part)
                        if mm:
                            vs.append(mm.group(1))
                    self.enums[m.group(1)] = vs

    # ------------------------------------------------------------------ resolution
    def const_value(self, name):
        """value string of `const path::NAME` if it is a literal const"""
        nm = strip_generics(name)
        last = nm.split("::")[-1]
        for b in self.by_last.get(last, []):
            if b.kind == "const" and (b.name == nm or nm.endswith("::" + b.name) or b.name.endswith("::" + last) or b.name == last):
                return b
        return None

    def resolve(self, path, self_type=None, from_crate=None):
        """callee path string -> Body or None. self_type: base name of the receiver type if known."""
        r = self._resolve(path, self_type, None)
        if r is None:
            # several candidates: two crates of the dump define the same `Type::method`. A path is printed relative to the crate that
            # is being compiled: `othercrate::Type::method` names the other crate, a bare `Type::method` the calling crate itself.
            sp = strip_generics(path.strip())
            first = sp.split("::")[0].replace("_", "-")
            crates = {getattr(b, "crate", None) for b in self.bodies.values()}
            want = first if first in crates else from_crate
            if want is not None:
                r = self._resolve(path, self_type, want)
        return r

    def _resolve(self, path, self_type, crate):
        p = path.strip()
        by_last = self.by_last if crate is None else {k: [b for b in v if getattr(b, "crate", None) == crate] for k, v in ((strip_generics(p).split("::")[-1].strip(), self.by_last.get(strip_generics(p).split("::")[-1].strip(), [])),)}
        return self._resolve_in(p, self_type, by_last)

    def _resolve_in(self, p, self_type, by_last_map):
        m = re.match(r"^<(.*) as (.*)>::(\w+)(?:::<.*>)?$", p, re.S)
        if m:
            ty, tr, meth = base_name(m.group(1)), base_name(m.group(2)), m.group(3)
            cands = [b for b in by_last_map.get(meth, []) if b.impl and b.impl[0] == tr and b.impl[1] == ty]
            if len(cands) == 1:
                return cands[0]
            if self_type:
                cands = [b for b in by_last_map.get(meth, []) if b.impl and b.impl[0] == tr and b.impl[1] == self_type]
                if len(cands) == 1:
                    return cands[0]
            return None
        sp = strip_generics(p)
        segs = sp.split("::")
        meth = segs[-1]
        cands = [b for b in by_last_map.get(meth, []) if b.kind == "fn"]
        if len(segs) >= 2:
            ty = segs[-2]
            c1 = [b for b in cands if b.impl and b.impl[1] == ty and b.impl[0] is None]
            if len(c1) == 1:
                return c1[0]
            c2 = [b for b in cands if b.impl and b.impl[1] == ty]
            if len(c2) == 1:
                return c2[0]
            # free function in module: match by name suffix
            c3 = [b for b in cands if not b.impl and (strip_generics(b.name) == sp or sp.endswith("::" + strip_generics(b.name)) or strip_generics(b.name).endswith("::" + meth) and strip_generics(b.name).split("::")[-2:] == segs[-2:])]
            if len(c3) == 1:
                return c3[0]
        c4 = [b for b in cands if not b.impl and strip_generics(b.name).split("::")[-1] == meth and not re.search(r"\{closure", b.name)]
        if len(segs) == 1 and len(c4) == 1:
            return c4[0]
        if len(c4) == 1 and len(segs) >= 2 and (strip_generics(c4[0].name).endswith(sp) or sp.endswith(strip_generics(c4[0].name))):
            return c4[0]
        return None

    def closure_body(self, clo):
        """body of a closure value: by span; closures expanded from one macro share a span and are told apart by the function that
        created the value (`parent::{closure#k}`)"""
        cands = self.closures_all.get(clo.span, [])
        if len(cands) > 1 and getattr(clo, "parent", None):
            mine = [b for b in cands if b.name.startswith(clo.parent + "::{closure#")]
            if len(mine) == 1:
                return mine[0]
        return self.closures.get(clo.span)

    def find(self, type_base, method, trait=None):
        cands = [b for b in self.by_last.get(method, []) if b.impl and b.impl[1] == type_base and (b.impl[0] == trait)]
        if len(cands) != 1:
            raise KeyError(f"{type_base}::{method} (trait {trait}): {len(cands)} candidates")
        return cands[0]

    def find_fn(self, suffix):
        cands = [b for n, b in self.bodies.items() if b.kind == "fn" and (n == suffix or n.endswith("::" + suffix))]
        if len(cands) != 1:
            raise KeyError(f"fn {suffix}: {len(cands)} candidates")
        return cands[0]

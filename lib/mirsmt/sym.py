"""Symbolic executor over parsed MIR (engine E3 of DESIGN.md).

Threads are executed one at a time (thread-modularly). Frame locals are kept concretely as Python
values over z3 terms; every access to a heap object is an *event* (read returns a fresh variable),
so that the interleaving and the reads-from relation are decided later by the solver (conc.py).
Branches fork the path (DFS, prefix-shared events); loops are unrolled up to a bound and an exceeded
bound yields an UNWOUND leaf that the check must show unreachable."""
import re, copy, itertools
import z3
from . import parse
from .parse import split_top
from .prog import strip_generics, base_name, norm_callee


class Unsupported(Exception):
    pass


# ------------------------------------------------------------------------------------ values
class Ptr:
    __slots__ = ("root", "path", "meta")

    def __init__(self, root, path=(), meta=None):
        self.root, self.path, self.meta = root, tuple(path), meta

    def __repr__(self):
        return f"Ptr({self.root},{self.path})"


class Agg:
    __slots__ = ("f",)

    def __init__(self, f=None):
        self.f = dict(f or {})

    def __repr__(self):
        return f"Agg({self.f})"


class Enum:
    __slots__ = ("discr", "v", "name")

    def __init__(self, discr, v=None, name=None):
        self.discr, self.v, self.name = discr, dict(v or {}), name

    def __repr__(self):
        return f"Enum[{self.name}]({self.discr},{self.v})"


class Closure:
    __slots__ = ("span", "caps", "parent")

    def __init__(self, span, caps, parent=None):
        self.span, self.caps, self.parent = span, caps, parent     # parent: name of the body that created the closure value

    def __repr__(self):
        return f"Closure({self.span})"


class FnItem:
    __slots__ = ("path",)

    def __init__(self, path):
        self.path = path

    def __repr__(self):
        return f"FnItem({self.path})"


class Opaque:
    """a value the check does not depend on (formatting, telemetry, guards); any use as data aborts"""
    __slots__ = ("what",)

    def __init__(self, what):
        self.what = what

    def __repr__(self):
        return f"Opaque({self.what})"


class Native:
    """a Python-level model object (e.g. an abstract map, a callback supplied by the scenario)"""
    __slots__ = ("kind", "data")

    def __init__(self, kind, data=None):
        self.kind, self.data = kind, data

    def __repr__(self):
        return f"Native({self.kind})"


UNIT = Agg()


def clone(v):
    if isinstance(v, Agg):
        return Agg({k: clone(x) for k, x in v.f.items()})
    if isinstance(v, Enum):
        return Enum(v.discr, {k: clone(x) for k, x in v.v.items()}, v.name)
    if isinstance(v, Closure):
        return Closure(v.span, {k: clone(x) for k, x in v.caps.items()}, v.parent)
    if isinstance(v, Native) and v.kind == "map":
        return Native("map", {k: {"present": e["present"], "val": clone(e["val"])} for k, e in v.data.items()})
    return v


INT_W = {"usize": 64, "isize": 64, "u64": 64, "i64": 64, "u32": 32, "i32": 32, "u16": 16, "i16": 16, "u8": 8, "i8": 8,
         "u128": 128, "i128": 128, "char": 32}
SIGNED = {"isize", "i64", "i32", "i16", "i8", "i128"}


def unescape_rust(lit):
    """decode the escapes of a Rust string / char literal as printed in MIR"""
    out = []
    i = 0
    simple = {"n": "\n", "t": "\t", "r": "\r", "0": "\0", "\\": "\\", "'": "'", '"': '"'}
    while i < len(lit):
        ch = lit[i]
        if ch != "\\":
            out.append(ch)
            i += 1
            continue
        nx = lit[i + 1]
        if nx in simple:
            out.append(simple[nx])
            i += 2
        elif nx == "x":
            out.append(chr(int(lit[i + 2:i + 4], 16)))
            i += 4
        elif nx == "u":
            j = lit.index("}", i)
            out.append(chr(int(lit[i + 3:j], 16)))
            i = j + 1
        else:
            raise Unsupported(f"escape in literal {lit!r}")
    return "".join(out)


def bv(x, w=64):
    return z3.BitVecVal(x, w)


def is_concrete(x):
    if isinstance(x, (int, bool)):
        return True
    if z3.is_expr(x):
        s = z3.simplify(x)
        return z3.is_bv_value(s) or z3.is_true(s) or z3.is_false(s) or z3.is_int_value(s)
    return False


def concrete(x):
    if isinstance(x, bool):
        return int(x)
    if isinstance(x, int):
        return x
    s = z3.simplify(x)
    if z3.is_bv_value(s) or z3.is_int_value(s):
        return s.as_long()
    if z3.is_true(s):
        return 1
    if z3.is_false(s):
        return 0
    raise ValueError("not concrete")


class Event:
    __slots__ = ("id", "tid", "parents", "guard", "kind", "obj", "path", "sort", "rval", "wval", "wguard", "atomic",
                 "order", "forder", "label", "assume", "depth", "site", "fn", "bb")

    def __init__(self, **kw):
        for k in self.__slots__:
            setattr(self, k, kw.get(k))

    def __repr__(self):
        return f"E{self.id}[t{self.tid} {self.kind} {self.label} obj={self.obj} path={self.path}]"


class Frame:
    targs = ()

    def __init__(self, body, fid):
        self.body = body
        self.fid = fid
        self.locals = {}
        self.bb = 0
        self.ret_to = None     # (dest place, target bb) in the caller
        self.visits = {}

    def clone(self):
        f = Frame(self.body, self.fid)
        f.targs = self.targs
        f.locals = {k: clone(v) for k, v in self.locals.items()}
        f.bb = self.bb
        f.ret_to = self.ret_to
        f.visits = dict(self.visits)
        return f


class Leaf:
    def __init__(self, ctx, status, ret=None, detail=""):
        self.tid = ctx.tid
        self.pc = list(ctx.pc)
        self.status = status      # 'done' | 'unwound' | 'cut' | 'panic'
        self.ret = ret
        self.detail = detail
        self.last_events = list(ctx.last)
        self.obs = list(ctx.obs)
        self.trace = list(ctx.trace)

    def taken(self):
        return z3.And(*self.pc) if self.pc else z3.BoolVal(True)


class Ctx:
    def __init__(self, eng, tid):
        self.eng = eng
        self.tid = tid
        self.frames = []
        self.pc = []
        self.last = []         # program-order parents of the next event (several after a merge)
        self.obs = []          # observations: (label, guard, payload dict)
        self.trace = []        # (function, bb) trail for counterexample printing
        self.nfid = 0
        self.depth = 0
        self.resumed = False
        self.just_returned = False
        self.statics = {}
        self.unwinding = False
        self.unwind_floor = 0

    def clone(self):
        c = Ctx(self.eng, self.tid)
        c.frames = [f.clone() for f in self.frames]
        c.pc = list(self.pc)
        c.last = list(self.last)
        c.obs = list(self.obs)
        c.trace = list(self.trace)
        c.nfid = self.nfid
        c.depth = self.depth
        c.statics = {k: clone(v) for k, v in self.statics.items()}
        c.unwinding = self.unwinding
        c.unwind_floor = self.unwind_floor
        return c

    def guard(self):
        return z3.And(*self.pc) if self.pc else z3.BoolVal(True)

    # -------------------------------------------------------------- events
    def _event(self, **kw):
        fr = self.frames[-1] if self.frames else None
        e = Event(id=len(self.eng.events), tid=self.tid, parents=list(self.last), guard=self.guard(),
                  fn=(fr.body.name if fr else None), bb=(fr.bb if fr else None), **kw)
        self.eng.events.append(e)
        self.last = [e]
        return e

    def mem_read(self, obj, path, sort, atomic=True, order="SeqCst", label=""):
        v = self.eng.fresh(f"r{len(self.eng.events)}_{label}", sort)
        self._event(kind="R", obj=obj, path=tuple(path), sort=sort, rval=v, atomic=atomic, order=order, label=label)
        return v

    def mem_write(self, obj, path, sort, val, atomic=True, order="SeqCst", label=""):
        self._event(kind="W", obj=obj, path=tuple(path), sort=sort, wval=val, wguard=z3.BoolVal(True), atomic=atomic, order=order, label=label)

    def mem_rmw(self, obj, path, sort, new_of_old, wguard_of_old=None, order="SeqCst", label="", assume_of_old=None, forder=None):
        v = self.eng.fresh(f"u{len(self.eng.events)}_{label}", sort)
        wg = wguard_of_old(v) if wguard_of_old else z3.BoolVal(True)
        e = self._event(kind="U", obj=obj, path=tuple(path), sort=sort, rval=v, wval=new_of_old(v), wguard=wg, atomic=True, order=order, forder=forder, label=label)
        if assume_of_old is not None:
            e.assume = assume_of_old(v)
        return v

    def mark_site(self):
        for e in self.last:
            e.site = True

    def observe(self, label, **payload):
        e = self._event(kind="O", obj=None, path=(), sort=None, label=label)
        self.obs.append((label, e, payload))
        return e

    def alloc(self, tyname, init):
        """new heap object; init: {path: (sort, value)} written by non-atomic init events"""
        oid = self.eng.new_obj(tyname)
        for path, (sort, val) in init.items():
            self.mem_write(oid, path, sort, val, atomic=False, order="Init", label=f"init:{tyname}")
        return oid


class Engine:
    def __init__(self, prog, opaque=(), loop_bound=3, await_fns=(), models=None, max_paths=400, max_depth=40):
        self.prog = prog
        self.events = []
        self.objs = {}          # id -> type name
        self.nobj = 0
        self.nfresh = 0
        self.opaque = [re.compile(x) for x in opaque]
        self.loop_bound = loop_bound
        self.await_fns = await_fns
        self.models = models or {}
        self.max_paths = max_paths
        self.max_depth = max_depth
        self.float_mode = "uf"
        self.const_override = {}
        self.loop_bounds = {}
        self.merge_fns = []
        self.merging = True
        self.static_objs = {}
        self.int_mode = False      # unsigned 64-bit integers as mathematical integers (exact when every +,-,* is overflow-checked: dev-profile MIR)
        self.len_bounds = []
        self.fmt_cache = {}
        self.nd = []
        self.drop_impls = False
        self.immutable = {}
        self.fallback = None
        self.native_eq = {}
        self.native_lt = {}
        self.solver = z3.Solver()
        self.functions_executed = set()
        self.callees_modelled = set()
        self.callees_opaque = set()
        self.leaves = {}        # tid -> [Leaf]
        self.thread_names = {}
        self.thread_first = {}
        self.statics = {}

    def fresh(self, name, sort):
        self.nfresh += 1
        nm = f"{name}#{self.nfresh}"
        if sort == "bool":
            return z3.Bool(nm)
        if sort == "ptr":
            return z3.Int(nm)
        if isinstance(sort, int):
            return z3.BitVec(nm, sort)
        raise Unsupported(f"sort {sort}")

    def new_obj(self, tyname):
        self.nobj += 1
        self.objs[self.nobj] = tyname
        return self.nobj

    def feasible(self, conds):
        self.solver.push()
        self.solver.add(*conds)
        r = self.solver.check()
        self.solver.pop()
        return r != z3.unsat

    # -------------------------------------------------------------- running a thread
    def run_thread(self, tid, name, body, args, setup=None):
        """execute `body` with argument values; returns leaves. setup(ctx) may emit events first."""
        ctx = Ctx(self, tid)
        self.thread_names[tid] = name
        if setup:
            setup(ctx)
        self.push_frame(ctx, body, args, None)
        leaves = self.drive(ctx, 0)
        self.leaves[tid] = leaves
        return leaves

    def loc_sig(self, ctx):
        return tuple((fr.body.name, fr.bb, fr.visits.get(fr.bb, 0), vrepr(fr.ret_to)) for fr in ctx.frames)

    def loc_order(self, ctx):
        key = []
        for fr in ctx.frames:
            key.append((fr.visits.get(fr.bb, 0), cfg_info(fr.body)[1].get(fr.bb, 10 ** 6)))
        return tuple(key)

    def drive(self, ctx, until_depth):
        """run one context to completion; contexts are parked at CFG joins / call returns and merged there (values
        that differ become ite terms), so that an access site yields one event per loop unrolling, not one per path.
        -> [Leaf] (all statuses)"""
        leaves = []
        stack = [ctx]
        parked = []
        while stack or parked:
            if not stack:
                groups = {}
                for c in parked:
                    groups.setdefault(self.loc_sig(c), []).append(c)
                first = min(groups, key=lambda k: self.loc_order(groups[k][0]))
                grp = groups.pop(first)
                parked = [c for g in groups.values() for c in g]
                merged = []
                for c in grp:
                    done = False
                    for m in merged:
                        try:
                            merge_two(self, m, c)
                            done = True
                            break
                        except MergeFail:
                            continue
                    if not done:
                        merged.append(c)
                for m in merged:
                    m.resumed = True
                    stack.append(m)
            c = stack.pop()
            out = self.run(c, until_depth=until_depth)
            for kind, x in out:
                if kind == "leaf":
                    leaves.append(x)
                elif kind == "park":
                    parked.append(x)
                else:
                    stack.append(x)
            if len(leaves) + len(stack) + len(parked) > self.max_paths:
                raise Unsupported(f"path explosion: > {self.max_paths} paths")
        return leaves

    def run_script(self, tid, name, script, ctx0=None):
        """A thread that performs several steps in sequence. `script()` is a generator; every effect goes through a
        request it yields (so that a path can be re-played after a fork):
          ('call', body, args) -> return value      ('branch', cond) -> True/False (forks)
          ('read', obj, path, sort, atomic, order, label) -> value   ('write', obj, path, sort, val, atomic, order, label)
          ('observe', label, payload) -> None        ('alloc', tyname, init) -> object id
        The generator's return value is the leaf's result."""
        self.thread_names[tid] = name
        leaves = []
        work = [(ctx0 if ctx0 is not None else Ctx(self, tid), [])]
        while work:
            ctx, replay = work.pop()
            gen = script()
            try:
                req = next(gen)
                for r in replay:
                    req = gen.send(r)
            except StopIteration as stop:
                lf = Leaf(ctx, "done", ret=stop.value)
                lf.ctx = ctx
                leaves.append(lf)
                continue
            kind = req[0]
            if kind == "call":
                body, args = req[1], req[2]
                base = len(ctx.frames)
                self.push_frame(ctx, body, args, None)
                done = {}
                for x in self.drive(ctx, base):
                    if x.status == "done":
                        done.setdefault(vrepr(x.ret), []).append(x)
                    else:
                        leaves.append(x)
                # merge the paths through this call whose results are identical: the continuation is shared
                for grp in done.values():
                    merged = []
                    for x in grp:
                        ok = False
                        for m in merged:
                            try:
                                merge_two(self, m, x.ctx)
                                ok = True
                                break
                            except MergeFail:
                                continue
                        if not ok:
                            merged.append(x.ctx)
                    for m in merged:
                        work.append((m, replay + [grp[0].ret]))
            elif kind == "branch":
                cond = req[1]
                for val, c in ((True, cond), (False, z3.Not(cond))):
                    if self.feasible(ctx.pc + [c]):
                        c2 = ctx.clone()
                        c2.pc.append(c)
                        work.append((c2, replay + [val]))
            elif kind == "read":
                v = ctx.mem_read(req[1], req[2], req[3], req[4], req[5], req[6])
                work.append((ctx, replay + [v]))
            elif kind == "write":
                ctx.mem_write(req[1], req[2], req[3], req[4], req[5], req[6], req[7])
                work.append((ctx, replay + [None]))
            elif kind == "observe":
                ctx.observe(req[1], **req[2])
                work.append((ctx, replay + [None]))
            elif kind == "alloc":
                oid = ctx.alloc(req[1], req[2])
                work.append((ctx, replay + [oid]))
            elif kind == "dropval":
                h = self.models.get("__drop__")
                r = h(self, ctx, None, req[1], req[2]) if h else None
                if r is None:
                    work.append((ctx, replay + [None]))
                else:
                    for k2, c2 in r:
                        work.append((c2, replay + [None]))
            elif kind == "setstatic":
                ctx.statics[req[1]] = req[2]
                work.append((ctx, replay + [None]))
            elif kind == "getstatic":
                work.append((ctx, replay + [ctx.statics.get(req[1])]))
            else:
                raise Unsupported(f"script request {req}")
            if len(leaves) + len(work) > self.max_paths:
                raise Unsupported(f"path explosion in thread {name}")
        self.leaves[tid] = leaves
        return leaves

    def push_frame(self, ctx, body, args, ret_to):
        if getattr(body, "error", None):
            raise Unsupported(f"body {body.name} was not parsed: {body.error}")
        f = Frame(body, ctx.nfid)
        ctx.nfid += 1
        f.ret_to = ret_to
        if len(args) != len(body.args):
            raise Unsupported(f"arity mismatch calling {body.name}: {len(args)} vs {len(body.args)}")
        for (n, ty), v in zip(body.args, args):
            f.locals[n] = clone(v)
        ctx.frames.append(f)
        self.functions_executed.add(body.name)
        if len(ctx.frames) > self.max_depth:
            raise Unsupported("call depth exceeded")

    # -------------------------------------------------------------- main loop for one path
    def run(self, ctx, until_depth=0):
        """run ctx until it terminates or forks. returns list of ('leaf', Leaf) / ('ctx', Ctx)"""
        while True:
            f = ctx.frames[-1]
            body = f.body
            key = f.bb
            if self.merging and not ctx.resumed and (ctx.just_returned or key in cfg_info(body)[0]):
                return [("park", ctx)]
            ctx.resumed = False
            ctx.just_returned = False
            f.visits[key] = f.visits.get(key, 0) + 1
            bound = self.loop_bound
            for pat, n in self.loop_bounds.items():
                if re.search(pat, body.name):
                    bound = n
            if f.visits[key] > bound + 1:
                is_await = any(re.search(p, body.name) for p in self.await_fns)
                lf = Leaf(ctx, "cut" if is_await else "unwound", detail=f"{body.name} bb{key}")
                return [("leaf", lf)]
            ctx.trace.append((body.name, key))
            stmts, term = body.blocks[key]
            for s in stmts:
                self.exec_stmt(ctx, f, s)
            k = term[0]
            if k == "goto":
                f.bb = term[1]
            elif k == "return":
                ret = f.locals.get(0, UNIT)
                ctx.frames.pop()
                if len(ctx.frames) <= until_depth or not ctx.frames:
                    lf = Leaf(ctx, "done", ret=ret)
                    lf.ctx = ctx
                    return [("leaf", lf)]
                caller = ctx.frames[-1]
                dest, tgt = f.ret_to
                if dest is not None:
                    self.write_place(ctx, caller, dest, ret)
                if tgt is None:
                    raise Unsupported("return into diverging call")
                caller.bb = tgt
                ctx.just_returned = True
            elif k == "switch":
                v = self.eval_operand(ctx, f, term[1])
                alts = self.switch_alts(v, term[2], term[3])
                if len(alts) == 1:
                    f.bb = alts[0][1]
                    if alts[0][0] is not None:
                        ctx.pc.append(alts[0][0])
                    continue
                out = []
                for cond, tgt in alts:
                    if not self.feasible(ctx.pc + [cond]):
                        continue
                    c2 = ctx.clone()
                    c2.pc.append(cond)
                    c2.frames[-1].bb = tgt
                    out.append(("ctx", c2))
                if not out:
                    return [("leaf", Leaf(ctx, "cut", detail="infeasible switch"))]
                return out
            elif k == "assert":
                v = self.eval_operand(ctx, f, term[1])
                cond = self.as_bool(v)
                if term[2]:
                    cond = z3.Not(cond)
                cs = z3.simplify(cond)
                if z3.is_true(cs):
                    f.bb = term[4]
                    continue
                out = []
                if self.feasible(ctx.pc + [z3.Not(cond)]):
                    c2 = ctx.clone()
                    c2.pc.append(z3.Not(cond))
                    out.append(("leaf", Leaf(c2, "panic", detail=f"{body.name}: assert {term[3][:80]}")))
                if self.feasible(ctx.pc + [cond]):
                    ctx.pc.append(cond)
                    f.bb = term[4]
                    out.append(("ctx", ctx))
                return out
            elif k == "drop":
                # user Drop impls of /repo types run as real MIR
                dty = self.place_type(f, term[1])
                db = None
                if dty:
                    cands = [b for b in self.prog.by_last.get("drop", []) if b.impl and b.impl[0] == "Drop" and b.impl[1] == base_name(dty)]
                    if len(cands) == 1 and self.drop_impls:
                        db = cands[0]
                if db is not None:
                    try:
                        ptr = self.eval_place(ctx, f, term[1])
                        has = True
                        if ptr.root[0] == "local" and not ptr.path:
                            has = ptr.root[2] in self.frame_by_id(ctx, ptr.root[1]).locals
                    except Unsupported:
                        has = False
                    if has:
                        self.push_frame(ctx, db, [ptr], (None, term[2]))
                        continue
                r = self.exec_drop(ctx, f, term[1])
                f.bb = term[2]
                if r is not None:
                    for kind2, c2 in r:
                        if kind2 == "ctx":
                            c2.frames[-1].bb = term[2]
                    return r
            elif k == "call":
                r = self.exec_call(ctx, f, term)
                if r is not None:
                    return r
            elif k == "unreachable":
                return [("leaf", Leaf(ctx, "cut", detail="unreachable"))]
            elif k == "resume" and ctx.unwinding:
                ctx.frames.pop()
                if len(ctx.frames) <= until_depth or not ctx.frames:
                    lf = Leaf(ctx, "done", ret=Native("panicked", None))
                    lf.ctx = ctx
                    ctx.unwinding = False
                    return [("leaf", lf)]
                r = self.unwind(ctx)
                if r is not None:
                    return r
            elif k in ("resume", "cleanup", "terminate", "abort"):
                return [("leaf", Leaf(ctx, "panic", detail=f"{body.name}: {k}"))]
            else:
                raise Unsupported(f"terminator {term} in {body.name}")

    def switch_alts(self, v, targets, otherwise):
        if isinstance(v, bool):
            v = int(v)
        if isinstance(v, int) or is_concrete(v):
            c = concrete(v)
            for k, t in targets:
                w = v.size() if z3.is_bv(v) else 64
                if (k % (1 << w)) == (c % (1 << w)):
                    return [(None, t)]
            return [(None, otherwise)]
        alts = []
        conds = []
        if isinstance(v, Opaque):
            # a value the check does not depend on (tracing level filters, ...): every target is possible
            v = self.fresh("opaque_switch", 64)
        for k, t in targets:
            if z3.is_bool(v):
                cnd = v if k != 0 else z3.Not(v)
            elif z3.is_int(v):
                cnd = v == k
            else:
                cnd = v == z3.BitVecVal(k, v.size())
            alts.append((cnd, t))
            conds.append(cnd)
        if otherwise is not None:
            alts.append((z3.Not(z3.Or(*conds)) if conds else z3.BoolVal(True), otherwise))
        return alts

    def as_bool(self, v):
        if isinstance(v, bool):
            return z3.BoolVal(v)
        if z3.is_bool(v):
            return v
        if z3.is_expr(v) and z3.is_int(v):
            return v != 0
        if z3.is_bv(v):
            return v != 0
        raise Unsupported(f"as_bool {v}")

    # -------------------------------------------------------------- places
    def eval_place(self, ctx, f, p):
        """-> Ptr designating the place"""
        k = p[0]
        if k == "local":
            return Ptr(("local", f.fid, p[1]))
        if k == "deref":
            v = self.read_place(ctx, f, p[1])
            if isinstance(v, Ptr):
                return v
            if isinstance(v, Agg) and 0 in v.f and isinstance(v.f[0], Ptr):   # Box/NonNull-like wrappers
                return v.f[0]
            if isinstance(v, Native) and v.kind in ("sstr", "str", "lvec", "strvec"):
                # owned and borrowed strings / slices share one value representation (`&str`, `String`, `Box<str>`): a reborrow
                # `&*s` designates the value itself (read-only cell)
                self._nderef = getattr(self, "_nderef", 0) + 1
                name = f"deref#{self._nderef}"
                ctx.statics[name] = v
                return Ptr(("static", name))
            raise Unsupported(f"deref of non-pointer {v} in {f.body.name}")
        if k == "field":
            b = self.eval_place(ctx, f, p[1])
            return Ptr(b.root, b.path + (p[2],), p[3])
        if k == "downcast":
            b = self.eval_place(ctx, f, p[1])
            return Ptr(b.root, b.path + (("variant", p[2]),))
        if k == "index":
            b = self.eval_place(ctx, f, p[1])
            i = self.read_place(ctx, f, p[2])
            return Ptr(b.root, b.path + (("idx", i),))
        if k == "constindex":
            b = self.eval_place(ctx, f, p[1])
            return Ptr(b.root, b.path + (("idx", bv(p[2])),))
        raise Unsupported(f"place {p}")

    def frame_by_id(self, ctx, fid):
        for fr in ctx.frames:
            if fr.fid == fid:
                return fr
        raise Unsupported("dangling reference to a popped frame")

    def variant_index(self, enum_name, vname):
        m = re.match(r"variant#(\d+)$", vname)
        if m:
            return int(m.group(1))
        cands = [en for en, vs in self.prog.enums.items() if vname in vs] if enum_name is None else [enum_name]
        if enum_name and enum_name in self.prog.enums and vname in self.prog.enums[enum_name]:
            return self.prog.enums[enum_name].index(vname)
        cands = [en for en, vs in self.prog.enums.items() if vname in vs]
        idxs = {self.prog.enums[c].index(vname) for c in cands}
        if len(idxs) == 1:
            return idxs.pop()
        raise Unsupported(f"variant {vname} ambiguous/unknown ({cands})")

    def load_ptr(self, ctx, ptr, ty=None):
        """read the value a Ptr designates"""
        r = ptr.root
        if r[0] == "local":
            fr = self.frame_by_id(ctx, r[1])
            if r[2] not in fr.locals:
                raise Unsupported(f"read of unset local _{r[2]} in {fr.body.name}")
            v = fr.locals[r[2]]
            return self.navigate(ctx, v, ptr.path)
        if r[0] == "obj":
            return self.heap_read(ctx, r[1], ptr.path, ty or ptr.meta, atomic=False, order="NA", label="deref")
        if r[0] == "static":
            return self.navigate(ctx, ctx.statics[r[1]], ptr.path)
        raise Unsupported(f"load through {ptr}")

    def navigate(self, ctx, v, path):
        for comp in path:
            if isinstance(comp, tuple) and comp[0] == "variant":
                if not isinstance(v, Enum):
                    raise Unsupported(f"downcast of non-enum {v}")
                idx = self.variant_index(v.name, comp[1])
                v = v.v.setdefault(idx, Agg())
            elif isinstance(comp, tuple) and comp[0] == "mapval":
                if isinstance(v, Native) and v.kind == "map":
                    v = v.data[comp[1]]["val"]
                else:
                    raise Unsupported(f"map value of {v}")
            elif isinstance(comp, tuple) and comp[0] == "idx":
                if isinstance(v, Agg):
                    i = concrete(comp[1])
                    v = v.f[i]
                elif isinstance(v, Native) and v.kind in ("lvec", "strvec"):
                    i = concrete(comp[1])
                    if not 0 <= i < len(v.data):
                        raise Unsupported(f"index {i} out of the modelled vector {v}")
                    v = v.data[i]
                else:
                    raise Unsupported(f"index into {v}")
            else:
                if isinstance(v, Agg):
                    if comp not in v.f:
                        raise Unsupported(f"field {comp} unset in {v}")
                    v = v.f[comp]
                elif isinstance(v, Closure):
                    v = list(v.caps.values())[comp]
                elif isinstance(v, Enum) and "up" in v.v:
                    v = v.v["up"].f[comp]          # coroutine state: captured variables live beside the state variants
                elif isinstance(v, Ptr) and comp == 0:
                    pass   # transparent wrappers (NonNull(ptr), Shared{data}) keep the pointer
                else:
                    raise Unsupported(f"field {comp} of {v}")
        return v

    def read_place(self, ctx, f, p):
        ptr = self.eval_place(ctx, f, p)
        ty = self.place_type(f, p)
        return self.load_ptr(ctx, ptr, ty)

    def place_type(self, f, p):
        if p[0] == "local":
            return f.body.locals.get(p[1])
        if p[0] == "field":
            return p[3]
        if p[0] == "deref":
            return pointee_type(self.place_type(f, p[1]))
        return None

    def store_ptr(self, ctx, ptr, val, ty=None):
        r = ptr.root
        if r[0] == "local":
            fr = self.frame_by_id(ctx, r[1])
            if not ptr.path:
                fr.locals[r[2]] = val
                return
            if r[2] not in fr.locals:
                fr.locals[r[2]] = Agg()
            self.store_into(ctx, fr.locals, r[2], ptr.path, val)
            return
        if r[0] == "obj":
            self.heap_write(ctx, r[1], ptr.path, val, ty or ptr.meta, atomic=False, order="NA", label="store")
            return
        if r[0] == "static":
            if not ptr.path:
                ctx.statics[r[1]] = val
            else:
                self.store_into(ctx, ctx.statics, r[1], ptr.path, val)
            return
        raise Unsupported(f"store through {ptr}")

    def store_into(self, ctx, container, key, path, val):
        cur = container[key]
        comp = path[0]
        rest = path[1:]
        if isinstance(comp, tuple) and comp[0] == "mapval":
            if not (isinstance(cur, Native) and cur.kind == "map"):
                raise Unsupported("mapval store into a non-map")
            new = Native("map", {k: dict(v) for k, v in cur.data.items()})
            container[key] = new
            if not rest:
                new.data[comp[1]]["val"] = val
            else:
                holder = {"v": clone(new.data[comp[1]]["val"])}
                self.store_into(ctx, holder, "v", rest, val)
                new.data[comp[1]]["val"] = holder["v"]
            return
        if isinstance(comp, tuple) and comp[0] == "variant":
            if not isinstance(cur, Enum):
                cur = Enum(None, {}, None)
                container[key] = cur
            idx = self.variant_index(cur.name, comp[1])
            if not rest:
                cur.v[idx] = val
            else:
                cur.v.setdefault(idx, Agg())
                self.store_into(ctx, cur.v, idx, rest, val)
            return
        if isinstance(comp, tuple) and comp[0] == "idx":
            comp = concrete(comp[1])
            if isinstance(cur, Native) and cur.kind in ("lvec", "strvec"):
                d = list(cur.data)
                if not rest:
                    d[comp] = val
                else:
                    holder = {"v": clone(d[comp])}
                    self.store_into(ctx, holder, "v", rest, val)
                    d[comp] = holder["v"]
                container[key] = Native(cur.kind, tuple(d))
                return
        if isinstance(cur, Enum) and "up" in cur.v:
            if not rest:
                cur.v["up"].f[comp] = val
            else:
                self.store_into(ctx, cur.v["up"].f, comp, rest, val)
            return
        if isinstance(cur, Closure):
            names = list(cur.caps.keys())
            if not rest:
                cur.caps[names[comp]] = val
            else:
                self.store_into(ctx, cur.caps, names[comp], rest, val)
            return
        if not isinstance(cur, Agg):
            cur = Agg()
            container[key] = cur
        if not rest:
            cur.f[comp] = val
        else:
            if comp not in cur.f:
                cur.f[comp] = Agg()
            self.store_into(ctx, cur.f, comp, rest, val)

    def write_place(self, ctx, f, p, val):
        ptr = self.eval_place(ctx, f, p)
        self.store_ptr(ctx, ptr, clone(val), self.place_type(f, p))

    # -------------------------------------------------------------- heap (event memory)
    def shape(self, ty):
        """type string -> memory sort for a scalar cell"""
        if ty is None:
            raise Unsupported("untyped heap access")
        t = ty.strip()
        t = re.sub(r"^std::(cell::UnsafeCell|mem::MaybeUninit|mem::ManuallyDrop)<(.*)>$", r"\2", t)
        t = re.sub(r"^(UnsafeCell|MaybeUninit|ManuallyDrop)<(.*)>$", r"\2", t)
        if t != ty.strip():
            return self.shape(t)
        b = t.split("::")[-1]
        if b in INT_W:
            return INT_W[b]
        if t == "bool":
            return "bool"
        if t in ("f64",):
            return 64
        if t.startswith(("&", "*const", "*mut")) or re.match(r"^(std::option::)?Option<(&|std::ptr::NonNull|NonNull|std::boxed::Box|Box)", t) \
                or re.match(r"^(crossbeam_epoch::)?(Shared|Atomic|Owned)<", t) or re.match(r"^(std::ptr::)?NonNull<", t) \
                or re.match(r"^(std::sync::)?(Arc|Weak)<", t) or re.match(r"^(std::boxed::)?Box<", t):
            return "ptr"
        m = re.match(r"^(std::sync::atomic::)?Atomic<(.*)>$", t)
        if m:
            return self.shape(m.group(2))
        if re.match(r"^(std::sync::atomic::)?Atomic(Usize|U64|Isize|I64)$", t):
            return 64
        if re.match(r"^(std::sync::atomic::)?AtomicBool$", t):
            return "bool"
        if re.match(r"^[A-Z]\w*$", t) and len(t) <= 2:      # generic type parameter: an opaque 64-bit tag
            return 64
        raise Unsupported(f"no memory shape for type `{ty}`")

    def to_scalar(self, val, sort):
        """Python value -> z3 term of the memory sort"""
        if sort == "ptr":
            if isinstance(val, Ptr):
                if val.root[0] == "null":
                    return z3.IntVal(0)
                if val.root[0] != "obj" or val.path:
                    raise Unsupported(f"only whole-object pointers may be stored in shared memory, got {val}")
                o = val.root[1]
                return z3.IntVal(o) if isinstance(o, int) else o
            if isinstance(val, Enum):      # Option<ptr>
                d = val.discr
                inner = val.v.get(1)
                p = self.to_scalar(inner.f[0], "ptr") if inner is not None and 0 in inner.f else z3.IntVal(0)
                if isinstance(d, int):
                    return p if d == 1 else z3.IntVal(0)
                return z3.If(self.discr_is(d, 1), p, z3.IntVal(0))
            if isinstance(val, Agg) and 0 in val.f:
                return self.to_scalar(val.f[0], sort)
            if z3.is_int(val):
                return val
            raise Unsupported(f"pointer store of {val}")
        if sort == "bool":
            return self.as_bool(val)
        if isinstance(sort, int):
            if isinstance(val, int):
                return bv(val, sort)
            if z3.is_bv(val):
                if val.size() != sort:
                    raise Unsupported(f"width mismatch {val.size()} vs {sort}")
                return val
            if isinstance(val, Agg) and 0 in val.f:
                return self.to_scalar(val.f[0], sort)
        raise Unsupported(f"cannot store {val} as {sort}")

    def from_scalar(self, term, sort, ty):
        if sort == "ptr":
            t = (ty or "").strip()
            if re.match(r"^(std::option::)?Option<", t):
                return Enum(z3.If(term == 0, bv(0), bv(1)), {1: Agg({0: Ptr(("obj", term))})}, "Option")
            return Ptr(("obj", term))
        return term

    def discr_is(self, d, k):
        if isinstance(d, int):
            return z3.BoolVal(d == k)
        if z3.is_int(d):
            return d == k
        return d == z3.BitVecVal(k, d.size())

    def heap_read(self, ctx, obj, path, ty, atomic, order, label):
        path = self.norm_path(path)
        if isinstance(obj, int) and (obj, path) in self.immutable:
            return self.immutable[(obj, path)]        # a field that is never written after construction (e.g. a Box pointer): no event
        sort = self.shape(ty)
        v = ctx.mem_read(obj, path, sort, atomic=atomic, order=order, label=label)
        return self.from_scalar(v, sort, ty)

    def heap_write(self, ctx, obj, path, val, ty, atomic, order, label):
        sort = self.shape(ty)
        path = self.norm_path(path)
        ctx.mem_write(obj, path, sort, self.to_scalar(val, sort), atomic=atomic, order=order, label=label)

    def norm_path(self, path):
        out = []
        for c in path:
            if isinstance(c, tuple) and c[0] == "idx":
                out.append(("idx", c[1] if not is_concrete(c[1]) else concrete(c[1])))
            else:
                out.append(c)
        return tuple(out)

    # -------------------------------------------------------------- operands / rvalues
    def eval_const(self, ctx, f, c, ty_hint=None):
        c = c.strip()
        m = re.match(r"^(-?\d+)_(\w+)$", c)
        if m and m.group(2) in INT_W:
            if self.int_mode and INT_W[m.group(2)] == 64 and m.group(2) not in SIGNED:
                return z3.IntVal(int(m.group(1)))
            return bv(int(m.group(1)), INT_W[m.group(2)])
        m = re.match(r"^(?:(?:std|core)::)?(\w+)::(MAX|MIN|BITS)$", c) or re.match(r"^(?:std|core)::num::<impl (\w+)>::(MAX|MIN|BITS)$", c)
        if m and m.group(1) in INT_W:
            w = INT_W[m.group(1)]
            if m.group(2) == "BITS":
                return bv(w, 32)
            if m.group(1) in SIGNED:
                return bv((1 << (w - 1)) - 1 if m.group(2) == "MAX" else (1 << (w - 1)), w)
            if self.int_mode and w == 64:
                return z3.IntVal((1 << w) - 1 if m.group(2) == "MAX" else 0)
            return bv((1 << w) - 1 if m.group(2) == "MAX" else 0, w)
        if c == "true":
            return z3.BoolVal(True)
        if c == "false":
            return z3.BoolVal(False)
        if c == "()":
            return UNIT
        m = re.match(r"^(-?[\d\.eE\+\-]+|inf|-inf|NaN)f64$", c)
        if m:
            import struct
            x = float(m.group(1).replace("NaN", "nan"))
            return bv(struct.unpack("<Q", struct.pack("<d", x))[0], 64)
        if len(c) >= 3 and c[0] == "'" and c[-1] == "'":
            chars = unescape_rust(c[1:-1])
            if len(chars) == 1:
                return bv(ord(chars[0]), 32)
        if c.startswith('"') or c.startswith("b\""):
            lit = c[2:-1] if c.startswith("b") else c[1:-1]
            n = len(re.sub(r"\\(x[0-9a-fA-F]{2}|u\{[0-9a-fA-F]+\}|.)", "X", lit))
            return Native("str", (lit[:24], n))
        if c.startswith("ZeroSized: "):
            t = c[11:].strip()
            if t.startswith("{closure@"):
                return Closure(t, {}, f.body.name if f is not None else None)
            return FnItem(t)
        ma = re.match(r"^\{(alloc\d+)(?:: .*)?\}$", c)
        if ma:
            name = self.prog.allocs.get((getattr(f.body, "crate", None), ma.group(1))) or self.prog.allocs.get(ma.group(1))
            if name and name.split("::")[-1] in self.static_objs:
                return self.static_objs[name.split("::")[-1]]
            if any(p.search(c) for p in self.opaque):
                return Opaque(c)
            if name:
                # a `static ITEM: T = <initializer>` of the dump: its initializer is evaluated on first use, the value lives in the
                # scenario's state from then on (interior mutability of the static is kept across uses)
                crate = getattr(f.body, "crate", None)
                key = f"static:{crate}:{name}"
                if key in ctx.statics:
                    return Ptr(("static", key))
                cands = [b for n, b in self.prog.bodies.items() if b.kind == "static" and (n == name or n.endswith("::" + name)) and (getattr(b, "crate", None) == crate or crate is None)]
                if len(cands) == 1:
                    v = self.eval_const_body(ctx, cands[0])
                    ctx.statics[key] = v
                    return Ptr(("static", key))
            raise Unsupported(f"static allocation {c} ({name}) has no object in this scenario")
        mm = re.search(r"(\w+)::promoted\[(\d+)\]$", strip_generics(c))
        if mm:
            # promoted constant of the function being executed (or of a caller that passed it on)
            cands = [b for n, b in self.prog.bodies.items() if n.endswith(f"::{mm.group(1)}::promoted[{mm.group(2)}]") or n == f"{mm.group(1)}::promoted[{mm.group(2)}]"]
            own = [b for b in cands if b.name == f"{f.body.name}::promoted[{mm.group(2)}]"]
            pick = own or cands
            if len(pick) == 1:
                v = self.eval_const_body(ctx, pick[0])
                return v
            raise Unsupported(f"promoted constant {c}: {len(cands)} candidates")
        # named constant of the crate (scenario may override, e.g. a smaller block size)
        last = strip_generics(c).split("::")[-1]
        if last in self.const_override:
            return self.const_override[last]
        b = self.prog.const_value(c)
        if b is not None:
            if b.const_value is not None:
                return self.eval_const(ctx, f, b.const_value)
            return self.eval_const_body(ctx, b)
        # enum unit variants / fn items
        sp = strip_generics(c)
        segs = sp.split("::")
        if segs[-1] in ("Less", "Equal", "Greater") and (len(segs) == 1 or segs[-2] == "Ordering"):
            return Enum({"Less": 0xFFFFFFFFFFFFFFFF, "Equal": 0, "Greater": 1}[segs[-1]], {}, "CmpOrdering")
        if len(segs) >= 2 and segs[-2] in self.prog.enums and segs[-1] in self.prog.enums[segs[-2]]:
            return Enum(self.prog.enums[segs[-2]].index(segs[-1]), {}, segs[-2])
        return FnItem(c)

    def eval_const_body(self, ctx, b):
        """evaluate a `const NAME: T = { ... }` body (straight-line)"""
        c2 = Ctx(self, ctx.tid)
        c2.pc = list(ctx.pc)
        c2.statics = ctx.statics
        self.push_frame(c2, b, [], None)
        fr = c2.frames[-1]
        merging, self.merging = self.merging, False
        try:
            out = self.run(c2)
        finally:
            self.merging = merging
        if len(out) != 1 or out[0][0] != "leaf" or out[0][1].status != "done":
            raise Unsupported(f"const body {b.name} is not straight-line")
        ret = out[0][1].ret
        if isinstance(ret, Ptr) and ret.root[0] == "local" and ret.root[1] == fr.fid:
            # a promoted `&CONST`: keep the pointee alive as a static
            key = "const:" + b.name
            ctx.statics[key] = fr.locals[ret.root[2]]
            return Ptr(("static", key), ret.path, ret.meta)
        return ret

    def eval_operand(self, ctx, f, op):
        k = op[0]
        if k in ("copy", "move"):
            return clone(self.read_place(ctx, f, op[1]))
        if k == "const":
            return self.eval_const(ctx, f, op[1])
        raise Unsupported(f"operand {op}")

    def int_info(self, ty):
        b = (ty or "").strip().split("::")[-1]
        return INT_W.get(b), b in SIGNED

    def eval_rvalue(self, ctx, f, rv, dest_ty=None):
        k = rv[0]
        if k == "use":
            return self.eval_operand(ctx, f, rv[1])
        if k in ("ref", "rawptr"):
            return self.eval_place(ctx, f, rv[2])
        if k == "binop":
            a = self.eval_operand(ctx, f, rv[2])
            b = self.eval_operand(ctx, f, rv[3])
            aty = self.operand_type(f, rv[2]) or self.operand_type(f, rv[3])
            if isinstance(a, Opaque) or isinstance(b, Opaque):
                return Opaque("derived")         # a value the check does not depend on stays one
            return self.binop(rv[1], a, b, aty, dest_ty)
        if k == "unop":
            a = self.eval_operand(ctx, f, rv[2])
            if isinstance(a, Opaque):
                return Opaque("derived")
            if rv[1] == "Not":
                if z3.is_bool(a):
                    return z3.Not(a)
                return ~a
            if rv[1] == "Neg":
                return -a
            if rv[1] == "PtrMetadata":
                if isinstance(a, Ptr) and a.meta is not None and z3.is_expr(a.meta):
                    return a.meta
                # a reference to a slice / str held as a model value: its length is the metadata
                w = a
                try:
                    while isinstance(w, Ptr):
                        w = self.load_ptr(ctx, w)
                except Exception:
                    w = None
                if isinstance(w, Native) and w.kind in ("lvec", "strvec") and isinstance(w.data, tuple):
                    return z3.IntVal(len(w.data)) if self.int_mode else bv(len(w.data), 64)
                if isinstance(w, Native) and w.kind == "sstr" and all(z3.is_expr(x) for x in w.data) and all(z3.is_bv_value(x) and x.as_long() < 128 for x in w.data):
                    return z3.IntVal(len(w.data)) if self.int_mode else bv(len(w.data), 64)
                return Opaque("ptrmeta")
        if k == "discriminant":
            v = self.read_place(ctx, f, rv[1])
            if isinstance(v, Enum):
                d = v.discr
                if isinstance(d, int):
                    return bv(d, 64)
                return d
            raise Unsupported(f"discriminant of {v} in {f.body.name}")
        if k == "cast":
            v = self.eval_operand(ctx, f, rv[1])
            return self.cast(v, rv[2], rv[3], self.operand_type(f, rv[1]), ctx)
        if k == "tuple":
            return Agg({i: self.eval_operand(ctx, f, o) for i, o in enumerate(rv[1])})
        if k == "array":
            return Agg({i: self.eval_operand(ctx, f, o) for i, o in enumerate(rv[1])})
        if k == "repeat":
            cnt = str(rv[2]).strip()
            if re.match(r"^\d+$", cnt):
                n = int(cnt)
            else:
                cv = self.eval_const(ctx, f, re.sub(r"^const ", "", cnt))
                if not z3.is_expr(cv):
                    raise Unsupported(f"array repeat count {cnt}")
                n = concrete(cv)
            v = self.eval_operand(ctx, f, rv[1])
            return Agg({i: clone(v) for i in range(n)})
        if k == "closure":
            return Closure(rv[1], {n: self.eval_operand(ctx, f, o) for n, o in rv[2]}, f.body.name)
        if k == "adt" or k == "raw":
            path = rv[1]
            fields = rv[2] if k == "adt" else []
            sp = strip_generics(path)
            segs = sp.split("::")
            vals = {i: self.eval_operand(ctx, f, o) for i, (n, o) in enumerate(fields)}
            if len(segs) >= 2 and segs[-2] in self.prog.enums and segs[-1] in self.prog.enums[segs[-2]]:
                idx = self.prog.enums[segs[-2]].index(segs[-1])
                return Enum(idx, {idx: Agg(vals)}, segs[-2])
            if len(segs) == 1 and dest_ty:
                en = base_name(dest_ty)
                if en in self.prog.enums and segs[0] in self.prog.enums[en]:
                    idx = self.prog.enums[en].index(segs[0])
                    return Enum(idx, {idx: Agg(vals)}, en)
            if k == "raw":
                raise Unsupported(f"rvalue {rv[1]} in {f.body.name}")
            return Agg(vals)
        if k == "len":
            v = self.read_place(ctx, f, rv[1])
            if isinstance(v, Agg):
                return bv(len(v.f), 64)
            raise Unsupported("Len of non-array")
        if k == "nullop":
            return Opaque(rv[1])
        raise Unsupported(f"rvalue {rv} in {f.body.name}")

    def operand_type(self, f, op):
        if op[0] in ("copy", "move"):
            return self.place_type(f, op[1])
        m = re.match(r"^-?\d+_(\w+)$", op[1].strip()) if op[0] == "const" else None
        return m.group(1) if m else None

    def binop(self, name, a, b, ty, dest_ty):
        if isinstance(a, Ptr) or isinstance(b, Ptr):
            if name in ("Eq", "Ne"):
                ea, eb = self.ptr_id(a), self.ptr_id(b)
                r = ea == eb
                return r if name == "Eq" else z3.Not(r)
            raise Unsupported(f"pointer binop {name}")
        if isinstance(a, Enum) and isinstance(b, Enum) and name in ("Eq", "Ne"):
            r = self.discr_term(a) == self.discr_term(b)
            return r if name == "Eq" else z3.Not(r)
        if isinstance(a, (Opaque, Agg, FnItem)) or isinstance(b, (Opaque, Agg, FnItem)):
            raise Unsupported(f"binop {name} on {a}, {b}")
        if (ty or "").strip() in ("f64", "f32") and z3.is_bv(a) and z3.is_bv(b):
            return self.float_binop(name, a, b, ty.strip())
        if (z3.is_expr(a) and z3.is_int(a)) or (z3.is_expr(b) and z3.is_int(b)) or (self.int_mode and isinstance(a, int) and isinstance(b, int)):
            return self.int_binop(name, a, b)
        w, signed = self.int_info(ty)
        if z3.is_bool(a) and z3.is_bool(b):
            return {"Eq": a == b, "Ne": a != b, "BitAnd": z3.And(a, b), "BitOr": z3.Or(a, b), "BitXor": z3.Xor(a, b)}[name]
        if name in ("Shl", "Shr", "ShlUnchecked", "ShrUnchecked") and z3.is_bv(a) and z3.is_bv(b) and a.size() != b.size():
            b = z3.ZeroExt(a.size() - b.size(), b) if b.size() < a.size() else z3.Extract(a.size() - 1, 0, b)
        if name in ("Add", "AddUnchecked"):
            return a + b
        if name in ("Sub", "SubUnchecked"):
            return a - b
        if name in ("Mul", "MulUnchecked"):
            return a * b
        if name == "BitAnd":
            return a & b
        if name == "BitOr":
            return a | b
        if name == "BitXor":
            return a ^ b
        if name in ("Shl", "ShlUnchecked"):
            return a << b
        if name in ("Shr", "ShrUnchecked"):
            return (a >> b) if signed else z3.LShR(a, b)
        if name == "Eq":
            return a == b
        if name == "Ne":
            return a != b
        if name == "Lt":
            return (a < b) if signed else z3.ULT(a, b)
        if name == "Le":
            return (a <= b) if signed else z3.ULE(a, b)
        if name == "Gt":
            return (a > b) if signed else z3.UGT(a, b)
        if name == "Ge":
            return (a >= b) if signed else z3.UGE(a, b)
        if name == "Div":
            return (a / b) if signed else z3.UDiv(a, b)
        if name == "Rem":
            return z3.SRem(a, b) if signed else z3.URem(a, b)
        if name in ("AddWithOverflow", "SubWithOverflow", "MulWithOverflow"):
            n = a.size()
            if name == "AddWithOverflow":
                r = a + b
                ov = z3.Not(z3.BVAddNoOverflow(a, b, signed)) if not signed else z3.Or(z3.Not(z3.BVAddNoOverflow(a, b, True)), z3.Not(z3.BVAddNoUnderflow(a, b)))
            elif name == "SubWithOverflow":
                r = a - b
                ov = z3.Not(z3.BVSubNoUnderflow(a, b, signed)) if not signed else z3.Or(z3.Not(z3.BVSubNoOverflow(a, b)), z3.Not(z3.BVSubNoUnderflow(a, b, True)))
            else:
                r = a * b
                ov = z3.Not(z3.BVMulNoOverflow(a, b, signed))
            return Agg({0: r, 1: ov})
        raise Unsupported(f"binop {name}")

    def to_int(self, x):
        if isinstance(x, bool):
            return z3.IntVal(int(x))
        if isinstance(x, int):
            return z3.IntVal(x)
        if z3.is_int(x):
            return x
        if z3.is_bv(x):
            return z3.BV2Int(x)
        if z3.is_bool(x):
            return z3.If(x, 1, 0)
        raise Unsupported(f"to_int {x}")

    def int_binop(self, name, a, b):
        """unsigned 64-bit arithmetic over mathematical integers: exact below 2^64, the overflow flag says when not"""
        a, b = self.to_int(a), self.to_int(b)
        M = z3.IntVal(1 << 64)
        if name in ("Add", "AddUnchecked"):
            return a + b
        if name in ("Sub", "SubUnchecked"):
            return a - b
        if name in ("Mul", "MulUnchecked"):
            return a * b
        if name == "AddWithOverflow":
            return Agg({0: a + b, 1: (a + b) >= M})
        if name == "SubWithOverflow":
            return Agg({0: a - b, 1: a < b})
        if name == "MulWithOverflow":
            return Agg({0: a * b, 1: (a * b) >= M})
        if name == "Eq":
            return a == b
        if name == "Ne":
            return a != b
        if name == "Lt":
            return a < b
        if name == "Le":
            return a <= b
        if name == "Gt":
            return a > b
        if name == "Ge":
            return a >= b
        if name == "Div":
            return a / b
        if name == "Rem":
            return a % b
        raise Unsupported(f"integer-mode binop {name}")

    def float_binop(self, name, a, b, ty):
        if self.float_mode == "uf" and name in ("Add", "Sub", "Mul", "Div"):
            # float arithmetic as an uninterpreted function of the operand bits: the properties decided here depend only
            # on *which* operands are combined, and hold for every function (in particular IEEE arithmetic)
            w = a.size()
            fn = z3.Function(f"f{name.lower()}{w}", z3.BitVecSort(w), z3.BitVecSort(w), z3.BitVecSort(w))
            return fn(a, b)
        srt = z3.Float64() if ty == "f64" else z3.Float32()
        fa, fb = z3.fpBVToFP(a, srt), z3.fpBVToFP(b, srt)
        rm = z3.RNE()
        if name in ("Add", "Sub", "Mul", "Div"):
            r = {"Add": z3.fpAdd, "Sub": z3.fpSub, "Mul": z3.fpMul, "Div": z3.fpDiv}[name](rm, fa, fb)
            # NaN results: hardware keeps some payload; the encoding uses one canonical NaN (documented assumption)
            return z3.fpToIEEEBV(r)
        if name == "Eq":
            return z3.fpEQ(fa, fb)
        if name == "Ne":
            return z3.Not(z3.fpEQ(fa, fb))
        if name == "Lt":
            return z3.fpLT(fa, fb)
        if name == "Le":
            return z3.fpLEQ(fa, fb)
        if name == "Gt":
            return z3.fpGT(fa, fb)
        if name == "Ge":
            return z3.fpGEQ(fa, fb)
        raise Unsupported(f"float binop {name}")

    def discr_term(self, e):
        return bv(e.discr, 64) if isinstance(e.discr, int) else e.discr

    def ptr_id(self, p):
        if isinstance(p, Ptr):
            if p.root[0] == "null":
                return z3.IntVal(0)
            if p.root[0] == "obj" and not p.path:
                o = p.root[1]
                return z3.IntVal(o) if isinstance(o, int) else o
        raise Unsupported(f"identity of pointer {p}")

    def fp_result(self, ctx, fpterm, w=64):
        """bit pattern of a floating-point term: a fresh bit-vector r with `to_fp(r) = term` on the path (SMT-LIB has no fp->bits
        function; `=` on FloatingPoint identifies all NaNs, so r is any pattern of that value)"""
        r = self.fresh("fpbits", w)
        ctx.pc.append(z3.fpBVToFP(r, z3.Float64() if w == 64 else z3.Float32()) == fpterm)
        return r

    def cast(self, v, ty, kind, from_ty, ctx=None):
        if kind == "Subtype":
            return v            # a change of lifetime variance only: same value
        if kind == "FloatToInt" and z3.is_bv(v) and v.size() in (32, 64):
            # Rust `as`: NaN -> 0, saturating at the target's bounds, otherwise truncation toward zero
            w, signed = self.int_info(ty)
            if w is None:
                raise Unsupported(f"FloatToInt to {ty}")
            srt = z3.Float64() if v.size() == 64 else z3.Float32()
            x = z3.fpBVToFP(v, srt)
            lo = -(1 << (w - 1)) if signed else 0
            hi = (1 << (w - 1)) - 1 if signed else (1 << w) - 1
            flo, fhi = z3.FPVal(float(lo), srt), z3.FPVal(float(hi + 1), srt)          # hi + 1 = 2^k is exactly representable
            body = (z3.fpToSBV if signed else z3.fpToUBV)(z3.RTZ(), x, z3.BitVecSort(w))
            return z3.If(z3.fpIsNaN(x), z3.BitVecVal(0, w), z3.If(z3.fpLT(x, flo) if signed else z3.fpLT(x, z3.FPVal(0.0, srt)), z3.BitVecVal(lo % (1 << w), w),
                                                                   z3.If(z3.fpGEQ(x, fhi), z3.BitVecVal(hi, w), body)))
        if kind == "IntToFloat" and z3.is_bv(v):
            _, signed = self.int_info(from_ty)
            srt = z3.Float64() if (ty or "").strip().endswith("f64") else z3.Float32()
            if ctx is None:
                raise Unsupported("IntToFloat outside a path")
            return self.fp_result(ctx, z3.fpSignedToFP(z3.RNE(), v, srt) if signed else z3.fpUnsignedToFP(z3.RNE(), v, srt), 64 if srt == z3.Float64() else 32)
        if kind.startswith("PointerCoercion") or kind in ("PtrToPtr", "FnPtrToPtr", "Transmute") and isinstance(v, (Ptr, FnItem, Closure)):
            return v
        if kind == "IntToInt" and z3.is_expr(v) and z3.is_int(v):
            w, _ = self.int_info(ty)
            if w is None or w >= 64:
                return v
            return v % (1 << w)
        if kind == "IntToInt":
            w, _ = self.int_info(ty)
            fw, fsigned = self.int_info(from_ty)
            if isinstance(v, Enum):
                v = self.discr_term(v)
            if z3.is_bool(v):
                v = z3.If(v, bv(1, w), bv(0, w))
                return v
            if w is None or not z3.is_bv(v):
                raise Unsupported(f"IntToInt {from_ty} -> {ty} of {v}")
            if v.size() == w:
                return v
            if v.size() > w:
                return z3.Extract(w - 1, 0, v)
            return z3.SignExt(w - v.size(), v) if fsigned else z3.ZeroExt(w - v.size(), v)
        if kind == "Transmute":
            return v
        raise Unsupported(f"cast {kind} to {ty}")

    # -------------------------------------------------------------- statements
    def exec_stmt(self, ctx, f, s):
        k = s[0]
        if k == "nop":
            return
        if k == "assign":
            dty = self.place_type(f, s[1])
            v = self.eval_rvalue(ctx, f, s[2], dty)
            self.write_place(ctx, f, s[1], v)
            return
        if k == "setdiscr":
            ptr = self.eval_place(ctx, f, s[1])
            cur = self.load_ptr(ctx, ptr) if ptr.root[0] == "local" and (ptr.path or ptr.root[2] in self.frame_by_id(ctx, ptr.root[1]).locals) else None
            if ptr.root[0] == "static":
                cur = self.load_ptr(ctx, ptr)
            if isinstance(cur, Enum):
                cur.discr = s[2]
                self.store_ptr(ctx, ptr, cur)
            else:
                self.store_ptr(ctx, ptr, Enum(s[2], {}, None))
            return
        if k == "assume":
            return
        raise Unsupported(f"statement {s} in {f.body.name}")

    # -------------------------------------------------------------- drops
    def exec_drop(self, ctx, f, place):
        try:
            v = self.read_place(ctx, f, place)
        except Unsupported:
            return None
        h = self.models.get("__drop__")
        if h:
            return h(self, ctx, f, v, self.place_type(f, place))
        return None

    # -------------------------------------------------------------- calls
    def exec_call(self, ctx, f, term):
        _, dest, fn, argops, ret_bb, unwind = term
        args = [self.eval_operand(ctx, f, a) for a in argops]
        dty = self.place_type(f, dest) if dest is not None else None
        if fn[0] == "indirect":
            callee = self.eval_operand(ctx, f, fn[1])
            return self.call_value(ctx, f, callee, args, dest, ret_bb, dty)
        path = fn[1]
        norm = norm_callee(path)
        if self.drop_impls and re.match(r"^(std|core)::mem::drop$", norm):
            # mem::drop(x) of a /repo type with a Drop impl: run that impl on the moved value
            mt = re.search(r"mem::drop::<(.*)>$", path, re.S)
            if mt:
                cands = [b for b in self.prog.by_last.get("drop", []) if b.impl and b.impl[0] == "Drop" and b.impl[1] == base_name(mt.group(1))]
                if len(cands) == 1:
                    tmp = 700000 + len(ctx.trace)
                    f.locals[tmp] = args[0]
                    if dest is not None:
                        self.write_place(ctx, f, dest, UNIT)
                    self.push_frame(ctx, cands[0], [Ptr(("local", f.fid, tmp))], (None, ret_bb))
                    return None
        # 1. models
        for pat, h in self.models.items():
            if pat.startswith("__"):
                continue
            if re.search(pat, norm):
                self.callees_modelled.add(norm)
                r = h(self, ctx, f, path, args, dty)
                return self.finish_call(ctx, f, r, dest, ret_bb)
        # 2. trait call on a generic receiver: <F as FnMut<..>>::call_mut / <T as Trait>::m  -> dispatch on the value
        trait_part = None
        if path.startswith("<"):
            try:
                j = parse.match_close(path, 0)
                parts = split_top(path[1:j], " as ")
                if len(parts) >= 2:
                    trait_part = parts[1].strip()
            except ValueError:
                pass
        if trait_part is not None and re.match(r"^(std::ops::)?(Fn|FnMut|FnOnce)<", trait_part):
            callee = args[0]
            if isinstance(callee, Ptr):
                callee_v = self.load_ptr(ctx, callee)
            else:
                callee_v = callee
            tup = args[1]
            cargs = [tup.f[i] for i in sorted(tup.f)] if isinstance(tup, Agg) else [tup]
            return self.call_value(ctx, f, callee_v, cargs, dest, ret_bb, dty, self_arg=args[0])
        # 3. body in the program
        self_ty = None
        if args and isinstance(args[0], Ptr) and args[0].root[0] == "obj" and isinstance(args[0].root[1], int):
            self_ty = base_name(self.objs.get(args[0].root[1], ""))
        b = self.prog.resolve(path, self_ty, getattr(f.body, "crate", None))
        if b is not None and not any(p.search(norm) for p in self.opaque):
            self.push_frame(ctx, b, args, (dest, ret_bb))
            mt = re.search(r"::<(.*)>$", path.strip(), re.S)
            if mt:
                ctx.frames[-1].targs = [x.strip() for x in split_top(mt.group(1))]      # generic arguments of this instantiation
            return None
        # 4. opaque
        if any(p.search(norm) for p in self.opaque):
            self.callees_opaque.add(norm)
            return self.finish_call(ctx, f, Opaque(norm), dest, ret_bb)
        # 5. general std models (fallback: only for callees without a specific model and without a body)
        if self.fallback is None:
            from . import models_std
            self.fallback = models_std.FALLBACK
        for pat, h in self.fallback.items():
            if re.search(pat, norm):
                self.callees_modelled.add(norm + " [std fallback]")
                r = h(self, ctx, f, path, args, dty)
                return self.finish_call(ctx, f, r, dest, ret_bb)
        raise Unsupported(f"no model and no body for callee `{path}` (in {f.body.name}); args={args}")

    def call_value(self, ctx, f, callee, args, dest, ret_bb, dty, self_arg=None):
        if isinstance(callee, Closure):
            b = self.prog.closure_body(callee)
            if b is None:
                raise Unsupported(f"closure body for {callee.span} not found")
            first = self_arg if self_arg is not None else callee
            # closure bodies take (&mut closure | closure, args...)
            want_ref = b.args[0][1].startswith("&")
            if want_ref and not isinstance(first, Ptr):
                # materialise the closure in a temp local of the caller frame
                tmp = max(list(f.locals.keys()) + [0]) + 1000
                f.locals[tmp] = first
                first = Ptr(("local", f.fid, tmp))
            if not want_ref and isinstance(first, Ptr):
                first = self.load_ptr(ctx, first)
            self.push_frame(ctx, b, [first] + list(args), (dest, ret_bb))
            return None
        if isinstance(callee, Native) and callable(callee.data):
            r = callee.data(self, ctx, f, args)
            return self.finish_call(ctx, f, r, dest, ret_bb)
        if hasattr(callee, "blocks"):            # a MIR body chosen by a model (value-based dispatch of a trait call)
            self.push_frame(ctx, callee, args, (dest, ret_bb))
            return None
        if isinstance(callee, FnItem):
            b = self.prog.resolve(callee.path)
            if b is not None:
                self.push_frame(ctx, b, args, (dest, ret_bb))
                return None
            norm = norm_callee(callee.path)
            if self.fallback is None:
                from . import models_std
                self.fallback = models_std.FALLBACK
            for table in (self.models, self.fallback):
                for pat, h in table.items():
                    if not pat.startswith("__") and re.search(pat, norm):
                        r = h(self, ctx, f, callee.path, args, dty)
                        return self.finish_call(ctx, f, r, dest, ret_bb)
        raise Unsupported(f"indirect call of {callee}")

    def finish_call(self, ctx, f, r, dest, ret_bb):
        """r: value | Fork([(cond, value)]) | Diverge"""
        if isinstance(r, Fork):
            alive = [(cond, val) for cond, val in r.alts if cond is None or self.feasible(ctx.pc + [cond])]
            if len(alive) == 1 and not callable(alive[0][1]) and not isinstance(alive[0][1], (Diverge, Unwind, TailCall, Fork, Script)):
                # only one alternative is possible here: no fork, the path simply continues (with the condition recorded)
                cond, val = alive[0]
                if cond is not None and not z3.is_true(z3.simplify(cond)):
                    ctx.pc.append(cond)
                return self.finish_call(ctx, f, val, dest, ret_bb)
            out = []
            for cond, val in alive:
                c2 = ctx.clone()
                if cond is not None:
                    c2.pc.append(cond)
                f2 = c2.frames[-1]
                if callable(val):
                    val = val(c2)
                if isinstance(val, Fork):          # an alternative that forks again (e.g. "the table may grow at this insert")
                    r2 = self.finish_call(c2, f2, val, dest, ret_bb)
                    out.extend(r2 if r2 is not None else [("ctx", c2)])
                    continue
                if isinstance(val, Diverge):
                    out.append(("leaf", Leaf(c2, val.status, detail=val.detail)))
                    continue
                if isinstance(val, Unwind):
                    r2 = self.unwind(c2)
                    out.extend(r2 if r2 is not None else [("ctx", c2)])
                    continue
                if isinstance(val, TailCall):
                    r2 = self.call_value(c2, f2, val.callee, val.args, dest, ret_bb, None)
                    out.extend(r2 if r2 is not None else [("ctx", c2)])
                    continue
                if isinstance(val, Script):
                    out.extend(self.run_model_script(c2, val, dest, ret_bb))
                    continue
                if dest is not None:
                    self.write_place(c2, f2, dest, val)
                if ret_bb is None:
                    out.append(("leaf", Leaf(c2, "panic", detail="diverging call returned")))
                    continue
                f2.bb = ret_bb
                out.append(("ctx", c2))
            if not out:
                return [("leaf", Leaf(ctx, "cut", detail="infeasible model fork"))]
            return out
        if isinstance(r, Diverge):
            return [("leaf", Leaf(ctx, r.status, detail=r.detail))]
        if isinstance(r, TailCall):
            return self.call_value(ctx, f, r.callee, r.args, dest, ret_bb, None)
        if isinstance(r, Script):
            return self.run_model_script(ctx, r, dest, ret_bb)
        if isinstance(r, Unwind):
            return self.unwind(ctx)
        if dest is not None:
            self.write_place(ctx, f, dest, r)
        if ret_bb is None:
            return [("leaf", Leaf(ctx, "panic", detail="diverging call"))]
        f.bb = ret_bb
        return None

    def run_model_script(self, ctx, script, dest, ret_bb):
        out = []
        work = [(ctx, [])]
        while work:
            c, replay = work.pop()
            gen = script.fn(c)
            try:
                req = next(gen)
                for r in replay:
                    req = gen.send(r)
            except StopIteration as stop:
                r2 = self.finish_call(c, c.frames[-1], stop.value, dest, ret_bb)
                out.extend(r2 if r2 is not None else [("ctx", c)])
                continue
            if req[0] == "observe":
                c.observe(req[1], **req[2])
                work.append((c, replay + [None]))
                continue
            if req[0] == "effect":
                # a state change of the modelled callee: performed once, when first reached (replays skip it)
                rv = req[1](c)
                work.append((c, replay + [rv]))
                continue
            if req[0] == "branch":
                cond = req[1]
                sc_ = z3.simplify(cond) if z3.is_expr(cond) else z3.BoolVal(bool(cond))
                if z3.is_true(sc_):
                    work.append((c, replay + [True]))
                elif z3.is_false(sc_):
                    work.append((c, replay + [False]))
                else:
                    for val, cc in ((True, cond), (False, z3.Not(cond))):
                        if self.feasible(c.pc + [cc]):
                            c2 = c.clone()
                            c2.pc.append(cc)
                            work.append((c2, replay + [val]))
                continue
            if req[0] != "callv":
                raise Unsupported(f"model script request {req[0]}")
            callee, args = req[1], list(req[2])
            base = len(c.frames)
            if isinstance(callee, Closure):
                b = self.prog.closure_body(callee)
                if b is None:
                    raise Unsupported(f"closure body for {callee.span} not found")
                first = callee
                if b.args and b.args[0][1].startswith("&"):
                    tmp = 820000 + len(self.events) + len(c.frames) * 1000 + len(replay)
                    c.frames[-1].locals[tmp] = callee
                    first = Ptr(("local", c.frames[-1].fid, tmp))
                self.push_frame(c, b, [first] + args, None)
            elif hasattr(callee, "blocks"):
                self.push_frame(c, callee, args, None)
            else:
                raise Unsupported(f"model script call of {callee}")
            merging, self.merging = self.merging, False
            try:
                leaves = self.drive(c, base)
            finally:
                self.merging = merging
            for x in leaves:
                if x.status == "done":
                    work.append((x.ctx, replay + [x.ret]))
                else:
                    out.append(("leaf", x))
            if len(work) + len(out) > self.max_paths:
                raise Unsupported("path explosion in a model script")
        return out

    def unwind(self, ctx):
        """a panic propagates: continue at the unwind target of the call being executed in the top frame; frames
        without a cleanup target are popped"""
        while ctx.frames:
            fr = ctx.frames[-1]
            term = fr.body.blocks[fr.bb][1]
            tgt = None
            if term[0] == "call" and term[5]:
                m = re.match(r"bb(\d+)", term[5].strip())
                if m:
                    tgt = int(m.group(1))
            elif term[0] == "drop" and term[3]:
                m = re.match(r"bb(\d+)", str(term[3]).strip())
                if m:
                    tgt = int(m.group(1))
            if tgt is not None:
                fr.bb = tgt
                ctx.unwinding = True
                return None
            ctx.frames.pop()
            if len(ctx.frames) <= ctx.unwind_floor:
                break
        lf = Leaf(ctx, "done", ret=Native("panicked", None))
        lf.ctx = ctx
        return [("leaf", lf)]


def pointee_type(ty):
    if not ty:
        return None
    t = ty.strip()
    m = re.match(r"^&(?:'\w+ )?(?:mut )?(.*)$", t, re.S)
    if m:
        return m.group(1).strip()
    m = re.match(r"^\*(?:const|mut) (.*)$", t, re.S)
    if m:
        return m.group(1).strip()
    m = re.match(r"^(?:std::boxed::)?Box<(.*)>$", t, re.S)
    if m:
        return split_top(m.group(1))[0]
    return None


def _place_root(p):
    while p[0] != "local":
        p = p[1]
    return p[1]


def _place_index_locals(p, acc):
    while p[0] != "local":
        if p[0] == "index":
            acc.add(p[2][1])
        p = p[1]


def _op_uses(op, acc):
    if op[0] in ("copy", "move"):
        acc.add(_place_root(op[1]))
        _place_index_locals(op[1], acc)


def _rv_uses(rv, acc):
    k = rv[0]
    if k == "use":
        _op_uses(rv[1], acc)
    elif k in ("ref", "rawptr"):
        acc.add(_place_root(rv[2]))
        _place_index_locals(rv[2], acc)
    elif k == "binop":
        _op_uses(rv[2], acc)
        _op_uses(rv[3], acc)
    elif k in ("unop", "cast", "shallow_init_box"):
        _op_uses(rv[2] if k == "unop" else rv[1], acc)
    elif k in ("discriminant", "len"):
        acc.add(_place_root(rv[1]))
    elif k in ("tuple", "array"):
        for o in rv[1]:
            _op_uses(o, acc)
    elif k == "repeat":
        _op_uses(rv[1], acc)
    elif k in ("closure", "adt"):
        for _, o in rv[2]:
            _op_uses(o, acc)


def liveness(body):
    """live-in sets per basic block (locals that may be read before being fully overwritten)"""
    if getattr(body, "_live", None) is not None:
        return body._live
    use, dfn, succ = {}, {}, {}
    for bb, (stmts, term) in body.blocks.items():
        u, d = set(), set()

        def rd(x):
            if x not in d:
                u.add(x)
        for st in stmts:
            if st[0] == "assign":
                acc = set()
                _rv_uses(st[2], acc)
                for x in acc:
                    rd(x)
                if st[1][0] == "local":
                    d.add(st[1][1])
                else:
                    rd(_place_root(st[1]))
                    a2 = set()
                    _place_index_locals(st[1], a2)
                    for x in a2:
                        rd(x)
            elif st[0] == "setdiscr":
                rd(_place_root(st[1]))
        t = term
        nxt = []
        if t[0] == "goto":
            nxt = [t[1]]
        elif t[0] == "switch":
            acc = set()
            _op_uses(t[1], acc)
            for x in acc:
                rd(x)
            nxt = [b for _, b in t[2]] + ([t[3]] if t[3] is not None else [])
        elif t[0] == "assert":
            acc = set()
            _op_uses(t[1], acc)
            for x in acc:
                rd(x)
            nxt = [t[4]]
        elif t[0] == "drop":
            rd(_place_root(t[1]))
            nxt = [t[2]]
        elif t[0] == "call":
            acc = set()
            for a in t[3]:
                _op_uses(a, acc)
            if t[2][0] == "indirect":
                _op_uses(t[2][1], acc)
            for x in acc:
                rd(x)
            if t[1] is not None:
                if t[1][0] == "local":
                    d.add(t[1][1])
                else:
                    rd(_place_root(t[1]))
            nxt = [t[4]] if t[4] is not None else []
        elif t[0] == "return":
            rd(0)
        use[bb], dfn[bb], succ[bb] = u, d, [n for n in nxt if n is not None]
    live = {bb: set(use[bb]) for bb in body.blocks}
    changed = True
    while changed:
        changed = False
        for bb in body.blocks:
            out = set()
            for n in succ[bb]:
                out |= live.get(n, set())
            new = use[bb] | (out - dfn[bb])
            if new != live[bb]:
                live[bb] = new
                changed = True
    body._live = live
    return live


def cfg_info(body):
    """(join blocks, reverse-postorder index) of the non-cleanup CFG"""
    if getattr(body, "_cfg", None) is not None:
        return body._cfg
    succ = {}
    for bb, (stmts, t) in body.blocks.items():
        nxt = []
        if t[0] == "goto":
            nxt = [t[1]]
        elif t[0] == "switch":
            nxt = [b for _, b in t[2]] + ([t[3]] if t[3] is not None else [])
        elif t[0] == "assert":
            nxt = [t[4]]
        elif t[0] == "drop":
            nxt = [t[2]]
        elif t[0] == "call":
            nxt = [t[4]] if t[4] is not None else []
        succ[bb] = [n for n in nxt if n is not None and n not in body.cleanup]
    preds = {}
    for b, ns in succ.items():
        for n in set(ns):
            preds[n] = preds.get(n, 0) + 1
    order, seen = [], set()
    stack = [(0, iter(succ.get(0, [])))]
    seen.add(0)
    while stack:
        b, it = stack[-1]
        adv = False
        for n in it:
            if n not in seen:
                seen.add(n)
                stack.append((n, iter(succ.get(n, []))))
                adv = True
                break
        if not adv:
            order.append(b)
            stack.pop()
    rpo = {b: i for i, b in enumerate(reversed(order))}
    joins = {b for b, k in preds.items() if k >= 2}
    body._cfg = (joins, rpo)
    return body._cfg


def vrepr(v):
    if isinstance(v, Ptr):
        r = v.root
        rr = (r[0], vrepr(r[1])) + tuple(r[2:]) if r[0] == "obj" else r
        return f"P{rr}{[vrepr(x) if not isinstance(x, (int, str)) else x for x in v.path]}"
    if isinstance(v, Agg):
        return "A{" + ",".join(f"{k}:{vrepr(x)}" for k, x in sorted(v.f.items(), key=lambda kv: str(kv[0]))) + "}"
    if isinstance(v, Enum):
        return f"E[{v.name}]({vrepr(v.discr)}," + ",".join(f"{k}:{vrepr(x)}" for k, x in sorted(v.v.items())) + ")"
    if isinstance(v, Closure):
        return f"C[{v.span}]" + ",".join(f"{k}:{vrepr(x)}" for k, x in v.caps.items())
    if isinstance(v, Native):
        if isinstance(v.data, list):
            return f"N[{v.kind}]" + ",".join(vrepr(x) for x in v.data)
        if isinstance(v.data, tuple) and v.kind in ("sstr", "chars", "strvec", "sliceiter", "kmap", "lmap", "lvec", "liter", "entry", "handle"):
            return f"N[{v.kind}]" + vrepr(v.data)
        return f"N[{v.kind}]{id(v.data)}"
    if isinstance(v, tuple):
        return "(" + ",".join(vrepr(x) for x in v) + ")"
    if z3.is_expr(v):
        return v.sexpr()
    return repr(v)


class MergeFail(Exception):
    pass


def merge_val(a, b, c):
    """value that equals a when c holds and b otherwise"""
    if a is b:
        return a
    if isinstance(a, bool) and isinstance(b, bool):
        if a == b:
            return a
        a, b = z3.BoolVal(a), z3.BoolVal(b)
    if isinstance(a, int) and isinstance(b, int) and not isinstance(a, bool):
        if a == b:
            return a
        a, b = z3.IntVal(a), z3.IntVal(b)
    if z3.is_expr(a) and z3.is_expr(b):
        if a.sort() != b.sort():
            raise MergeFail("sorts")
        if a.eq(b):
            return a
        return z3.If(c, a, b)
    if isinstance(a, Ptr) and isinstance(b, Ptr):
        if a.root[0] != b.root[0] or len(a.path) != len(b.path):
            raise MergeFail("ptr shape")
        if a.root[0] == "obj":
            ia = z3.IntVal(a.root[1]) if isinstance(a.root[1], int) else a.root[1]
            ib = z3.IntVal(b.root[1]) if isinstance(b.root[1], int) else b.root[1]
            root = ("obj", a.root[1] if ia.eq(ib) else z3.If(c, ia, ib))
        elif a.root == b.root:
            root = a.root
        else:
            raise MergeFail("ptr root")
        path = []
        for x, y in zip(a.path, b.path):
            if isinstance(x, tuple) and isinstance(y, tuple) and x[0] == "idx" and y[0] == "idx":
                path.append(("idx", merge_val(x[1], y[1], c)))
            elif x == y:
                path.append(x)
            else:
                raise MergeFail("ptr path")
        return Ptr(root, tuple(path), a.meta if a.meta == b.meta else (a.meta or b.meta))
    if isinstance(a, Agg) and isinstance(b, Agg):
        out = {}
        for k in set(a.f) | set(b.f):
            if k in a.f and k in b.f:
                out[k] = merge_val(a.f[k], b.f[k], c)
            else:
                out[k] = a.f.get(k, b.f.get(k))
        return Agg(out)
    if isinstance(a, Enum) and isinstance(b, Enum):
        da = bv(a.discr) if isinstance(a.discr, int) else a.discr
        db = bv(b.discr) if isinstance(b.discr, int) else b.discr
        if da is None or db is None:
            raise MergeFail("enum discr")
        d = a.discr if (isinstance(a.discr, int) and isinstance(b.discr, int) and a.discr == b.discr) else merge_val(da, db, c)
        vs = {}
        for k in set(a.v) | set(b.v):
            if k in a.v and k in b.v:
                vs[k] = merge_val(a.v[k], b.v[k], c)
            else:
                vs[k] = a.v.get(k, b.v.get(k))
        return Enum(d, vs, a.name or b.name)
    if isinstance(a, Native) and isinstance(b, Native) and a.kind == b.kind:
        if isinstance(a.data, list) and isinstance(b.data, list) and len(a.data) == len(b.data):
            return Native(a.kind, [merge_val(x, y, c) for x, y in zip(a.data, b.data)])
        if a.kind == "map":
            out = {}
            for k in set(a.data) | set(b.data):
                ea = a.data.get(k, {"present": False, "val": None})
                eb = b.data.get(k, {"present": False, "val": None})
                pa = z3.BoolVal(ea["present"]) if isinstance(ea["present"], bool) else ea["present"]
                pb = z3.BoolVal(eb["present"]) if isinstance(eb["present"], bool) else eb["present"]
                pres = ea["present"] if (isinstance(ea["present"], bool) and isinstance(eb["present"], bool) and ea["present"] == eb["present"]) else z3.If(c, pa, pb)
                if ea["val"] is None or eb["val"] is None:
                    val = ea["val"] if ea["val"] is not None else eb["val"]
                else:
                    val = merge_val(ea["val"], eb["val"], c)
                out[k] = {"present": pres, "val": val}
            return Native("map", out)
        if a.kind == "slice":
            return Native("slice", (merge_val(a.data[0], b.data[0], c), merge_val(a.data[1], b.data[1], c)))
        if a.data is b.data:
            return a
    if vrepr(a) == vrepr(b):
        return a
    raise MergeFail(f"{type(a).__name__} vs {type(b).__name__}")


def merge_two(eng, x, y):
    """merge context y into x (same control location). raises MergeFail"""
    cx = z3.And(*x.pc) if x.pc else z3.BoolVal(True)
    cy = z3.And(*y.pc) if y.pc else z3.BoolVal(True)
    new_locals = []
    for fx, fy in zip(x.frames, y.frames):
        live = liveness(fx.body).get(fx.bb, set()) if fx is x.frames[-1] else None
        out = {}
        keys = set(fx.locals) | set(fy.locals)
        for k in keys:
            if live is not None and k not in live:
                continue
            if k in fx.locals and k in fy.locals:
                out[k] = merge_val(fx.locals[k], fy.locals[k], cx)
            else:
                out[k] = fx.locals.get(k, fy.locals.get(k))
        new_locals.append(out)
    if x.statics or y.statics:
        ns = {}
        for k in set(x.statics) | set(y.statics):
            ns[k] = merge_val(x.statics[k], y.statics[k], cx) if k in x.statics and k in y.statics else x.statics.get(k, y.statics.get(k))
        x.statics = ns
    for fx, fy, loc in zip(x.frames, y.frames, new_locals):
        fx.locals = loc
        for k, v in fy.visits.items():
            if v > fx.visits.get(k, 0):
                fx.visits[k] = v
    x.pc = [z3.simplify(z3.Or(cx, cy))]
    seen = {e.id for e in x.last}
    for e in y.last:
        if e.id not in seen:
            x.last.append(e)
            seen.add(e.id)
    oseen = {o[1].id for o in x.obs}
    for o in y.obs:
        if o[1].id not in oseen:
            x.obs.append(o)
            oseen.add(o[1].id)
    return x


def merge_ctxs(group):
    """merge contexts whose live state is identical: the path condition becomes the disjunction, the next event gets
    all their last events as program-order parents"""
    if len(group) == 1:
        return group[0]
    c = group[0]
    conds = [z3.And(*g.pc) if g.pc else z3.BoolVal(True) for g in group]
    c.pc = [z3.simplify(z3.Or(*conds))]
    lasts, seen = [], set()
    obs, oseen = [], set()
    for g in group:
        for e in g.last:
            if e.id not in seen:
                seen.add(e.id)
                lasts.append(e)
        for o in g.obs:
            if o[1].id not in oseen:
                oseen.add(o[1].id)
                obs.append(o)
    c.last = lasts
    c.obs = obs
    return c


class TailCall:
    """model result: perform this call (closure / fn item / native) in place of the modelled callee"""
    def __init__(self, callee, args):
        self.callee, self.args = callee, args


class Script:
    """model result: the modelled callee performs several calls of real code (closures / bodies) in sequence. `fn(ctx)` is a
    generator: `yield ("callv", closure_or_body, [args])` -> return value of that call; its own return value is the result of
    the modelled call. A fork inside a step re-plays the generator on each alternative, feeding it the recorded answers: it must be
    deterministic given those answers: it reads and changes state only inside `yield ("effect", lambda ctx: ...)` (performed once;
    its return value is the answer). `yield ("branch", cond)` -> True/False forks on a symbolic condition; `yield ("observe", label, payload)`."""
    def __init__(self, fn):
        self.fn = fn


class Unwind:
    """model result: the callee panics; unwinding starts at the call site"""
    pass


class Fork:
    def __init__(self, alts):
        self.alts = alts


class Diverge:
    def __init__(self, status, detail=""):
        self.status, self.detail = status, detail

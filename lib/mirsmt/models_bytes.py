"""Length-abstract byte buffers for the DogStatsD payload writer (C09): a Vec<u8> is a list of *segments*
(label, length term); strings/slices are opaque segments with symbolic 64-bit lengths. extend/push append segments;
truncate, range indexing and the in-place header patch must land on segment boundaries (decided by the solver from
the length terms) — anything else is recorded as an observation that the check reports as a violation.
Numbers are formatted by itoa/ryu into opaque strings of 1..20 / 3..24 bytes (their documented output lengths)."""
import re
import z3
from .sym import *


def iv(x):
    return z3.IntVal(x) if isinstance(x, int) else x


def seglen(s):
    return iv(s[1])


def total(segs):
    t = z3.IntVal(0)
    for s in segs:
        t = t + seglen(s)
    return z3.simplify(t)


def as_segs(eng, ctx, v):
    """value used as a byte slice -> list of segments"""
    if isinstance(v, Ptr):
        v = eng.load_ptr(ctx, v)
    if isinstance(v, Native):
        if v.kind == "str":
            return [("str:" + str(v.data[0]), v.data[1])]
        if v.kind == "bytes":
            return list(v.data)
        if v.kind == "le":
            return [("le32", 4, v.data)]
    if isinstance(v, Agg):
        return [("array", len(v.f))]
    raise Unsupported(f"not a byte slice: {v}")


def bytes_at(eng, ctx, p):
    v = eng.load_ptr(ctx, p)
    if not (isinstance(v, Native) and v.kind == "bytes"):
        raise Unsupported(f"no byte buffer at {p}: {v}")
    return v


def m_vec_new(eng, ctx, f, path, args, dty):
    if "Vec::<u8>" in path:
        return Native("bytes", [])
    return Native("vec", [])


def _hw_key(p):
    return "hw:" + repr((p.root, p.path)) if isinstance(p, Ptr) else "hw:?"


def note_growth(eng, ctx, p, segs):
    """high-water mark of a byte buffer's length (a Vec never shrinks its allocation on clear/truncate)"""
    k = _hw_key(p)
    t = total(segs)
    old = ctx.statics.get(k, z3.IntVal(0))
    ctx.statics[k] = z3.If(t > old, t, old)


def m_capacity(eng, ctx, f, path, args, dty):
    """Vec::capacity: the largest length the buffer has had (clear/truncate keep the allocation). The real capacity lies between
    that and twice that (amortised doubling); the model takes the lower end, so that a behaviour that depends on a large capacity is
    only reported when the history really grew the buffer that far (and then reproduces natively)."""
    b = bytes_at(eng, ctx, args[0])
    hw = ctx.statics.get(_hw_key(args[0]), z3.IntVal(0))
    t = total(b.data)
    return z3.If(hw > t, hw, t)


def m_shrink(eng, ctx, f, path, args, dty):
    return UNIT


def m_extend(eng, ctx, f, path, args, dty):
    b = bytes_at(eng, ctx, args[0])
    new = b.data + as_segs(eng, ctx, args[1])
    eng.store_ptr(ctx, args[0], Native("bytes", new))
    note_growth(eng, ctx, args[0], new)
    return UNIT


def m_push(eng, ctx, f, path, args, dty):
    v = eng.load_ptr(ctx, args[0])
    if isinstance(v, Native) and v.kind == "bytes":
        x = args[1]
        lab = "byte:" + (chr(concrete(x)) if is_concrete(x) and 32 <= concrete(x) < 127 else ("\\n" if is_concrete(x) and concrete(x) == 10 else "?"))
        eng.store_ptr(ctx, args[0], Native("bytes", v.data + [(lab, 1)]))
        note_growth(eng, ctx, args[0], v.data + [(lab, 1)])
        return UNIT
    if isinstance(v, Native) and v.kind == "vec":
        eng.store_ptr(ctx, args[0], Native("vec", v.data + [args[1]]))
        return UNIT
    raise Unsupported(f"push on {v}")


def m_len(eng, ctx, f, path, args, dty):
    v = eng.load_ptr(ctx, args[0]) if isinstance(args[0], Ptr) else args[0]
    if isinstance(v, Native) and v.kind == "bytes":
        return total(v.data)
    if isinstance(v, Native) and v.kind in ("vec", "drain", "f64iter"):
        return z3.IntVal(len(v.data))
    if isinstance(v, Native) and v.kind == "str":
        return iv(v.data[1])
    raise Unsupported(f"len of {v}")


def boundary(eng, ctx, segs, n):
    """index k with n == sum(len(segs[:k])) if the path condition determines one; else None"""
    ps = z3.IntVal(0)
    cands = []
    # fast path: offsets are stored `Vec::len` results, i.e. the very same sum terms
    ns = z3.simplify(n)
    for k in range(len(segs) + 1):
        if z3.is_true(z3.simplify(ns == ps)):
            return k
        if k < len(segs):
            ps = z3.simplify(ps + seglen(segs[k]))
    ps = z3.IntVal(0)
    for k in range(len(segs) + 1):
        if not eng.feasible(ctx.pc + [n != ps]):
            return k
        if eng.feasible(ctx.pc + [n == ps]):
            cands.append((k, ps))
        if k < len(segs):
            ps = z3.simplify(ps + seglen(segs[k]))
    return cands


def m_truncate(eng, ctx, f, path, args, dty):
    b = bytes_at(eng, ctx, args[0])
    n = args[1]
    k = boundary(eng, ctx, b.data, n)
    if isinstance(k, int):
        eng.store_ptr(ctx, args[0], Native("bytes", b.data[:k]))
        return UNIT
    alts = []
    tot = total(b.data)
    for kk, ps in k:
        def do(c, kk=kk):
            eng.store_ptr(c, args[0], Native("bytes", b.data[:kk]))
            return UNIT
        alts.append((n == ps, do))

    def inside(c):
        c.observe("truncate_inside_a_segment")
        return UNIT
    alts.append((z3.And(n < tot, *[n != ps for _, ps in k]), inside))
    alts.append((n >= tot, UNIT))
    return Fork(alts)


def m_clear(eng, ctx, f, path, args, dty):
    v = eng.load_ptr(ctx, args[0])
    eng.store_ptr(ctx, args[0], Native(v.kind, []))
    return UNIT


def m_index_mut(eng, ctx, f, path, args, dty):
    rng = args[1]
    return Native("region", (args[0], rng.f[0], rng.f[1]))


def m_copy_from_slice(eng, ctx, f, path, args, dty):
    reg = args[0]
    if not (isinstance(reg, Native) and reg.kind == "region"):
        raise Unsupported(f"copy_from_slice into {reg}")
    vp, start, end = reg.data
    src = as_segs(eng, ctx, args[1])
    b = bytes_at(eng, ctx, vp)
    k = boundary(eng, ctx, b.data, start)
    if isinstance(k, int) and k < len(b.data) and not eng.feasible(ctx.pc + [seglen(b.data[k]) != (end - start)]):
        seg = b.data[k]
        if not seg[0].startswith("array"):
            ctx.observe("header_patched_over_payload_bytes", over=seg[0])
        new = list(b.data)
        new[k] = src[0] if len(src) == 1 else ("patched", seglen(seg))
        eng.store_ptr(ctx, vp, Native("bytes", new))
        return UNIT
    ctx.observe("header_patched_off_a_segment_boundary")
    return UNIT


def m_index(eng, ctx, f, path, args, dty):
    """&buf[a..b] -> view of whole segments"""
    b = eng.load_ptr(ctx, args[0]) if isinstance(args[0], Ptr) else args[0]
    if isinstance(b, Ptr):
        b = eng.load_ptr(ctx, b)
    if not (isinstance(b, Native) and b.kind == "bytes"):
        raise Unsupported(f"range index on {b}")
    rng = args[1]
    a, e = rng.f[0], rng.f[1]
    ka = boundary(eng, ctx, b.data, a)
    ke = boundary(eng, ctx, b.data, e)
    if isinstance(ka, int) and isinstance(ke, int) and ka <= ke:
        return Native("bytes", b.data[ka:ke])
    ctx.observe("payload_range_off_segment_boundaries")
    return Native("bytes", [("garbage", e - a)])


def m_try_from_u32(eng, ctx, f, path, args, dty):
    x = iv(args[0])
    ok = x <= 0xFFFFFFFF
    return Fork([(ok, Enum(0, {0: Agg({0: x})}, "Result")), (z3.Not(ok), Enum(1, {1: Agg({0: Opaque("TryFromIntError")})}, "Result"))])


def m_to_le(eng, ctx, f, path, args, dty):
    return Native("le", args[0])


def m_slice_last(eng, ctx, f, path, args, dty):
    v = args[0]
    if isinstance(v, Ptr):
        v = eng.load_ptr(ctx, v)
    if not (isinstance(v, Native) and v.kind == "vec"):
        raise Unsupported(f"last of {v}")
    if v.data:
        return Enum(1, {1: Agg({0: v.data[-1]})}, "Option")
    return Enum(0, {}, "Option")


def m_drain(eng, ctx, f, path, args, dty):
    v = eng.load_ptr(ctx, args[0])
    eng.store_ptr(ctx, args[0], Native("vec", []))
    return Native("drain", list(v.data))


def m_iter_next(eng, ctx, f, path, args, dty):
    it = eng.load_ptr(ctx, args[0])
    if not (isinstance(it, Native) and it.kind in ("drain", "iter", "f64iter")):
        raise Unsupported(f"next on {it}")
    if not it.data:
        return Enum(0, {}, "Option")
    eng.store_ptr(ctx, args[0], Native(it.kind, it.data[1:]))
    return Enum(1, {1: Agg({0: it.data[0]})}, "Option")


def m_try_branch(eng, ctx, f, path, args, dty):
    o = args[0]
    if isinstance(o.discr, int):
        if o.discr == 1:
            return Enum(0, {0: Agg({0: o.v[1].f[0]})}, "ControlFlow")
        return Enum(1, {1: Agg({0: Opaque("residual")})}, "ControlFlow")
    raise Unsupported("Try::branch on a symbolic Option")


def fresh_len(eng, lo, hi, what):
    eng.nfresh += 1
    l = z3.Int(f"len_{what}#{eng.nfresh}")
    eng.len_bounds.append(z3.And(l >= lo, l <= hi))
    eng.solver.add(z3.And(l >= lo, l <= hi))      # also known to the path-feasibility checks
    return l


def m_format(kind):
    def h(eng, ctx, f, path, args, dty):
        v = args[1]
        key = ("fmt", kind, v.data if isinstance(v, Native) else str(v))
        if key not in eng.fmt_cache:
            lo, hi = (1, 20) if kind == "itoa" else (3, 24)
            eng.fmt_cache[key] = Native("str", (f"{kind}({key[2]})", fresh_len(eng, lo, hi, kind)))
        return eng.fmt_cache[key]
    return h


def m_key_name(eng, ctx, f, path, args, dty):
    k = eng.load_ptr(ctx, args[0]) if isinstance(args[0], Ptr) else args[0]
    return Native("str", ("name", k.data["name_len"]))


def m_key_labels(eng, ctx, f, path, args, dty):
    k = eng.load_ptr(ctx, args[0]) if isinstance(args[0], Ptr) else args[0]
    return Native("iter", list(k.data["labels"]))


def m_slice_iter(eng, ctx, f, path, args, dty):
    v = args[0]
    if isinstance(v, Ptr):
        v = eng.load_ptr(ctx, v)
    if isinstance(v, Native) and v.kind == "labels":
        return Native("iter", list(v.data))
    raise Unsupported(f"slice iter on {v}")


def m_chain(eng, ctx, f, path, args, dty):
    return Native("iter", list(args[0].data) + list(args[1].data))


def m_label_part(i):
    def h(eng, ctx, f, path, args, dty):
        l = args[0]
        if isinstance(l, Ptr):
            l = eng.load_ptr(ctx, l)
        return Native("str", (f"label{l.data[0]}.{'kv'[i]}", l.data[1 + i]))
    return h


def m_str_is_empty(eng, ctx, f, path, args, dty):
    v = args[0]
    return iv(v.data[1]) == 0


def m_ident(eng, ctx, f, path, args, dty):
    return args[0]


def m_deref_load(eng, ctx, f, path, args, dty):
    return eng.load_ptr(ctx, args[0]) if isinstance(args[0], Ptr) else args[0]


BYTES_MODELS = {
    r"^Vec::new$|^Vec::with_capacity$": m_vec_new,
    r"^Vec::extend_from_slice$": m_extend,
    r"^Vec::push$": m_push,
    r"^Vec::len$|^core::str::len$|ExactSizeIterator>::len$": m_len,
    r"^Vec::truncate$": m_truncate,
    r"^Vec::capacity$": m_capacity,
    r"^Vec::(shrink_to_fit|shrink_to|reserve|reserve_exact)$": m_shrink,
    r"^Vec::clear$": m_clear,
    r"^Vec::drain$": m_drain,
    r"^<Vec as IndexMut>::index_mut$": m_index_mut,
    r"^<Vec as Index>::index$": m_index,
    r"slice::copy_from_slice$": m_copy_from_slice,
    r"as Index>::index$": m_ident,
    r"^<Vec as Deref>::deref$": m_deref_load,
    r"^<u32 as TryFrom>::try_from$": m_try_from_u32,
    r"core::num::to_le_bytes$": m_to_le,
    r"core::slice::last$": m_slice_last,
    r"as Iterator>::next$": m_iter_next,
    r"as IntoIterator>::into_iter$": m_ident,
    r"^<Option as Try>::branch$": m_try_branch,
    r"as FromResidual>::from_residual$": lambda *a: Enum(0, {}, "Option"),
    r"core::str::as_bytes$": m_ident,
    r"core::str::is_empty$": m_str_is_empty,
    r"^(ryu|itoa)::Buffer::new$": lambda *a: Opaque("fmtbuf"),
    r"^ryu::Buffer::format$": m_format("ryu"),
    r"^itoa::Buffer::format$": m_format("itoa"),
    r"^Key::name$": m_key_name,
    r"^Key::labels$": m_key_labels,
    r"core::slice::iter$": m_slice_iter,
    r"as Iterator>::chain$": m_chain,
    r"^Label::key$": m_label_part(0),
    r"^Label::value$": m_label_part(1),
    r"^Arguments::from_str$|^Arguments::new": lambda *a: Opaque("fmt-args"),
    r"(^|::)(panic_fmt|panic|assert_failed|panic_display|unreachable_display|panic_const_\w+)$": lambda *a: Diverge("panic", "explicit panic / failed assert!"),
}

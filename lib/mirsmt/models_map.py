"""Abstract maps for sequential E3 checks: std/hashbrown HashMap as a finite association keyed by abstract key ids.
A map lives wherever the code keeps it (the model is keyed by the Native object found at the `&mut HashMap` pointer).
Entry presence may be symbolic: get/get_mut/remove fork on it. Trusted: the container is a map for keys with coherent
Eq/Hash (C03 checks that for Key)."""
import z3
from .sym import *


def new_map(entries=None):
    """entries: {keyid: {'present': z3 Bool/bool, 'val': value}}"""
    return Native("map", dict(entries or {}))


def key_id(eng, ctx, k):
    if isinstance(k, Ptr):
        k = eng.load_ptr(ctx, k)
    if isinstance(k, Native) and k.kind == "key":
        return k.data
    raise Unsupported(f"abstract map used with a non-abstract key {k}")


def _map_at(eng, ctx, p):
    v = eng.load_ptr(ctx, p)
    if not (isinstance(v, Native) and v.kind == "map"):
        raise Unsupported(f"no abstract map at {p}: {v}")
    return v


def _entry(m, kid):
    if kid not in m.data:
        m.data[kid] = {"present": False, "val": None}
    return m.data[kid]


def m_get_mut(eng, ctx, f, path, args, dty):
    mp = args[0]
    m = _map_at(eng, ctx, mp)
    kid = key_id(eng, ctx, args[1])
    e = _entry(m, kid)
    pres = e["present"]
    some = Enum(1, {1: Agg({0: Ptr(mp.root, mp.path + (("mapval", kid),))})}, "Option")
    none = Enum(0, {}, "Option")
    if isinstance(pres, bool):
        return some if pres else none
    return Fork([(pres, some), (z3.Not(pres), none)])


def m_insert(eng, ctx, f, path, args, dty):
    mp = args[0]
    m = _map_at(eng, ctx, mp)
    kid = key_id(eng, ctx, args[1])
    old = _entry(m, kid)
    new = Native("map", {k: dict(v) for k, v in m.data.items()})
    new.data[kid] = {"present": True, "val": args[2]}
    eng.store_ptr(ctx, mp, new)
    ctx.observe("map_insert", key=kid)
    return Opaque("old-map-value")


def m_remove(eng, ctx, f, path, args, dty):
    mp = args[0]
    m = _map_at(eng, ctx, mp)
    kid = key_id(eng, ctx, args[1])
    new = Native("map", {k: dict(v) for k, v in m.data.items()})
    new.data[kid] = {"present": False, "val": None}
    eng.store_ptr(ctx, mp, new)
    ctx.observe("map_remove", key=kid)
    return Opaque("removed-map-value")


MAP_MODELS = {
    r"collections::HashMap::get_mut$|hashbrown::\w*::?HashMap::get_mut$": m_get_mut,
    r"collections::HashMap::insert$": m_insert,
    r"collections::HashMap::remove$": m_remove,
}

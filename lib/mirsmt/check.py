"""Glue between scenarios (props/*.py) and the runner: discharge queries, build Obligations."""
import time, os, json
import z3
from . import conc
from .sym import Unsupported
import common


class E3Result:
    def __init__(self):
        self.obligations = []
        self.functions = set()
        self.models = set()
        self.opaque = set()
        self.dump_times = {}


def discharge(res, name, desc, bounds, cons, expect_unsat=True, timeout=120, known_key=None, on_model=None, sample=None):
    """one solver query. expect_unsat: property query (sat = counterexample). Otherwise a witness query (must be sat)."""
    o = common.Obligation(name, "mirsmt", desc, bounds)
    q = conc.Query(name, cons, "unsat" if expect_unsat else "sat", desc)
    r = conc.solve(q, timeout)
    o.solver_s = round(q.time + getattr(q, "cross_time", 0.0), 3)
    o.queries = 1
    o.sample = sample
    detail = f"z3={q.result if q.result != 'disagree' else 'disagrees'} {getattr(q, 'cross_solver', 'cvc5')}={q.cross} ({q.time:.2f}s)"
    if r in ("unknown", "disagree"):
        o.status, o.detail = "error", "solver could not decide or solvers disagree: " + detail
    elif expect_unsat:
        if r == "unsat":
            o.status, o.detail = "pass", detail
        else:
            o.status, o.detail = "violation", "counterexample found: " + detail
            if on_model:
                on_model(o, q.model)
            if known_key:
                o.known_key_candidate = known_key
    else:
        if r == "sat":
            o.status, o.detail = "pass", "witness exists: " + detail
        else:
            o.status, o.detail = "error", "vacuity witness unsatisfiable (scenario over-constrained): " + detail
    res.obligations.append(o)
    common.log(f"  [e3] {name}: {o.status} ({o.solver_s}s) {o.detail[:120]}")
    return o, q


def discharge_many(res, specs, timeout=120):
    """specs: list of dict(name, desc, bounds, cons, expect_unsat, on_model, sample). All queries run concurrently."""
    qs = [conc.Query(sp["name"], sp["cons"], "unsat" if sp.get("expect_unsat", True) else "sat", sp["desc"]) for sp in specs]
    conc.solve_many(qs, timeout)
    out = []
    for sp, q in zip(specs, qs):
        o = common.Obligation(sp["name"], "mirsmt", sp["desc"], sp.get("bounds", ""))
        o.solver_s = round(q.time + q.cross_time, 3)
        o.queries = 1
        o.sample = sp.get("sample")
        detail = f"z3-4.8.12={q.result if q.result != 'disagree' else 'disagrees'} {q.cross_solver}={q.cross} ({q.time:.2f}s)"
        if q.result in ("unknown", "disagree"):
            o.status, o.detail = "error", "solver could not decide or solvers disagree: " + detail
        elif sp.get("expect_unsat", True):
            if q.result == "unsat":
                o.status, o.detail = "pass", detail
            else:
                o.status, o.detail = "violation", "counterexample found: " + detail
                if sp.get("on_model"):
                    sp["on_model"](o, q.model)
        else:
            if q.result == "sat":
                o.status, o.detail = "pass", "witness exists: " + detail
                if sp.get("on_witness") and q.model is not None:
                    sp["on_witness"](o, q.model)
            else:
                o.status, o.detail = "error", "vacuity witness unsatisfiable (scenario over-constrained): " + detail
        res.obligations.append(o)
        common.log(f"  [e3] {sp['name']}: {o.status} ({o.solver_s}s) {o.detail[:140]}")
        out.append((o, q))
    return out


def schedule_from_model(eng, sc, model):
    """events enabled in the model, sorted by clock: [(clock, tid, thread name, label, obj, path, read value, written value)]"""
    out = []
    for e in eng.events:
        try:
            en = z3.is_true(model.eval(e.guard, model_completion=True))
        except z3.Z3Exception:
            en = False
        if not en:
            continue
        c = model.eval(sc.clock[e.id], model_completion=True).as_long()
        rv = str(model.eval(e.rval, model_completion=True)) if e.rval is not None else None
        wv = None
        if e.wval is not None and z3.is_true(model.eval(e.wguard, model_completion=True)):
            wv = str(model.eval(e.wval, model_completion=True))
        obj = e.obj if isinstance(e.obj, int) or e.obj is None else str(model.eval(e.obj, model_completion=True))
        out.append((c, e.tid, eng.thread_names.get(e.tid, str(e.tid)), e.kind, e.label + ("@site" if e.site else ""), obj, str(e.path), rv, wv))
    out.sort()
    return out

"""Native replay of E3 (MIR->SMT) counterexamples: instrumented scratch copy of /repo + real threads."""
import os, subprocess, shutil, json, tempfile
from common import *

SCRATCH = os.environ.get("VERIF_SCRATCH", f"/tmp/verif-replay-{PROP}-{os.getpid()}")
_built = {}
PROM_BINS = {"c18", "c07", "c08", "c15", "c12p"}
TRACE_BINS = {"c17", "c17t"}      # replay programs that need the Prometheus exporter (own crate: hyper/tokio are slow to build)


MARKS = {"push_done", "read_begin", "empty_begin"}


def plan_text(scenario, violated, threads, sched_rows, inputs):
    """threads: {tid: role}; sched_rows: rows of check.schedule_from_model; inputs: {name: int}"""
    lines = [f"scenario {scenario}", f"violated {violated}"]
    for k, v in inputs.items():
        lines.append(f"input {k} {v}")
    for t, role in threads.items():
        lines.append(f"thread {t} {role}")
    # scheduled steps: the instrumented accesses, and the scenario's own markers (the replay program yields at the same points)
    order = [str(r[1]) for r in sched_rows if (str(r[4]).endswith("@site") or str(r[4]) in MARKS) and int(r[1]) in threads]
    lines.append("sched " + " ".join(order))
    return "\n".join(lines) + "\n"


def build(binname):
    """instrument a fresh copy of /repo's working tree and build the replay program against it"""
    if binname in _built:
        return _built[binname]
    root = SCRATCH
    os.makedirs(root, exist_ok=True)
    r = subprocess.run(["python3", os.path.join(VERIF, "replay", "instrument.py"), os.path.join(root, "repo"), REPO], capture_output=True, text=True)
    if r.returncode != 0:
        log(r.stdout + r.stderr)
        _built[binname] = None
        return None
    for sub in ("crate", "crate-prom", "crate-trace"):
        cdir = os.path.join(root, sub)
        if os.path.exists(cdir):
            shutil.rmtree(cdir)
        shutil.copytree(os.path.join(VERIF, "replay", sub), cdir, ignore=shutil.ignore_patterns("target", "Cargo.lock"))
    prom = binname in PROM_BINS
    trace = binname in TRACE_BINS
    cdir = os.path.join(root, "crate-prom" if prom else ("crate-trace" if trace else "crate"))
    # the scenario harness is linked into the replay programs too (same Rust source as the MIR that was executed)
    hdir = os.path.join(root, "mirharness")
    if os.path.exists(hdir):
        shutil.rmtree(hdir)
    shutil.copytree(os.path.join(VERIF, "mirharness"), hdir, ignore=shutil.ignore_patterns("target", "Cargo.lock", ".cargo"))
    ct = open(os.path.join(hdir, "Cargo.toml")).read().replace('path = "/repo/metrics"', 'path = "../repo/metrics"')
    open(os.path.join(hdir, "Cargo.toml"), "w").write(ct)
    shutil.copy(os.path.join(REPO, "Cargo.lock"), os.path.join(cdir, "Cargo.lock"))
    os.makedirs(os.path.join(cdir, ".cargo"), exist_ok=True)
    shutil.copy(os.path.join(BUILD, "cargo-config.toml"), os.path.join(cdir, ".cargo", "config.toml"))
    env = dict(os.environ)
    env["RUSTFLAGS"] = f"--cfg {GUARD}"
    env["CARGO_NET_OFFLINE"] = "true"
    tdir = os.path.join(WORK, "replay-e3-prom" if prom else ("replay-e3-trace" if trace else "replay-e3"))
    r = subprocess.run(["cargo", "+1.74.0", "build", "--offline", "--bin", binname, "--target-dir", tdir],
                       cwd=cdir, capture_output=True, text=True, env=env)
    if r.returncode != 0:
        log("replay build failed:\n" + r.stderr[-3000:])
        _built[binname] = None
        return None
    _built[binname] = os.path.join(tdir, "debug", binname)
    return _built[binname]


def run(binname, plan_path):
    """-> ('reproduced'|'not-reproduced'|'diverged'|'build-failed'|..., output)"""
    b = build(binname)
    if b is None:
        return "build-failed", ""
    try:
        r = subprocess.run([b, plan_path], capture_output=True, text=True, timeout=120)
    except subprocess.TimeoutExpired:
        return "timeout", ""
    out = (r.stdout + r.stderr)[-1500:]
    return {1: "reproduced", 0: "not-reproduced", 3: "diverged"}.get(r.returncode, f"rc={r.returncode}"), out


def cleanup():
    shutil.rmtree(SCRATCH, ignore_errors=True)


import atexit
atexit.register(cleanup)

"""Shared plumbing for /verif/check: results, known findings, evidence, exit codes."""
import json, os, sys, time, hashlib, subprocess

VERIF = os.path.dirname(os.path.dirname(os.path.abspath(__file__)))
REPO = os.environ.get("VERIF_REPO", "/repo")
BUILD = os.path.join(VERIF, ".build")
# everything a run writes (MIR dumps, SMT files, harness-crate copies, cargo target dirs, logs) lives in a directory of its own
# per property, so that checks of different properties can run side by side without sharing mutable state
PROP = os.environ.get("VERIF_PROP", "adhoc")
WORK = os.path.join(BUILD, "work", PROP)
LOGS = os.path.join(WORK, "logs")
os.makedirs(LOGS, exist_ok=True)
REPLAYS = os.path.join(VERIF, "replays")
EVIDENCE = os.path.join(VERIF, "evidence")
GUARD = "metrics_verif"
NCPU = os.cpu_count() or 8


def log(*a):
    print(*a, file=sys.stderr, flush=True)


def sha_of(path):
    try:
        return hashlib.sha256(open(path, "rb").read()).hexdigest()[:16]
    except OSError:
        return None


class Obligation:
    """One solver query (or one Kani harness = one batch of solver queries)."""

    def __init__(self, name, engine, desc, bounds=""):
        self.name = name
        self.engine = engine          # 'kani' | 'mirsmt' | 'cbmc-threads'
        self.desc = desc
        self.bounds = bounds
        self.status = "not-run"       # pass | violation | known | error | not-run
        self.detail = ""
        self.solver_s = 0.0
        self.queries = 0
        self.failed_checks = []
        self.replay = None
        self.known_key = None         # key into known_findings.json when this is an expected failure
        self.reproduced = None
        self.vacuity = None           # "k of n cover properties satisfied" / witness result
        self.sample = None
        self.functions = []

    def to_json(self):
        d = {k: v for k, v in self.__dict__.items() if v not in (None, [], "")}
        return d


def load_known():
    p = os.path.join(VERIF, "known_findings.json")
    if not os.path.exists(p):
        return {}
    d = json.load(open(p))
    out = {}
    for e in d.get("findings", []):
        out[e["key"]] = e
    return out


def finish(pid, tier, seed, obligations, t0, assumptions, functions, extra=None, explanation=""):
    """Classify, print VIOLATION / KNOWN-FINDING lines, write evidence, exit."""
    known = load_known()
    viol = [o for o in obligations if o.status == "violation"]
    errs = [o for o in obligations if o.status in ("error", "not-run")]
    knowns = [o for o in obligations if o.status == "known"]
    printed = set()
    for o in knowns:
        k = o.known_key
        if k in printed:
            continue
        printed.add(k)
        e = known.get(k, {})
        print(f"KNOWN-FINDING: property={pid} {k}: {e.get('what_fails', o.detail)}")
    for o in viol:
        print(f"VIOLATION property={pid} replay={o.replay or 'n/a'}")
        log(f"  violation in {o.name}: {o.detail}")
    for o in errs:
        log(f"ENGINE-ERROR property={pid} {o.name}: {o.status} {o.detail}")
    n = len(obligations)
    queries = sum(max(o.queries, 1) for o in obligations if o.status != "not-run")
    samples = [o.sample for o in obligations if o.sample][:6]
    if not samples:
        samples = [{"obligation": o.name, "desc": o.desc, "bounds": o.bounds} for o in obligations[:4]]
    cov = {
        "explanation": explanation,
        "states": queries,
        "transitions": queries,
        "traces_validated_against_impl": sum(1 for o in obligations if o.reproduced),
        "samples": samples,
        "obligations": n,
        "discharged": sum(1 for o in obligations if o.status == "pass"),
        "known_findings_matched": sorted(printed),
        "evaluations": queries,
        "distinct_nontrivial": sum(1 for o in obligations if o.status in ("pass", "known", "violation")),
        "rule": "one evaluation = one SAT/SMT query discharged by the solver over all values of the symbolic inputs "
                "within the stated bounds; 'states'/'transitions' carry the same measured query count because a "
                "symbolic check has no explicit state graph; an obligation counts as distinct and non-trivial when "
                "it is a different harness/scenario that reached a verdict and whose vacuity witness was satisfiable",
        "exhaustive": False,
        "functions_encoded": functions,
        "solver_time_s": round(sum(o.solver_s for o in obligations), 2),
        "checks": [o.to_json() for o in obligations],
        "trusted_base": assumptions,
    }
    if extra:
        cov.update(extra)
    ev = {
        "property_id": pid,
        "tier": tier,
        "seed": seed,
        "level": "model_checking",
        "coverage": cov,
        "assumptions": assumptions,
        "wall_s": round(time.time() - t0, 2),
        "violations": len(viol),
    }
    os.makedirs(EVIDENCE, exist_ok=True)
    tmp = os.path.join(EVIDENCE, f"{pid}.json.tmp")
    json.dump(ev, open(tmp, "w"), indent=1, default=str)
    os.replace(tmp, os.path.join(EVIDENCE, f"{pid}.json"))
    if viol:
        sys.exit(1)
    if errs:
        sys.exit(2)
    sys.exit(0)

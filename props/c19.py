"""C19 Debugging snapshots show every registered metric with its true current state."""
import z3
from common import *
import _e3
from mirsmt import sym, models, check, models_str as MS, models_coll as MC
from mirsmt.sym import Ptr, Agg, Enum, Native, Fork, UNIT, bv, Opaque

ASSUME = ["histories are sequential and single-threaded (the thread-locality clause of the property is C01's subject)",
          "IndexMap / HashMap / Mutex by their contracts (insert keeps the position of an equal key, entry().or_insert() returns the existing value, iteration in insertion order, lock returns the protected value); "
          "keys and key names are abstract identities with an uninterpreted name_of(key) (coherence of Key's Eq/Hash is C03's subject)",
          "the registry is abstract: get_or_create_* returns the one storage per (kind, key) (C06's subject) and get_*_handles() returns handles that share those storages; "
          "updates are applied to the storage directly (the handle types are C04's subject); AtomicBucket::clear_with hands over everything pushed so far and empties the bucket (C05's subject, K3/K4 aside)",
          "units, descriptions and values are symbolic; the number and order of calls in a history is fixed per scenario"]
KINDS = ["Counter", "Gauge", "Histogram"]


class World:
    def __init__(self, e3):
        self.P = _e3.program(["metrics-util"])
        P = self.P
        self.kinds = P.enums["MetricKind"]
        self.name_of = z3.Function("name_of", z3.IntSort(), z3.IntSort())
        self.ncell = 0
        self.e3 = e3
        reg = {}

        def key_id(eng, ctx, k):
            k = MC.load(eng, ctx, k)
            if isinstance(k, Native) and k.kind == "akey":
                return k.data
            raise sym.Unsupported(f"abstract key expected, got {k}")

        def m_get_or_create(kind):
            def h(eng, ctx, f, path, args, dty):
                regname = "reg_" + kind
                m = ctx.statics[regname]

                def hit(c, i, cell):
                    return Native("handle", (kind, cell))

                def miss(c):
                    init = MS.lvec(()) if kind == "Histogram" else bv(0)
                    cell = MC.new_cell(c, init, "storage")
                    c.statics[regname] = MC.kmap(m.data + ((args[1] if not isinstance(args[1], Ptr) else eng.load_ptr(c, args[1]), cell),))
                    return Native("handle", (kind, cell))
                return MC._find(eng, ctx, m, args[1], hit, miss)
            return h

        def m_handles(kind):
            def h(eng, ctx, f, path, args, dty):
                return ctx.statics["reg_" + kind]          # the handles share the storages
            return h

        from mirsmt.sym import TailCall

        def cell_of(eng, ctx, p):
            while isinstance(p, Ptr) and isinstance(eng.load_ptr(ctx, p), Ptr):
                p = eng.load_ptr(ctx, p)
            return p

        def with_env(eng, ctx, cellp, op):
            """A recorder on another thread may complete a push right before this bucket operation (each bucket operation is one
            atomic step: C05's subject). The solver chooses whether it does; `env_pending` holds the values not yet pushed."""
            pend = ctx.statics.get("env_pending", ())
            if not pend:
                return op(ctx)
            tag = pend[0]
            here = eng.fresh("concurrent_record_lands_before_this_bucket_operation", "bool")

            def yes(c):
                c.statics["env_pending"] = tuple(pend[1:])
                cur = eng.load_ptr(c, cellp)
                eng.store_ptr(c, cellp, MS.lvec(tuple(cur.data) + (tag,)))
                c.observe("env_pushed", tag=tag, before=str(path_of.get(id(op), "bucket operation")))
                return op(c)
            return Fork([(here, yes), (z3.Not(here), op)])
        path_of = {}

        def m_clear_with(eng, ctx, f, path, args, dty):
            cellp = cell_of(eng, ctx, args[0])

            def op(c):
                cur = eng.load_ptr(c, cellp)
                if not (isinstance(cur, Native) and cur.kind == "lvec"):
                    raise sym.Unsupported(f"clear_with on {cur}")
                eng.store_ptr(c, cellp, MS.lvec(()))
                return TailCall(args[1], [cur])
            path_of[id(op)] = "clear_with"
            return with_env(eng, ctx, cellp, op)

        def m_data_with(eng, ctx, f, path, args, dty):
            cellp = cell_of(eng, ctx, args[0])

            def op(c):
                cur = eng.load_ptr(c, cellp)
                if not (isinstance(cur, Native) and cur.kind == "lvec"):
                    raise sym.Unsupported(f"data_with on {cur}")
                return TailCall(args[1], [cur])
            path_of[id(op)] = "data_with"
            return with_env(eng, ctx, cellp, op)

        def m_data(eng, ctx, f, path, args, dty):
            cellp = cell_of(eng, ctx, args[0])
            return with_env(eng, ctx, cellp, lambda c: eng.load_ptr(c, cellp))

        def m_clear(eng, ctx, f, path, args, dty):
            cellp = cell_of(eng, ctx, args[0])

            def op(c):
                eng.store_ptr(c, cellp, MS.lvec(()))
                return UNIT
            return with_env(eng, ctx, cellp, op)

        def m_str_eq(eng, ctx, f, path, args, dty):
            return MC.key_eq(eng, ctx, args[0], args[1])

        def m_slice_iter(eng, ctx, f, path, args, dty):
            v = MC.load(eng, ctx, args[0])
            if isinstance(v, Native) and v.kind == "lvec":
                ptrs = tuple(Ptr(("static", MC.new_cell(ctx, x, "elem"))) for x in v.data)
                return Native("liter", (ptrs, 0))
            return MS.m_into_iter(eng, ctx, f, path, args, dty)

        def m_extend(eng, ctx, f, path, args, dty):
            cur = MC.load(eng, ctx, args[0])
            it = args[1]
            elems, maps = MS.chain_elements(eng, ctx, it)
            out = []
            for x in elems:
                v = x
                for clo in maps:
                    v = MS.run_pure(eng, ctx, clo, [v])
                out.append(v)
            eng.store_ptr(ctx, args[0], MS.lvec(tuple(cur.data) + tuple(out)))
            return UNIT

        def m_vec_push(eng, ctx, f, path, args, dty):
            cur = MC.load(eng, ctx, args[0])
            eng.store_ptr(ctx, args[0], MS.lvec(tuple(cur.data) + (args[1],)))
            return UNIT

        def m_key_name(eng, ctx, f, path, args, dty):
            return Native("aname", self.name_of(key_id(eng, ctx, args[0])))
        self.models = dict(MC.COLL)
        self.models.update({
            r"get_or_create_counter$": m_get_or_create("Counter"), r"get_or_create_gauge$": m_get_or_create("Gauge"), r"get_or_create_histogram$": m_get_or_create("Histogram"),
            r"get_counter_handles$": m_handles("Counter"), r"get_gauge_handles$": m_handles("Gauge"), r"get_histogram_handles$": m_handles("Histogram"),
            r"AtomicBucket::clear_with$": m_clear_with, r"AtomicBucket::data_with$": m_data_with,
            r"AtomicBucket::data$": m_data,
            r"AtomicBucket::clear$": m_clear,
            r"^Vec::extend_from_slice$": lambda eng, ctx, f, path, args, dty: (eng.store_ptr(ctx, args[0], MS.lvec(tuple(MC.load(eng, ctx, args[0]).data) + tuple(MC.load(eng, ctx, args[1]).data))), UNIT)[1],
            r"^KeyName::as_str$|^String::as_str$": lambda eng, ctx, f, path, args, dty: MC.load(eng, ctx, args[0]),
            r"^<&?str as PartialEq>::eq$|^<String as PartialEq>::eq$|^<KeyName as PartialEq>::eq$": m_str_eq,
            r"^core::slice::(.*::)?iter$": m_slice_iter, r"as Iterator>::map$": MS.m_map, r"^Vec::extend$|as Extend>::extend$": m_extend, r"^Vec::new$": lambda *a: MS.lvec(()), r"^Vec::push$": m_vec_push,
            r"^<Arc as Deref>::deref$|^<Arc as Clone>::clone$|^Arc::clone$": m_deref_arc,
            r"^<Key as Clone>::clone$|as ToOwned>::to_owned$|as ToString>::to_string$|as Into>::into$|^<OrderedFloat as From>::from$|f64::from_bits$|as Clone>::clone$":
                lambda eng, ctx, f, path, args, dty: MC.load(eng, ctx, args[0]),
            r"^Key::name$": m_key_name,
            r"as Iterator>::next$": MS.m_next, r"as IntoIterator>::into_iter$": MC.m_into_iter,
        })
        self.models.update(models.BASE)


def m_deref_arc(eng, ctx, f, path, args, dty):
    a = args[0]
    if isinstance(a, Ptr):
        inner = eng.load_ptr(ctx, a)
        if isinstance(inner, Ptr):
            return inner
        return a
    return a


def opt_unit(tag, units):
    has = z3.Bool(f"{tag}_some")
    d = z3.BitVec(f"{tag}_unit", 64)
    return Enum(z3.If(has, bv(1), bv(0)), {1: Agg({0: Enum(d, {}, "Unit")})}, "Option"), has, d, [z3.ULT(d, bv(len(units)))]


def run_history(e3, name, steps, expect_fn, desc, bounds_extra=""):
    """steps: list of ('describe', kind, name_id, unit_value, desc_value) | ('register', kind, key_id) | ('set', reg_index, value) |
    ('record', reg_index, value) | ('snapshot',). expect_fn(snapshots, eng) -> [(property name, description, violation condition)]"""
    W = World(e3)
    P = W.P
    eng = sym.Engine(P, models=W.models, loop_bound=6, max_paths=5000)
    eng.merging = False
    ctx0 = sym.Ctx(eng, 1)
    ctx0.statics = {"inner": Agg({0: Opaque("registry"), 1: MC.kmap(), 2: MC.kmap()}), "reg_Counter": MC.kmap(), "reg_Gauge": MC.kmap(), "reg_Histogram": MC.kmap()}
    rec = Agg({0: Ptr(("static", "inner"))})
    ctx0.statics["rec"] = rec
    recp = Ptr(("static", "rec"))
    describe = {k: [b for b in P.by_last[f"describe_{k.lower()}"] if b.impl and b.impl[1] == "DebuggingRecorder"][0] for k in KINDS}
    register = {k: [b for b in P.by_last[f"register_{k.lower()}"] if b.impl and b.impl[1] == "DebuggingRecorder"][0] for k in KINDS}
    snap_b = P.find("Snapshotter", "snapshot")

    def script():
        handles = []
        snaps = []
        for st in steps:
            if st[0] == "describe":
                yield ("call", describe[st[1]], [recp, Native("aname", st[2]), st[3], st[4]])
            elif st[0] == "register":
                h = yield ("call", register[st[1]], [recp, Native("akey", st[2]), Opaque("metadata")])
                handles.append(h)
            elif st[0] == "set":
                yield ("setstatic", handles[st[1]].data[1], st[2])
            elif st[0] == "record":
                cur = yield ("getstatic", handles[st[1]].data[1])
                yield ("setstatic", handles[st[1]].data[1], MS.lvec(tuple(cur.data) + (st[2],)))
            elif st[0] == "env":
                yield ("setstatic", "env_pending", tuple(st[1]))
            elif st[0] == "env_flush":
                # whatever the concurrent recorder has not pushed yet is pushed now (its thread runs to completion)
                pend = yield ("getstatic", "env_pending")
                cur = yield ("getstatic", handles[st[1]].data[1])
                yield ("setstatic", handles[st[1]].data[1], MS.lvec(tuple(cur.data) + tuple(pend or ())))
                yield ("setstatic", "env_pending", ())
            elif st[0] == "snapshot":
                s = yield ("call", snap_b, [recp])
                snaps.append(s)
        return Agg({i: s for i, s in enumerate(snaps)})
    leaves = eng.run_script(1, name, script, ctx0=ctx0)
    e3.absorb(eng)
    done = [l for l in leaves if l.status == "done"]
    other = z3.Or(*[l.taken() for l in leaves if l.status != "done"] or [z3.BoolVal(False)])
    rows = {}
    for l in done:
        snaps = []
        for i in sorted(l.ret.f):
            s = l.ret.f[i]
            vec = s.f[0] if isinstance(s, Agg) else s
            snaps.append(list(vec.data) if isinstance(vec, Native) and vec.kind == "lvec" else None)
        for pname, pdesc, viol in expect_fn(snaps, eng, W):
            rows.setdefault(pname, [pdesc, []])[1].append(z3.And(l.taken(), viol))
    bounds = f"history {[' '.join(str(x) for x in st[:2]) for st in steps]}; units, descriptions and values symbolic{bounds_extra}; {len(done)} paths"
    specs = [dict(name=f"{name}:witness", desc="the history completes", bounds=bounds, cons=[z3.Or(*[l.taken() for l in done] or [z3.BoolVal(False)])], expect_unsat=False),
             dict(name=f"{name}:returns", desc="a call panics or exceeds a loop bound", bounds=bounds, cons=[other], expect_unsat=True)]

    def on_model(ob, model):
        inputs = {}
        for d in model.decls():
            if d.arity() == 0:
                v = model[d]
                try:
                    inputs[d.name()] = int(z3.is_true(v)) if z3.is_bool(v) else v.as_long()
                except Exception:
                    pass
        ob.sample = {"history": [str(st[:3]) for st in steps], "symbolic_inputs": {k: inputs[k] for k in sorted(inputs)[:20]}}
        import replay_e3
        os.makedirs(os.path.join(REPLAYS, "C19"), exist_ok=True)
        pp = os.path.join(REPLAYS, "C19", f"{name}.{ob.name.split(':')[1]}.plan")
        open(pp, "w").write(replay_e3.plan_text(name, ob.name.split(":")[1], {}, [], {k: v for k, v in inputs.items() if v >= 0}))
        status, out = replay_e3.run("c19", pp)
        ob.detail += f" | native replay (c19, public DebuggingRecorder API): {status}"
        ob.sample["native_replay"] = {"status": status, "output": out[-500:]}
        ob.replay = pp
        ob.reproduced = status == "reproduced"
        if not ob.reproduced:
            ob.status = "error"
            ob.detail += " — counterexample did NOT reproduce natively: treated as an encoder/model problem, not reported as a violation"
    for pname, (pdesc, conds) in rows.items():
        specs.append(dict(name=f"{name}:{pname}", desc=pdesc, bounds=bounds, cons=[z3.Or(*conds)], expect_unsat=True, on_model=on_model))
    check.discharge_many(e3.res, specs, 120)


def entry(e):
    """(kind discr term, key id term, unit Option, desc Option, value Enum) of a snapshot element"""
    ck, unit, desc, val = e.f[0], e.f[1], e.f[2], e.f[3]
    kind = ck.f[0]
    key = ck.f[1]
    kd = bv(kind.discr) if isinstance(kind.discr, int) else kind.discr
    return kd, key.data, unit, desc, val


def opt_is(eng, o, some):
    return eng.discr_is(o.discr, 1 if some else 0)


def scen_order(e3):
    """order of first registration; described-only metrics absent; re-registration keeps the position; current values"""
    W0 = _e3.program(["metrics-util"]).enums
    kinds = W0["MetricKind"]
    v1, v2 = z3.BitVec("v1", 64), z3.BitVec("v2", 64)
    d0 = Native("adesc", z3.Int("d0"))
    steps = [("describe", "Counter", z3.IntVal(30), Enum(0, {}, "Option"), d0), ("register", "Gauge", z3.IntVal(2)), ("register", "Counter", z3.IntVal(1)), ("register", "Gauge", z3.IntVal(2)),
             ("set", 1, v1), ("set", 0, v2), ("snapshot",)]

    def expect(snaps, eng, W):
        s = snaps[0]
        if s is None or len(s) != 2:
            return [("lists_registered_metrics_in_first_registration_order", "the snapshot does not list exactly the registered metrics (described-only ones absent) in order of first registration", z3.BoolVal(True))]
        (k0, key0, u0, dd0, val0), (k1, key1, u1, dd1, val1) = entry(s[0]), entry(s[1])
        order_ok = z3.And(k0 == bv(kinds.index("Gauge")), key0 == 2, k1 == bv(kinds.index("Counter")), key1 == 1)
        vals_ok = z3.And(eng.discr_is(val0.discr, 1), val0.v[1].f[0] == v2, eng.discr_is(val1.discr, 0), val1.v[0].f[0] == v1) if (1 in val0.v and 0 in val1.v) else z3.BoolVal(False)
        meta_ok = z3.And(opt_is(eng, u0, False), opt_is(eng, dd0, False), opt_is(eng, u1, False), opt_is(eng, dd1, False))
        return [("lists_registered_metrics_in_first_registration_order", "the snapshot does not list exactly the registered metrics (described-only ones absent) in order of first registration", z3.Not(order_ok)),
                ("values_are_the_current_state", "a counter or gauge value in the snapshot is not the storage's value at snapshot time", z3.And(order_ok, z3.Not(vals_ok))),
                ("undescribed_metrics_have_no_metadata", "a metric that was never described (for its kind and name) carries a unit or description", z3.And(order_ok, W.name_of(z3.IntVal(1)) != 30, z3.Not(meta_ok)))]
    run_history(e3, "c19_order_and_values", steps, expect, "")


def scen_metadata(e3):
    """latest description wins, a later description without unit keeps the earlier unit, kinds are separate"""
    P = _e3.program(["metrics-util", "metrics"])
    units = P.enums["Unit"]
    kinds = P.enums["MetricKind"]
    u1, h1, du1, c1 = opt_unit("u1", units)
    u2, h2, du2, c2 = opt_unit("u2", units)
    u3, h3, du3, c3 = opt_unit("u3", units)
    dA, dB, dC = z3.Int("descA"), z3.Int("descB"), z3.Int("descC")
    W = None
    steps = [("describe", "Counter", z3.IntVal(7), u1, Native("adesc", dA)), ("describe", "Gauge", z3.IntVal(7), u3, Native("adesc", dC)), ("describe", "Counter", z3.IntVal(7), u2, Native("adesc", dB)),
             ("register", "Counter", z3.IntVal(1)), ("register", "Gauge", z3.IntVal(2)), ("register", "Histogram", z3.IntVal(3)), ("snapshot",)]
    base = c1 + c2 + c3

    def expect(snaps, eng, W):
        s = snaps[0]
        name_link = [W.name_of(z3.IntVal(1)) == 7, W.name_of(z3.IntVal(2)) == 7, W.name_of(z3.IntVal(3)) == 7]
        if s is None or len(s) != 3:
            return [("metadata_is_the_latest_for_kind_and_name", "unit/description are not the most recent ones given for that kind and name", z3.BoolVal(True))]
        (kc, keyc, uc, dc, _), (kg, keyg, ug, dg, _), (kh, keyh, uh, dh, _) = entry(s[0]), entry(s[1]), entry(s[2])

        def unit_is(o, has, d):
            return z3.And(eng.discr_is(o.discr, 1) == has, z3.Implies(has, (bv(o.v[1].f[0].discr) if isinstance(o.v[1].f[0].discr, int) else o.v[1].f[0].discr) == d)) if 1 in o.v else z3.Not(has)

        def desc_is(o, d):
            return z3.And(eng.discr_is(o.discr, 1), o.v[1].f[0].data == d) if 1 in o.v and isinstance(o.v[1].f.get(0), Native) else z3.BoolVal(False)
        # counter: described twice: description B; unit = u2 if given, else the earlier u1
        cu = z3.If(h2, unit_is(uc, z3.BoolVal(True), du2), unit_is(uc, h1, du1))
        counter_ok = z3.And(cu, desc_is(dc, dB))
        gauge_ok = z3.And(unit_is(ug, h3, du3), desc_is(dg, dC))
        hist_ok = z3.And(opt_is(eng, uh, False), opt_is(eng, dh, False))
        pre = z3.And(*name_link)
        return [("metadata_is_the_latest_for_kind_and_name", "a counter described twice does not carry the later description with the later unit (or the earlier unit when the later description has none)",
                 z3.And(pre, z3.Not(counter_ok))),
                ("metadata_of_other_kinds_is_separate", "a gauge or histogram with the same name carries the counter's metadata (or loses its own)", z3.And(pre, z3.Not(z3.And(gauge_ok, hist_ok))))]
    run_history2(e3, "c19_metadata", steps, expect, base)


def run_history2(e3, name, steps, expect_fn, base):
    """run_history with extra constraints on the symbolic inputs"""
    orig = check.discharge_many

    def dm(res, specs, timeout=120):
        for sp in specs:
            sp["cons"] = list(base) + sp["cons"]
        return orig(res, specs, timeout)
    check.discharge_many = dm
    try:
        run_history(e3, name, steps, expect_fn, "")
    finally:
        check.discharge_many = orig


def scen_histogram(e3):
    """histogram values appear in exactly one snapshot, in recording order"""
    P = _e3.program(["metrics-util"])
    kinds = P.enums["MetricKind"]
    a, b_, c = z3.BitVec("a", 64), z3.BitVec("b", 64), z3.BitVec("c", 64)
    steps = [("register", "Histogram", z3.IntVal(5)), ("record", 0, a), ("record", 0, b_), ("snapshot",), ("record", 0, c), ("snapshot",), ("snapshot",)]

    def expect(snaps, eng, W):
        def values(s):
            if s is None or len(s) != 1:
                return None
            val = entry(s[0])[4]
            hi = 2
            if not (isinstance(val.discr, int) and val.discr == hi) or hi not in val.v:
                return None
            v = val.v[hi].f[0]
            return list(v.data) if isinstance(v, Native) and v.kind == "lvec" else None
        vs = [values(s) for s in snaps]
        ok = vs[0] is not None and vs[1] is not None and vs[2] is not None and len(vs[0]) == 2 and len(vs[1]) == 1 and len(vs[2]) == 0
        if not ok:
            return [("histogram_values_in_exactly_one_snapshot", "a recorded value is missing from the next snapshot, appears in two snapshots, or the histogram entry is missing", z3.BoolVal(True))]
        return [("histogram_values_in_exactly_one_snapshot", "a recorded value is missing from the next snapshot, appears in two snapshots, or the histogram entry is missing",
                 z3.Not(z3.And(vs[0][0] == a, vs[0][1] == b_, vs[1][0] == c)))]
    run_history(e3, "c19_histogram_drain_once", steps, expect, "")


def scen_histogram_concurrent(e3):
    """a value recorded by another thread while a snapshot is being taken appears in exactly one snapshot (that one or the next)"""
    a, x = z3.BitVec("a", 64), z3.BitVec("x", 64)
    steps = [("register", "Histogram", z3.IntVal(5)), ("record", 0, a), ("env", [x]), ("snapshot",), ("env_flush", 0), ("snapshot",), ("snapshot",)]

    def expect(snaps, eng, W):
        def values(s):
            if s is None or len(s) != 1:
                return None
            val = entry(s[0])[4]
            if not (isinstance(val.discr, int) and val.discr == 2) or 2 not in val.v:
                return None
            v = val.v[2].f[0]
            return list(v.data) if isinstance(v, Native) and v.kind == "lvec" else None
        vs = [values(s) for s in snaps]
        desc = "a value recorded on another thread while the snapshot is in progress appears in no snapshot or in two (or an earlier value does)"
        if any(v is None for v in vs):
            return [("concurrently_recorded_value_in_exactly_one_snapshot", desc, z3.BoolVal(True))]
        allv = [t for v in vs for t in v]
        # positions are concrete per path; the values are symbolic: count occurrences by identity of the term (a and x are distinct inputs)
        cnt_x = sum(1 for t in allv if t.eq(x))
        cnt_a = sum(1 for t in allv if t.eq(a))
        first_has_a = any(t.eq(a) for t in vs[0])
        return [("concurrently_recorded_value_in_exactly_one_snapshot", desc, z3.BoolVal(not (cnt_x == 1 and cnt_a == 1 and first_has_a and len(vs[2]) == 0)))]
    run_history(e3, "c19_histogram_record_during_snapshot", steps, expect, "", bounds_extra="; one concurrent record() that may land before any bucket operation of the snapshot in progress (bucket operations atomic: C05)")


def run(tier, seed, t0):
    e3 = _e3.E3("C19")
    for nm, fn in (("c19_order_and_values", scen_order), ("c19_metadata", scen_metadata), ("c19_histogram_drain_once", scen_histogram), ("c19_histogram_record_during_snapshot", scen_histogram_concurrent)):
        try:
            fn(e3)
        except _e3.ENC_ERRORS as ex:
            e3.error(nm, "MIR->SMT encoding of DebuggingRecorder / Snapshotter", ex)
    finish("C19", tier, seed, list(e3.res.obligations), t0, ASSUME + ["E3 callee models: " + ", ".join(sorted(e3.models))], sorted(e3.functions),
           explanation="MIR->SMT encoding of describe/register/update/snapshot histories of the DebuggingRecorder against a reference model")


def replay(path):
    import replay_e3
    status, out = replay_e3.run("c19", path)
    print(status, out)
    return 1 if status == "reproduced" else 0

"""C16 The sampling reservoir reports true counts and favours no stream position."""
from common import *
import kani, _kprop

FUNCS = ["metrics_util::storage::reservoir::Reservoir::{push,drain}", "metrics_util::storage::reservoir::AtomicSamplingReservoir::{new,push,consume,is_empty}",
         "metrics_util::storage::reservoir::Drain::{next,len,sample_rate,drop}", "metrics_util::storage::reservoir::fastrand (hooked)"]
B = "3 fill/drain cycles, pushes per cycle symbolic; values are distinct bit-pattern tags; the PRNG draw is a solver unknown in the requested range"
HARNESSES = [
    kani.H("c16_cap0", "capacity 0: no panic, nothing yielded, rate = yielded/pushed", B + "; <=2 pushes per cycle", 300, functions=FUNCS),
    kani.H("c16_cap1", "capacity 1: Algorithm R step contract (draw range = count+1, replace iff draw < capacity), cycle isolation, sample rate", B + "; <=3 pushes per cycle", 300, functions=FUNCS),
    kani.H("c16_cap2", "capacity 2: same", B + "; <=4 pushes per cycle", 600, functions=FUNCS),
]
ASSUME = ["hook: metrics_util::storage::reservoir::verif_set_rng replaces the thread-local Xoshiro draw by a solver-chosen value in [0, upper) and records `upper`",
          "uniform retention probability capacity/n follows from the checked step contract of Algorithm R by the textbook induction, given a uniform PRNG (rand's random_range is trusted)",
          "pushes concurrent with a drain are outside this (sequential) part"]


def run(tier, seed, t0):
    _kprop.run_kani("C16", tier, seed, t0, [("util", HARNESSES, dict(hooks=True))], ASSUME, FUNCS,
                    "Kani harnesses over AtomicSamplingReservoir with the PRNG draw as a solver unknown")


def replay(path):
    return _kprop.replay(path)

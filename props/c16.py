"""C16 The sampling reservoir reports true counts and favours no stream position."""
from common import *
import kani, _kprop

FUNCS = ["metrics_util::storage::reservoir::Reservoir::{push,drain}", "metrics_util::storage::reservoir::AtomicSamplingReservoir::{new,push,consume,is_empty}",
         "metrics_util::storage::reservoir::Drain::{next,len,sample_rate,drop}", "metrics_util::storage::reservoir::fastrand (hooked)"]
B = "3 fill/drain cycles, pushes per cycle symbolic; values are distinct bit-pattern tags; the PRNG draw is a solver unknown in the requested range"
HARNESSES = [
    kani.H("c16_cap0", "capacity 0: no panic, nothing yielded, rate = yielded/pushed", B + "; <=2 pushes per cycle", 300, functions=FUNCS),
    kani.H("c16_cap1", "capacity 1: Algorithm R step contract (draw range = count+1, replace iff draw < capacity), cycle isolation, sample rate", B + "; <=3 pushes per cycle", 300, functions=FUNCS),
    kani.H("c16_cap2", "capacity 2: same", B + "; <=4 pushes per cycle", 600, functions=FUNCS),
    kani.H("c16_push_during_drain_cap1", "capacity 1: a value pushed while a drain is held (0..1 values pushed before) is yielded by the next drain, once, at rate 1; the drain after that is empty", "0..1 pushes before the drain", 300, functions=FUNCS),
    kani.H("c16_push_during_drain_cap2", "capacity 2: same", "0..2 pushes before the drain", 600, functions=FUNCS),
]
ASSUME = ["hook: metrics_util::storage::reservoir::verif_set_rng replaces the thread-local Xoshiro draw by a solver-chosen value in [0, upper) and records `upper`",
          "uniform retention probability capacity/n follows from the checked step contract of Algorithm R by the textbook induction, given a uniform PRNG (rand's random_range is trusted)",
          "pushes concurrent with a drain are outside this (sequential) part"]


ASSUME_E3 = ["E3 (schedules): sequential consistency for atomics; Mutex::lock never fails (one consumer at a time per scenario); reservoir capacity 2; slot contents before the first cycle are distinct tags "
             "(stand-ins for values of an earlier cycle); the PRNG draw is unconstrained in [0, upper)"]


def schedule_scenario(e3, name, npush, known, prefilled=0):
    """push (x npush, each on its own thread) || consume, then two quiescent consumes (secondary half, primary half again)"""
    import z3
    import _e3
    from mirsmt import sym, conc, models
    from mirsmt.sym import Ptr, Agg, Enum, Native, Fork, UNIT, bv, Script, Opaque
    CAP = 2
    P = _e3.program(["metrics-util"])
    push_b = P.find("AtomicSamplingReservoir", "push")
    cons_b = P.find("AtomicSamplingReservoir", "consume")
    next_b = [b for b in P.by_last["next"] if b.impl and b.impl[1] == "Drain"][0]
    drop_b = [b for b in P.by_last["drop"] if b.impl and b.impl[1] == "Drain"][0]
    draw = [0]

    def m_fastrand(eng, ctx, f, path, args, dty):
        draw[0] += 1
        d = z3.BitVec(f"draw{draw[0]}", 64)
        ctx.pc.append(z3.ULT(d, args[0]))
        return d
    m = {r"^fastrand$": m_fastrand, r"^std::sync::Mutex::lock$|^Mutex::lock$": lambda *a: Enum(0, {0: Agg({0: Opaque("guard")})}, "Result"),
         r"f64::to_bits$|f64::from_bits$": models.m_identity}
    m.update(models.BASE)
    eng = sym.Engine(P, models=m, loop_bound=CAP + 2, max_paths=20000)
    c0 = sym.Ctx(eng, 0)
    eng.thread_names[0] = "setup"
    inits = [z3.BitVec(f"stale{i}", 64) for i in range(2 * CAP)]
    pre = [bv(0x6000 + i) for i in range(prefilled)]          # values pushed (completely) into the active half before the threads start
    for i, t in enumerate(pre):
        inits[i] = t
    vals = [c0.alloc("ReservoirValues", {(("idx", i),): (64, inits[h * CAP + i]) for i in range(CAP)}) for h in range(2)]
    res = c0.alloc("AtomicSamplingReservoir", {(0, 1): (64, bv(prefilled)), (1, 1): (64, bv(0)), (2,): ("bool", z3.BoolVal(True))})
    for h in range(2):
        eng.immutable[(res, (h, 0))] = Ptr(("obj", vals[h]), (), bv(CAP))
    eng.leaves[0] = [sym.Leaf(c0, "done")]
    rp = Ptr(("obj", res))
    tags = [bv(0x7000 + i) for i in range(npush)]

    def make_cb(label):
        def cb(eng_, ctx, f, args):
            drain = args[0]

            def script(c):
                fr = c.frames[-1]
                tmp = 830000 + len(c.frames)
                if tmp not in fr.locals:
                    fr.locals[tmp] = drain
                dp = Ptr(("local", fr.fid, tmp))
                yield ("observe", label + ":start", {"unsampled_len": drain.f[1], "len": drain.f[2]})
                for _ in range(CAP + 1):
                    r = yield ("callv", next_b, [dp])
                    if isinstance(r, Enum) and isinstance(r.discr, int) and r.discr == 0:
                        break
                    if isinstance(r, Enum) and isinstance(r.discr, int):
                        yield ("observe", label, {"value": r.v[1].f[0]})
                    else:
                        raise sym.Unsupported("Drain::next returned a merged Option")
                yield ("callv", drop_b, [dp])
                return UNIT
            return Script(script)
        return Native("callback", cb)
    tids = []
    for i, t in enumerate(tags, start=1):
        eng.run_thread(i, f"t{i}:push", push_b, [rp, t])
        tids.append(i)
    ct = len(tags) + 1
    eng.run_thread(ct, f"t{ct}:consume", cons_b, [rp, make_cb("drain1")])
    tids.append(ct)
    fin = ct + 1

    def final():
        yield ("call", cons_b, [rp, make_cb("drain2")])
        yield ("call", cons_b, [rp, make_cb("drain3")])
        return None
    eng.run_script(fin, "final: consume; consume", final)
    sc = conc.Scenario(eng, name)
    for t in tids:
        sc.thread_order(0, t)
        sc.thread_order(t, fin)
    sc.thread_order(0, fin)
    sc.build()
    import c05
    ys = []
    for lab in ("drain1", "drain2", "drain3"):
        ys += [(lab, e, pay) for e, pay in c05.payloads(eng, lab)]
    starts = [(lab, e, pay) for lab in ("drain1", "drain2", "drain3") for e, pay in c05.payloads(eng, lab + ":start")]
    allv = tags + pre
    foreign = z3.Or(*[z3.And(e.guard, z3.Not(z3.Or(*[pay["value"] == t for t in allv]))) for lab, e, pay in ys] or [z3.BoolVal(False)])
    twice = z3.Or(*[z3.Sum(*[z3.If(z3.And(e.guard, pay["value"] == t), 1, 0) for lab, e, pay in ys] + [z3.IntVal(0)]) > 1 for t in allv]) if ys else z3.BoolVal(False)
    too_many = z3.Or(*[z3.And(e.guard, z3.Or(z3.UGT(pay["len"], bv(CAP)), z3.UGT(pay["len"], pay["unsampled_len"]))) for lab, e, pay in starts] or [z3.BoolVal(False)])
    # the known mechanism: a drain reads a slot whose pusher has claimed it (count already incremented) but not yet stored the value
    k9 = []
    for p in [t for t in tids if t != ct]:
        claims = [e for e in eng.events if e.tid == p and e.label == "fetch_add"]
        stores = [e for e in eng.events if e.tid == p and e.label == "store" and e.kind == "W"]
        loads = [e for e in eng.events if e.tid in (ct, fin) and e.label == "load" and e.fn and e.fn.endswith("::next")]
        for c_ in claims:
            for s_ in stores:
                for l_ in loads:
                    k9.append(z3.And(c_.guard, s_.guard, l_.guard, sc.clock[c_.id] < sc.clock[l_.id], sc.clock[l_.id] < sc.clock[s_.id]))
    k9c = z3.Or(*k9) if k9 else z3.BoolVal(False)
    # second known mechanism (same family): a push claims its slot after the drain has read the count and before the drain's reset
    # (`count.store(0)` when the Drain is dropped): the reset wipes the claim, the value stays in a slot nobody will read
    k10 = []
    for p in [t for t in tids if t != ct]:
        claims = [e for e in eng.events if e.tid == p and e.label == "fetch_add"]
        cloads = [e for e in eng.events if e.tid in (ct, fin) and e.label == "load" and e.fn and e.fn.endswith("::drain")]
        resets = [e for e in eng.events if e.tid in (ct, fin) and e.label == "store" and e.kind == "W" and e.fn and e.fn.endswith("::drop")]
        for c_ in claims:
            for l_ in cloads:
                for s_ in resets:
                    if l_.tid == s_.tid:
                        k10.append(z3.And(c_.guard, l_.guard, s_.guard, sc.clock[l_.id] < sc.clock[c_.id], sc.clock[c_.id] < sc.clock[s_.id]))
    k10c = z3.Or(*k10) if k10 else z3.BoolVal(False)
    # the stale slot contents are values of earlier cycles: different from everything pushed in this one
    stale = [x for x in inits if not any(x is t for t in pre)]
    distinct = [x != t for x in stale for t in allv]
    # within capacity nothing is sampled away: every pushed value is yielded by exactly one of the drains
    lost = z3.Or(*[z3.Sum(*[z3.If(z3.And(e.guard, pay["value"] == t), 1, 0) for lab, e, pay in ys] + [z3.IntVal(0), z3.IntVal(0)]) == 0 for t in allv]) if len(allv) <= CAP else z3.BoolVal(False)
    props = [("every_value_yielded_when_within_capacity", "no more values than the capacity were pushed, yet one of them is yielded by no drain (outside the known claimed-but-not-yet-written mechanism)", z3.And(lost, z3.Not(k9c), z3.Not(k10c)), distinct),
             ("yields_only_values_of_this_cycle", "a drain yields a value that was not pushed since the previous drain (outside the known claimed-but-not-yet-written mechanism)", z3.And(foreign, z3.Not(k9c)), distinct),
             ("no_value_yielded_twice", "a pushed value is yielded by two drains (or twice by one)", twice, distinct),
             ("never_more_than_capacity_or_than_pushed", "a drain announces more values than the capacity or than were pushed", too_many, None),
             ("no_panic", "push or consume can panic", sc.reach("panic"), None)]
    kn = {}
    if known:
        props.append(("K9_drain_reads_claimed_but_unwritten_slot", "known finding K9: the drain reads a slot that a concurrent push has claimed (count incremented) but not yet written: a stale value of an earlier cycle is yielded",
                      z3.And(foreign, k9c), distinct))
        kn["K9_drain_reads_claimed_but_unwritten_slot"] = "C16:K9-drain-reads-claimed-unwritten-slot"
        if len(allv) <= CAP:
            props.append(("K10_reset_wipes_a_claimed_slot", "known finding K10: a push claims its slot between the drain's read of the count and the drain's reset of the count: the value is never yielded",
                          z3.And(lost, k10c, z3.Not(k9c)), distinct))
            kn["K10_reset_wipes_a_claimed_slot"] = "C16:K10-reset-wipes-a-claimed-slot"
    import _e3 as E
    e3.standard(sc, eng, name, f"{prefilled} value(s) already pushed; {npush} pusher thread(s) || consume, then two quiescent consumes; capacity {CAP}; all interleavings of atomic steps; {sc.stats}", props, timeout=300, known=kn,
                replayer=E.native_replayer("C16", "c16", {**{t: "push" for t in tids if t != ct}, ct: f"consume {prefilled}"}, {}))


def run(tier, seed, t0):
    import _e3
    from mirsmt import sym
    e3 = _e3.E3("C16")
    for nm, np_, known, pre in [("c16_push_consume", 1, True, 0), ("c16_prefilled_push_consume", 1, True, 1)] + ([("c16_push2_consume", 2, True, 0)] if tier == "thorough" else []):
        try:
            schedule_scenario(e3, nm, np_, known, pre)
        except _e3.ENC_ERRORS as ex:
            e3.error(nm, "MIR->SMT encoding of AtomicSamplingReservoir", ex)
    obs = list(e3.res.obligations)
    obs += kani.run_group("util", [h for h in HARNESSES], tier, hooks=True)
    finish("C16", tier, seed, obs, t0, ASSUME + ASSUME_E3 + ["E3 callee models: " + ", ".join(sorted(e3.models))], FUNCS + sorted(e3.functions),
           explanation="Kani harnesses over AtomicSamplingReservoir with the PRNG draw as a solver unknown + MIR->SMT partial-order encoding of push || consume")


def replay(path):
    if path.endswith(".vals"):
        return _kprop.replay(path)
    import replay_e3
    status, out = replay_e3.run("c16", path)
    print(status, out)
    return 1 if status == "reproduced" else 0

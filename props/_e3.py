"""Helpers shared by the properties decided (partly) by the MIR->SMT engine."""
import os, sys, time, json
import z3
from common import *
from mirsmt import prog, sym, conc, models, check
from mirsmt.sym import Unsupported

_progs = {}


def program(crates, hooks=True, harness=False):
    key = (tuple(crates), hooks) if not harness else (tuple(crates), hooks, "harness")
    if key not in _progs:
        _progs[key] = prog.Program(list(crates), hooks=hooks, redump=True, harness=harness)
    return _progs[key]


class E3:
    """collects obligations of one property's E3 part"""

    def __init__(self, pid):
        self.pid = pid
        self.res = check.E3Result()
        self.functions = set()
        self.models = set()
        self.opaque = set()
        self.samples = []

    def absorb(self, eng):
        self.functions |= eng.functions_executed
        self.models |= eng.callees_modelled
        self.opaque |= eng.callees_opaque

    def error(self, name, desc, exc):
        o = Obligation(name, "mirsmt", desc)
        o.status, o.detail = "error", f"{type(exc).__name__}: {exc}"
        self.res.obligations.append(o)
        return o

    def standard(self, sc, eng, name, bounds, props, timeout=120, known=None, replayer=None):
        """vacuity witness + bound check + one query per property. props: [(pname, desc, violation_condition, extra_cons)]
        known: {pname: (known_key, classifier(model)->bool)}"""
        self.absorb(eng)
        base = list(sc.cons)
        specs = [dict(name=f"{name}:witness", desc="vacuity witness: all threads run to completion in some schedule", bounds=bounds,
                      cons=base + [sc.all_done()], expect_unsat=False),
                 dict(name=f"{name}:bounds", desc="loop bounds suffice: no execution reaches an unwinding cut-off", bounds=bounds,
                      cons=base + [sc.reach("unwound")], expect_unsat=True)]
        for pname, desc, viol, extra in props:
            def on_model(ob, model, pname=pname, desc=desc):
                sched = check.schedule_from_model(eng, sc, model)
                ob.sample = {"scenario": name, "property": pname, "schedule": [list(map(str, r)) for r in sched][:60]}
                rdir = os.path.join(REPLAYS, self.pid)
                os.makedirs(rdir, exist_ok=True)
                rp = os.path.join(rdir, f"{name}.{pname}.json".replace(":", "_"))
                json.dump({"property": self.pid, "scenario": name, "violated": pname, "desc": desc,
                           "schedule": [list(map(str, r)) for r in sched],
                           "columns": ["clock", "tid", "thread", "kind", "label", "object", "path", "value_read", "value_written"]}, open(rp, "w"), indent=1)
                ob.replay = rp
                if known and pname in known:
                    ob.known_key = known[pname]
                    ob.status = "known_candidate"
                if replayer:
                    replayer(ob, sched, pname, model, name)
            # a panic query asks for an execution that ends in a panic leaf, so it must not require normal completion
            must_complete = [] if pname.startswith("no_panic") else [sc.all_done()]
            specs.append(dict(name=f"{name}:{pname}", desc=desc, bounds=bounds, cons=base + list(extra or []) + must_complete + [viol],
                              expect_unsat=True, on_model=on_model))
        results = check.discharge_many(self.res, specs, timeout)
        results[0][0].functions = sorted(eng.functions_executed)
        if results[1][0].status == "violation":
            results[1][0].status = "error"
            results[1][0].detail = "loop bound too small: an UNWOUND leaf is reachable; " + results[1][0].detail
        for ob, q in results[2:]:
            if ob.status == "known_candidate":
                ob.status = "known" if ob.reproduced is not False else "error"
            elif ob.status == "violation" and ob.reproduced is False:
                ob.status = "error"
        return self.res.obligations


def native_replayer(pid, binname, roles, inputs=None):
    """roles: {tid: role string}; inputs: {name: z3 term} evaluated in the counterexample model"""
    import replay_e3

    def rp(ob, sched, pname, model, scen):
        vals = {}
        for k, t in (inputs or {}).items():
            try:
                vals[k] = model.eval(t, model_completion=True).as_long()
            except Exception:
                pass
        txt = replay_e3.plan_text(scen, pname, roles, sched, vals)
        pp = os.path.join(REPLAYS, pid, f"{scen}.{pname}.plan")
        open(pp, "w").write(txt)
        status, out = replay_e3.run(binname, pp)
        ob.detail += f" | native replay ({binname}, instrumented scratch copy): {status}"
        if ob.sample:
            ob.sample["native_replay"] = {"status": status, "output": out[-600:], "plan": pp}
        if status == "reproduced":
            ob.reproduced = True
            ob.replay = pp
        else:
            ob.reproduced = False
            ob.status = "error"
            ob.detail += " — counterexample did NOT reproduce natively: treated as an encoder/model problem, not reported as a violation"
    return rp


# what an encoder failure looks like: a construct of the *current* code that the engine or a scenario cannot follow. Caught per
# scenario, recorded as an `error` obligation (exit 2 unless another scenario reports a reproduced violation), never a verdict.
ENC_ERRORS = (Unsupported, KeyError, IndexError, AttributeError, TypeError, ValueError, AssertionError, z3.Z3Exception, RecursionError)

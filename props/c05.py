"""C05 The lock-free bucket never loses, duplicates or invents a sample."""
import z3
from common import *
import _e3
from mirsmt import sym, conc, models, models_cb
from mirsmt.sym import Ptr, Native, Fork, UNIT, bv

BS = 2      # block size used by the encoding and by the native replay (the logic is size-agnostic: 1 << index, trailing_ones)
ASSUME = [f"block size {BS} instead of 64 (constant overridden in the encoding; the scratch copy used for native replay is rewritten the same way)",
          "sequential consistency for atomics + release/acquire race relation for slot contents",
          "crossbeam-epoch is trusted: pin() is a no-op, defer_unchecked only retires blocks (a retired block must be unreachable)",
          "the two quiescence waits are awaits: a fair scheduler is assumed (a failed wait iteration has no effect)",
          "value type: opaque 64-bit tags without destructor"]


def build(shape, name, final_snapshot=True):
    """shape: list of ('push', n) | ('clear',) | ('data',) | ('is_empty',) threads"""
    P = _e3.program(["metrics-util"])
    m = {**models_cb.bucket_models(BS), **models.BASE}
    eng = sym.Engine(P, models=m, loop_bound=3, await_fns=[r"::data_with$", r"::clear_with$"], max_paths=20000)
    eng.loop_bounds = {r"::data_with$": 2, r"::clear_with$": 2, r"::push$": 3}
    eng.merge_fns = [r"::push$", r"::data_with$", r"::clear_with$"]
    eng.const_override = {"BLOCK_SIZE": bv(BS)}
    push_b = P.find("AtomicBucket", "push")
    clear_b = P.find("AtomicBucket", "clear_with")
    data_b = P.find("AtomicBucket", "data_with")
    empty_b = P.find("AtomicBucket", "is_empty")
    c0 = sym.Ctx(eng, 0)
    eng.thread_names[0] = "setup"
    tags = {}
    tail0 = z3.IntVal(0)
    if shape and shape[0][0] == "full_block":
        # the initial state is constructed, not executed: one block (write index = block size, every read bit set, the slots holding
        # values of the setup thread, no successor) is the tail. This is the state BS sequential pushes leave behind.
        pre = [bv(500 + k) for k in range(BS)]
        tags[0] = pre
        init = {(0,): (64, bv(BS)), (1,): (64, bv((1 << BS) - 1)), (3,): ("ptr", z3.IntVal(0))}
        for k in range(BS):
            init[(2, ("idx", k))] = (64, pre[k])
        blk = c0.alloc("Block", init)
        tail0 = z3.IntVal(blk)
        shape = shape[1:]
    bucket = c0.alloc("AtomicBucket", {(0,): ("ptr", tail0)})
    eng.leaves[0] = [sym.Leaf(c0, "done")]
    bp = Ptr(("obj", bucket))

    def make_cb(label):
        def cb(eng_, ctx, f, args):
            ptr, ln = args[0].data
            base = ptr.path[:-1]
            alts = []
            for n in range(BS + 1):
                def do(c, n=n):
                    for i in range(n):
                        v = c.mem_read(ptr.root[1], eng_.norm_path(base + (("idx", i),)), 64, False, "NA", "slot_read")
                        c.observe(label, value=v, index=i, block=ptr.root[1])
                    return UNIT
                alts.append((ln == bv(n), do))
            return Fork(alts)
        return Native("callback", cb)
    tids = []
    roles = {}
    for i, th in enumerate(shape, start=1):
        tids.append(i)
        if th[0] == "push":
            n = th[1]
            ts = [bv(1000 * i + k) for k in range(n)]
            tags[i] = ts

            def script(ts=ts):
                for t in ts:
                    yield ("call", push_b, [bp, t])
                    yield ("observe", "push_done", {"tag": t})
                return None
            eng.run_script(i, f"t{i}:push*{n}", script)
            roles[i] = f"push {n}"
        elif th[0] == "clear":
            eng.run_thread(i, f"t{i}:clear_with", clear_b, [bp, make_cb("cleared")])
            roles[i] = "clear"
        elif th[0] == "data":
            def script_d():
                yield ("observe", "read_begin", {})
                yield ("call", data_b, [bp, make_cb("snapshot")])
                return None
            eng.run_script(i, f"t{i}:data_with", script_d)
            roles[i] = "data"
        elif th[0] == "is_empty":
            def script_e():
                yield ("observe", "empty_begin", {})
                r = yield ("call", empty_b, [bp])
                return r
            eng.run_script(i, f"t{i}:is_empty", script_e)
            roles[i] = "is_empty"
    fin = len(shape) + 1
    if final_snapshot:
        eng.run_thread(fin, "final:data_with", data_b, [bp, make_cb("remaining")])
    sc = conc.Scenario(eng, name)
    for t in tids:
        sc.thread_order(0, t)
        if final_snapshot:
            sc.thread_order(t, fin)
    if final_snapshot:
        sc.thread_order(0, fin)
    sc.build()
    return P, eng, sc, tags, tids, roles, fin


def obs(eng, label):
    out = []
    for e in eng.events:
        if e.kind == "O" and e.label == label:
            out.append(e)
    return out


def payloads(eng, label):
    res = []
    for ls in eng.leaves.values():
        pass
    seen = set()
    for ls in eng.leaves.values():
        for l in ls:
            for lab, e, pay in l.obs:
                if lab == label and e.id not in seen:
                    seen.add(e.id)
                    res.append((e, pay))
    return res


def ev_where(eng, tid=None, label=None, fn=None, bb=None, kind=None):
    out = []
    for e in eng.events:
        if tid is not None and e.tid != tid:
            continue
        if label is not None and e.label != label:
            continue
        if fn is not None and not (e.fn and e.fn.endswith(fn)):
            continue
        if bb is not None and e.bb != bb:
            continue
        if kind is not None and e.kind != kind:
            continue
        out.append(e)
    return out


def known_shapes(eng, sc, tids):
    """z3 conditions describing the two known loss mechanisms (see DESIGN.md, K3 and K4)."""
    clk = sc.clock
    k3 = []
    k4 = []
    pushers = [t for t in tids if eng.thread_names[t].split(":")[1].startswith("push")]
    others = [t for t in tids if t not in pushers]
    for p in pushers:
        loads = [e for e in ev_where(eng, tid=p, label="cb_load") if e.fn.endswith("::push")]
        claims = [e for e in ev_where(eng, tid=p, label="fetch_add") if e.fn.endswith("::push")]
        hand_cas = [e for e in ev_where(eng, tid=p, label="cb_cas") if e.fn.endswith("::push")]
        links = [e for e in ev_where(eng, tid=p, label="cb_store") if e.fn.endswith("::push")]
        # K4: somebody touches `tail` between the publishing CAS of a fresh block (old tail non-null) and the store that links `next`
        for c in hand_cas:
            for s in links:
                if not sc.may_precede(c, s):
                    continue
                for x in eng.events:
                    if x.tid == p or x.tid == 0 or x.kind not in ("R", "U"):
                        continue
                    if x.label in ("cb_load", "cb_cas") and x.path == (0,) and isinstance(x.obj, int):
                        k4.append(z3.And(c.guard, c.wguard, s.guard, x.guard, clk[c.id] < clk[x.id], clk[x.id] < clk[s.id]))
        # K3: the pusher loaded `tail`, a clearer then detached that chain, and the pusher claims a slot afterwards
        for l in loads:
            for f in claims:
                if not sc.may_precede(l, f):
                    continue
                for d in eng.events:
                    if d.tid in others and d.label == "cb_cas" and d.fn and d.fn.endswith("::clear_with"):
                        k3.append(z3.And(l.guard, f.guard, d.guard, d.wguard, clk[l.id] < clk[d.id], clk[d.id] < clk[f.id]))
    return (z3.Or(*k3) if k3 else z3.BoolVal(False)), (z3.Or(*k4) if k4 else z3.BoolVal(False))


def scenario(e3, shape, name, known, with_race=True):
    P, eng, sc, tags, tids, roles, fin = build(shape, name)
    prefill = BS if shape and shape[0][0] == "full_block" else 0
    shape = shape[1:] if prefill else shape
    cleared = payloads(eng, "cleared")
    remaining = payloads(eng, "remaining")
    snapshot = payloads(eng, "snapshot")
    alltags = [t for ts in tags.values() for t in ts]

    def count(obsl, t):
        return z3.Sum(*[z3.If(z3.And(e.guard, pay["value"] == t), 1, 0) for e, pay in obsl]) if obsl else z3.IntVal(0)
    lost = z3.Or(*[count(cleared, t) + count(remaining, t) == 0 for t in alltags]) if alltags else z3.BoolVal(False)
    dup = z3.Or(*[count(cleared, t) + count(remaining, t) > 1 for t in alltags]) if alltags else z3.BoolVal(False)
    fabricated = z3.Or(*[z3.And(e.guard, z3.Not(z3.Or(*[pay["value"] == t for t in alltags]))) for e, pay in cleared + remaining + snapshot]) if alltags and (cleared or remaining or snapshot) else z3.BoolVal(False)
    k3, k4 = known_shapes(eng, sc, tids)
    not_known = z3.Not(k3)          # K4 (publish before link) is repaired: a loss through that mechanism is a violation again
    clk = sc.clock
    has_clear = any(th[0] == "clear" for th in shape)
    dones = payloads(eng, "push_done")
    begins = [e for e in eng.events if e.kind == "O" and e.label == "read_begin"]
    ebegins = [e for e in eng.events if e.kind == "O" and e.label == "empty_begin"]
    incomplete = []
    if not has_clear:
        for b in begins:
            for de, dp in dones:
                t = dp["tag"]
                seen_t = z3.Or(*[z3.And(e.guard, pay["value"] == t) for e, pay in snapshot]) if snapshot else z3.BoolVal(False)
                incomplete.append(z3.And(b.guard, de.guard, clk[de.id] < clk[b.id], z3.Not(seen_t)))
    wrong_empty = []
    if not has_clear:
        for tid in tids:
            if roles.get(tid) != "is_empty":
                continue
            for l in eng.leaves[tid]:
                if l.status != "done":
                    continue
                said_empty = eng.as_bool(l.ret)
                for b in ebegins:
                    for de, dp in dones:
                        wrong_empty.append(z3.And(l.taken(), said_empty, b.guard, de.guard, clk[de.id] < clk[b.id]))
    # values of one block appear in push order: two values of the same pusher seen in the same block by one read are in ascending slot order
    disorder = []
    for obsl in (snapshot, cleared, remaining):
        for i1, (e1, p1) in enumerate(obsl):
            for e2, p2 in obsl[i1 + 1:]:
                if e1.tid != e2.tid:
                    continue
                same_block = (p1["block"] == p2["block"]) if not (isinstance(p1["block"], int) and isinstance(p2["block"], int)) else z3.BoolVal(p1["block"] == p2["block"])
                for ts in tags.values():
                    for a_i, ta in enumerate(ts):
                        for tb in ts[a_i + 1:]:
                            # ta was pushed before tb by the same thread
                            lo, hi = (p1, p2) if p1["index"] < p2["index"] else (p2, p1)
                            if p1["index"] == p2["index"]:
                                continue
                            disorder.append(z3.And(e1.guard, e2.guard, same_block, lo["value"] == tb, hi["value"] == ta))
    race, extra = sc.race_condition()
    props = [
        ("no_value_lost", "a pushed value is neither handed to a clearing read nor visible afterwards (outside the known loss mechanism K3)", z3.And(lost, not_known), None),
        ("no_value_duplicated", "a pushed value is delivered twice", dup, None),
        ("no_value_fabricated_or_read_before_written", "a read yields a value that was never pushed (uninitialised slot)", fabricated, None),
        ("no_data_race_on_slots", "slot write and slot read unordered by happens-before", race, extra),
        ("snapshot_sees_every_completed_push", "a snapshot read misses a value whose push had completed before the read began (no clear involved)", z3.Or(*incomplete) if incomplete else z3.BoolVal(False), None),
        ("is_empty_is_truthful", "is_empty() returns true although a push had completed before the call began (no clear involved)", z3.Or(*wrong_empty) if wrong_empty else z3.BoolVal(False), None),
        ("block_values_in_push_order", "two values pushed by one thread appear in one block in the opposite order", z3.Or(*disorder) if disorder else z3.BoolVal(False), None),
        ("no_panic", "push / read can panic", sc.reach("panic"), None),
    ]
    # an oracle that does not apply to this shape (no reader of that kind) is not a query
    props = [p for p in props if not z3.is_false(z3.simplify(p[2]))]
    if not with_race:
        props = [p for p in props if p[0] != "no_data_race_on_slots"]     # quick tier: race freedom is decided on the other shapes (thorough: on all)
    kn = {}
    if "K3" in known:
        props.append(("K3_push_into_detached_block", "known finding K3: value lost because the pusher claims a slot in a chain that a clear detached after the pusher loaded tail", z3.And(lost, k3), None))
        kn["K3_push_into_detached_block"] = "C05:K3-push-claims-slot-after-detach"
    if "K4" in known:
        props.append(("K4_handover_publishes_before_linking", "known finding K4: values unreachable because a fresh block is published by CAS before its `next` link is stored", z3.And(lost, k4), None))
        kn["K4_handover_publishes_before_linking"] = "C05:K4-handover-publish-before-link"
    bounds = f"threads {shape} + final quiescent snapshot; block size {BS}; every interleaving of atomic steps; {sc.stats}"
    e3.standard(sc, eng, name, bounds, props, timeout=600, known=kn, replayer=_e3.native_replayer("C05", "c05", roles, {"prefill": z3.IntVal(prefill)}))


SCEN_QUICK = [
    ([("push", 1), ("clear",)], "c05_push_clear", ["K3"], True),
    ([("push", 2), ("data",)], "c05_push2_data", [], True),
    ([("push", 2), ("clear",)], "c05_push2_clear", ["K3"], False),
    ([("push", 1), ("push", 1), ("data",)], "c05_push_push_data", [], False),
    ([("push", 3), ("is_empty",)], "c05_push3_is_empty", [], False),
    # a full tail block (constructed), then the hand-over push racing a clear: the retry paths of push after a failed publishing CAS
    ([("full_block",), ("push", 1), ("clear",)], "c05_full_block_push_clear", ["K3"], False),
]
SCEN_THOROUGH = [
    ([("push", 1), ("push", 1)], "c05_push_push", []),
    # (race freedom of this shape is not queried: z3 4.8.12 does not decide it within 600 s; the relation is decided on the nine other shapes)
    ([("push", 3), ("clear",)], "c05_push3_clear", ["K3"], False),
    ([("push", 3), ("data",)], "c05_push3_data", []),
    ([("push", 1), ("push", 1), ("clear",)], "c05_push_push_clear", ["K3"]),
    ([("push", 2), ("clear",), ("clear",)], "c05_push2_clear_clear", ["K3"]),
]


def _worker(job):
    """one scenario in a process of its own (the symbolic execution is single-threaded Python); returns plain data"""
    shape, nm, known = job[:3]
    with_race = job[3] if len(job) > 3 else True
    e3 = _e3.E3("C05")
    try:
        scenario(e3, shape, nm, known, with_race)
    except _e3.ENC_ERRORS as ex:
        e3.error(nm, "MIR->SMT encoding of AtomicBucket / Block", ex)
    finally:
        # a pool worker does not run atexit handlers: remove its scratch copy of the instrumented tree here
        import sys
        rm_ = sys.modules.get("replay_e3")
        if rm_ is not None:
            rm_.cleanup()
    obs = []
    for o in e3.res.obligations:
        d = {}
        for k, v in o.__dict__.items():
            try:
                import json
                json.dumps(v)
                d[k] = v
            except (TypeError, ValueError):
                d[k] = str(v)
        obs.append(d)
    return obs, sorted(e3.models), sorted(e3.functions)


def run(tier, seed, t0):
    jobs = (SCEN_QUICK if tier == "quick" else [j[:3] for j in SCEN_QUICK]) + (SCEN_THOROUGH if tier == "thorough" else [])
    only = os.environ.get("VERIF_C05_ONLY")          # development aid: run the named scenarios only
    if only:
        jobs = [j for j in [x[:3] for x in SCEN_QUICK] + SCEN_THOROUGH if j[1] in only.split(",")]
    # the MIR is dumped once, before the workers start (they re-use the dump of this run)
    _e3.program(["metrics-util"])
    obs, mods, funcs = [], set(), set()
    if len(jobs) <= 1:
        results = [_worker(j) for j in jobs]
    else:
        import concurrent.futures as cf
        import multiprocessing as mp
        with cf.ProcessPoolExecutor(max_workers=min(7, len(jobs)), mp_context=mp.get_context("fork")) as ex:
            results = list(ex.map(_worker, jobs))
    for rows, m_, f_ in results:
        for d in rows:
            o = Obligation(d["name"], d.get("engine", "mirsmt"), d.get("desc", ""), d.get("bounds", ""))
            o.__dict__.update(d)
            obs.append(o)
        mods |= set(m_)
        funcs |= set(f_)
    finish("C05", tier, seed, obs, t0, ASSUME + ["E3 callee models: " + ", ".join(sorted(mods))], sorted(funcs),
           explanation="MIR->SMT partial-order encoding of AtomicBucket::{push,data_with,clear_with} and Block::{push,len,is_quiesced,data}")


def replay(path):
    import replay_e3
    status, out = replay_e3.run("c05", path)
    print(status, out)
    return 1 if status == "reproduced" else 0

"""C14 Shared strings and label slices own their memory correctly on every path."""
from common import *
import kani, _kprop

FUNCS = ["metrics::cow::Cow::{from_owned,from_shared,from_borrowed,const_slice,const_str,into_owned,clone,drop,deref,eq}",
         "metrics::cow::<impl Cowable for str>::*", "metrics::cow::<impl Cowable for [T]>::*", "metrics::cow::clone_shared", "metrics::cow::Metadata::kind"]
SC = {0: "drop", 1: "into_owned", 2: "clone; drop original; read clone; into_owned clone", 3: "clone; into_owned original; drop owned; read clone",
      4: "clone; clone; drop; drop; read", 5: "clone; eq; into_owned both"}
B = "length 0..2 (shared: 2), spare capacity 0..1, symbolic contents; element type with counted clone/drop"
names = ["c14_slice_borrowed_s1", "c14_slice_borrowed_s2"] + [f"c14_slice_owned_s{i}" for i in range(6)] + [f"c14_slice_shared_s{i}" for i in range(6)] + \
        ["c14_str_borrowed_s1", "c14_str_borrowed_s2"] + [f"c14_str_owned_s{i}" for i in range(5)] + [f"c14_str_shared_s{i}" for i in range(5)] + \
        ["c14_str_from_std_s1", "c14_str_from_std_s3"]
QUICK = {"c14_slice_borrowed_s2", "c14_slice_owned_s0", "c14_slice_owned_s1", "c14_slice_owned_s3", "c14_slice_shared_s1", "c14_slice_shared_s3", "c14_slice_shared_s5",
         "c14_str_borrowed_s2", "c14_str_owned_s0", "c14_str_owned_s1", "c14_str_owned_s3", "c14_str_shared_s1", "c14_str_shared_s3", "c14_str_from_std_s3"}
HARNESSES = [kani.H(n, f"{n.split('_')[1]} Cow built {n.split('_')[2]}: scenario `{SC[int(n[-1])]}` — content preserved, CBMC pointer checks (use after free, double free, out of bounds), every element dropped exactly once, Arc count back to 1",
                    B, 600, tier="quick" if n in QUICK else "thorough", functions=FUNCS) for n in names]
ASSUME = ["hook: metrics::VerifCow re-exports the private cow::Cow so that slices of a drop-counting element type can be built",
          "operation sequences are fixed per harness (6 scenarios x 3 construction kinds); lengths <= 2; Arc-backed values have a concrete length (symbolic allocation layouts are out of reach of the SAT back end)",
          "a leaked *empty* buffer (no elements) is not observable by element counting; Send/Sync are type-level and not checked here",
          "Kani's memory-safety checks (pointer validity, double free, dealloc layout) are the oracle for use-after-free, double free and releases with a wrong layout; natively they are "
          "confirmed by a checking global allocator in the replay binary (block sizes in a header)"]


def run(tier, seed, t0):
    # "reads back exactly the content it was built from" includes what comparisons see: two values that share a start address but not a
    # length (prefixes of one static buffer) are different contents (harness shared with C03)
    import c03
    alias = [h for h in c03.HARNESSES if h.name == "c03_alias_0"]
    _kprop.run_kani("C14", tier, seed, t0, [("core", HARNESSES, dict(hooks=True)), ("core", alias, dict(hooks=True, stubbing=True))], ASSUME, FUNCS,
                    "Kani harnesses over Cow<str> / Cow<[D]> for every construction kind and six operation scenarios")


def replay(path):
    return _kprop.replay(path)

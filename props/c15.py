"""C15 Histogram buckets and summary windows mean what Prometheus says they mean."""
from common import *
import kani, _kprop

FUNCS = ["metrics_util::storage::Histogram::{new,record,record_many,buckets,count,sum}"]
B = "ascending symbolic f64 bounds (no NaN), symbolic f64 samples of every class (NaN, infinities, zero, equal to a bound)"
HARNESSES = [
    kani.H("c15_hist_1x2", "1 bound, 2 samples: bucket = #samples <= bound for record and for record_many; count = #samples; buckets monotone", B, 600, functions=FUNCS),
    kani.H("c15_hist_2x2", "2 bounds, 2 samples", B, 900, functions=FUNCS),
    kani.H("c15_hist_3x2", "3 bounds, 2 samples", B, 1800, tier="thorough", functions=FUNCS),
    kani.H("c15_hist_2x3", "2 bounds, 3 samples", B, 2400, tier="thorough", functions=FUNCS),
    kani.H("c15_split_2x2", "2 bounds, 2 samples: batch then singles/batch at a symbolic split: cumulative, never decreasing over time", B, 900, functions=FUNCS),
    kani.H("c15_split_2x3", "2 bounds, 3 samples, split", B, 2400, tier="thorough", functions=FUNCS),
    kani.H("c15_hist_empty_bounds", "empty bound list is rejected", "-", 100, functions=FUNCS),
]
ASSUME = ["bit-identical `_sum` across different batchings is not demanded (float addition is not associative)",
          "rolling summary window (E3): the sketch (`Summary`) is modelled as the multiset of samples it was given, so the check decides *which* samples the quantiles are computed from, the total count and nothing about the "
          "sketch's numerics; DDSketch quantile accuracy is not applicable (transcendental floats); timestamps are non-decreasing in recording order (out-of-order batches are outside the bound)"]


ASSUME_E3 = ["E3 (matcher precedence): DistributionBuilder::{new,get_distribution,get_distribution_type} with two bucket overrides of symbolic kind (Full/Prefix/Suffix) and symbolic patterns of 1-2 characters, "
             "a name of 3 characters, global buckets present or not; HashMap iteration order both ways; slice::sort_by as a stable sort driven by the real comparison closure; "
             "str::starts_with / ends_with / == and String::cmp by their meaning over the characters"]


def precedence(e3):
    import z3
    import _e3
    from mirsmt import sym, models, check, models_str as MS, models_coll as MC
    from mirsmt.sym import Ptr, Agg, Enum, Native, Fork, UNIT, bv, Opaque, Script
    P = _e3.program(["metrics-exporter-prometheus"])
    mk = P.enums["Matcher"]
    new_b = P.find("DistributionBuilder", "new")
    get_b = P.find("DistributionBuilder", "get_distribution")
    ty_b = P.find("DistributionBuilder", "get_distribution_type")
    ORD = {"Less": 0xFFFFFFFFFFFFFFFF, "Equal": 0, "Greater": 1}
    P.enums["Ordering"] = ["Relaxed", "Release", "Acquire", "AcqRel", "SeqCst"]

    def ordering(lt, eq):
        return Enum(z3.If(lt, bv(ORD["Less"]), z3.If(eq, bv(0), bv(1))), {}, "CmpOrdering")

    def cmp_items(a, b):
        """lexicographic comparison of two character sequences -> (less, equal)"""
        lt, eq = z3.BoolVal(False), z3.BoolVal(True)
        for x, y in zip(a, b):
            lt = z3.Or(lt, z3.And(eq, z3.ULT(x, y)))
            eq = z3.And(eq, x == y)
        if len(a) < len(b):
            lt = z3.Or(lt, eq)
            eq = z3.BoolVal(False)
        elif len(a) > len(b):
            eq = z3.BoolVal(False)
        return lt, eq

    def m_string_cmp(eng, ctx, f, path, args, dty):
        lt, eq = cmp_items(MS.as_items(eng, ctx, args[0]), MS.as_items(eng, ctx, args[1]))
        return ordering(lt, eq)

    def m_isize_cmp(eng, ctx, f, path, args, dty):
        a, b_ = MC.load(eng, ctx, args[0]), MC.load(eng, ctx, args[1])
        return ordering(a < b_ if z3.is_int(a) else (a.as_long() < b_.as_long() if sym.is_concrete(a) and sym.is_concrete(b_) and False else z3.ULT(a, b_) if False else a < b_), a == b_)

    cmp_body = [b for b in P.by_last["cmp"] if "common.rs" in b.name and b.args and "Matcher" in b.args[0][1]][0]

    def m_matcher_cmp(eng, ctx, f, path, args, dty):
        def script(c):
            r = yield ("callv", cmp_body, list(args))
            return r
        return Script(script)

    def m_sort_by(eng, ctx, f, path, args, dty):
        vp = args[0]
        v = MC.load(eng, ctx, vp)
        clo = args[1]
        elems = list(v.data)

        def script(c):
            cells = yield ("effect", lambda c_: [MC.new_cell(c_, x, "sortelem") for x in elems])
            order = []
            for i in range(len(elems)):          # stable insertion sort driven by the real comparison
                pos = len(order)
                for j in range(len(order)):
                    r = yield ("callv", clo, [Ptr(("static", cells[i])), Ptr(("static", cells[order[j]]))])
                    less = yield ("branch", r.discr == bv(ORD["Less"]))
                    if less:
                        pos = j
                        break
                order.insert(pos, i)
            yield ("effect", lambda c_: eng.store_ptr(c_, vp, MS.lvec(tuple(elems[i] for i in order))))
            return UNIT
        return Script(script)

    def pref(p, s):
        return z3.And(*[a == b for a, b in zip(p, s)]) if len(p) <= len(s) else z3.BoolVal(False)

    def suff(p, s):
        return z3.And(*[a == b for a, b in zip(p, s[len(s) - len(p):])]) if len(p) <= len(s) else z3.BoolVal(False)
    for plens in ((1, 2), (2, 1), (2, 2)):
        for order in (0, 1):
            k1, k2 = z3.BitVec("kind1", 64), z3.BitVec("kind2", 64)
            p1 = [z3.BitVec(f"pat1_{i}", 32) for i in range(plens[0])]
            p2 = [z3.BitVec(f"pat2_{i}", 32) for i in range(plens[1])]
            nm = [z3.BitVec(f"name_{i}", 32) for i in range(3)]
            has_global = z3.Bool("global_buckets")
            base = [z3.ULT(k1, bv(3)), z3.ULT(k2, bv(3))]
            # patterns reach the DistributionBuilder sanitised (PrometheusBuilder::set_buckets_for_metric stores matcher.sanitized()) and names are
            # sanitised before the lookup: every character is an ASCII name character, so byte length = number of characters
            base += [z3.ULT(x, z3.BitVecVal(128, 32)) for x in p1 + p2 + nm]
            # the overrides come from a HashMap: the two matchers differ
            base.append(z3.Or(k1 != k2, z3.Not(MS.text_eq(tuple(p1), tuple(p2))) if len(p1) == len(p2) else z3.BoolVal(True)))
            mat = lambda k, p: Enum(k, {i: Agg({0: MS.sstr(tuple(p))}) for i in range(3)}, "Matcher")
            e1 = Agg({0: mat(k1, p1), 1: Native("buckets", 1)})
            e2 = Agg({0: mat(k2, p2), 1: Native("buckets", 2)})
            hm = MS.lvec((e1, e2) if order == 0 else (e2, e1))
            m = {r"^Arc::new$": models.m_identity, r"as IntoIterator>::into_iter$": lambda eng, ctx, f, path, args, dty: (Native("liter", (tuple(Ptr(("static", MC.new_cell(ctx, x, "ovr"))) for x in MC.load(eng, ctx, args[0]).data), 0))
                                                                                         if path.strip().startswith("<&") else Native("liter", (MC.load(eng, ctx, args[0]).data, 0))),
                 r"as Iterator>::collect$": lambda eng, ctx, f, path, args, dty: MS.lvec(MC.load(eng, ctx, args[0]).data[0]),
                 r"as Deref(Mut)?>::deref(_mut)?$": lambda eng, ctx, f, path, args, dty: args[0] if isinstance(args[0], Ptr) and not isinstance(eng.load_ptr(ctx, args[0]), Ptr) else MC.load(eng, ctx, args[0]),
                 r"sort_by$": m_sort_by, r"^<Matcher as Ord>::cmp$": m_matcher_cmp, r"^<String as Ord>::cmp$|^<str as Ord>::cmp$": m_string_cmp, r"^<isize as Ord>::cmp$": m_isize_cmp,
                 r"^core::str::(.*::)?starts_with$": lambda eng, ctx, f, path, args, dty: pref(MS.as_items(eng, ctx, args[1]), MS.as_items(eng, ctx, args[0])),
                 r"^core::str::(.*::)?ends_with$": lambda eng, ctx, f, path, args, dty: suff(MS.as_items(eng, ctx, args[1]), MS.as_items(eng, ctx, args[0])),
                 r"as PartialEq>::eq$": lambda eng, ctx, f, path, args, dty: MS.text_eq(MS.as_items(eng, ctx, args[0]), MS.as_items(eng, ctx, args[1])),
                 r"Distribution::new_histogram$": lambda eng, ctx, f, path, args, dty: Native("dist", ("histogram", MC.load(eng, ctx, args[0]).data)),
                 r"Distribution::new_summary$": lambda *a: Native("dist", ("summary", 0)),
                 r"^core::slice::(.*::)?iter$": lambda eng, ctx, f, path, args, dty: Native("liter", (tuple(Ptr(("static", MC.new_cell(ctx, x, "ovr"))) for x in MC.load(eng, ctx, args[0]).data), 0)),
                 r"^Duration::from_secs$|NonZero.*::new$|^NonZero::new$|Option::unwrap$": lambda *a: Opaque("const"),
                 r"as Iterator>::next$": MS.m_next, r"as Clone>::clone$": lambda eng, ctx, f, path, args, dty: MC.load(eng, ctx, args[0])}
            m.update(models.BASE)
            eng = sym.Engine(P, models=m, loop_bound=5, max_paths=5000)
            eng.merging = False
            eng.const_override = {"DEFAULT_SUMMARY_BUCKET_COUNT": Opaque("count"), "DEFAULT_SUMMARY_BUCKET_DURATION": Opaque("duration")}
            ctx0 = sym.Ctx(eng, 1)
            gb = Enum(z3.If(has_global, bv(1), bv(0)), {1: Agg({0: Native("buckets", 0)})}, "Option")

            def script():
                db = yield ("call", new_b, [Opaque("quantiles"), Enum(0, {}, "Option"), gb, Enum(0, {}, "Option"), Enum(1, {1: Agg({0: hm})}, "Option")])
                yield ("setstatic", "db", db)
                d = yield ("call", get_b, [Ptr(("static", "db")), MS.sstr(tuple(nm))])
                t = yield ("call", ty_b, [Ptr(("static", "db")), MS.sstr(tuple(nm))])
                return Agg({0: d, 1: t})
            leaves = eng.run_script(1, "DistributionBuilder", script, ctx0=ctx0)
            e3.absorb(eng)
            done = [l for l in leaves if l.status == "done"]
            other = z3.Or(*[l.taken() for l in leaves if l.status != "done"] or [z3.BoolVal(False)])

            def matches(k, p):
                return z3.If(k == bv(mk.index("Full")), MS.text_eq(tuple(p), tuple(nm)) if len(p) == len(nm) else z3.BoolVal(False),
                             z3.If(k == bv(mk.index("Prefix")), pref(p, nm), suff(p, nm)))
            rank = lambda k: z3.If(k == bv(mk.index("Full")), 0, z3.If(k == bv(mk.index("Prefix")), 1, 2))
            m1, m2 = matches(k1, p1), matches(k2, p2)
            # reference: full > prefix > suffix; two matching overrides of the same kind: either (unspecified)
            want1 = z3.And(m1, z3.Or(z3.Not(m2), rank(k1) < rank(k2)))
            want2 = z3.And(m2, z3.Or(z3.Not(m1), rank(k2) < rank(k1)))
            tie = z3.And(m1, m2, rank(k1) == rank(k2))
            bad, badty = [], []
            for l in done:
                d, t = l.ret.f[0], l.ret.f[1]
                if not (isinstance(d, Native) and d.kind == "dist"):
                    bad.append(l.taken())
                    continue
                kind, bid = d.data
                got1, got2, gotg, gots = (kind == "histogram" and bid == 1), (kind == "histogram" and bid == 2), (kind == "histogram" and bid == 0), kind == "summary"
                ok = z3.Or(z3.And(want1, z3.BoolVal(got1)), z3.And(want2, z3.BoolVal(got2)), z3.And(tie, z3.BoolVal(got1 or got2)),
                           z3.And(z3.Not(m1), z3.Not(m2), has_global, z3.BoolVal(gotg)), z3.And(z3.Not(m1), z3.Not(m2), z3.Not(has_global), z3.BoolVal(gots)))
                bad.append(z3.And(l.taken(), z3.Not(ok)))
                titems = MS.as_items(eng, None, t) if isinstance(t, Native) else None
                tstr = "".join(chr(x.as_long()) for x in titems) if titems is not None and all(z3.is_bv_value(x) for x in titems) else None
                badty.append(z3.And(l.taken(), z3.BoolVal(tstr != ("histogram" if kind == "histogram" else "summary"))))
            cname = f"c15_precedence_p{plens[0]}{plens[1]}_o{order}"
            bounds = (f"DistributionBuilder::new with two overrides (kinds symbolic, patterns of {plens[0]} and {plens[1]} characters, map iteration order {order}), global buckets present or not; "
                      f"get_distribution / get_distribution_type of a 3-character name; {len(done)} paths")
            done_ref = done

            def on_model(ob, model, cname=cname, k1=k1, k2=k2, p1=p1, p2=p2, nm=nm, has_global=has_global, done_ref=done_ref):
                import replay_e3
                ev = lambda t: model.eval(t, model_completion=True)
                chars = sorted({ev(x).as_long() for x in p1 + p2 + nm})
                letter = {c: i for i, c in enumerate(chars)}          # order- and equality-preserving renaming to 'a', 'b', ...
                inputs = {"kind1": ev(k1).as_long(), "kind2": ev(k2).as_long(), "global": int(z3.is_true(ev(has_global))), "len1": len(p1), "len2": len(p2)}
                for nm_, seq in (("p1", p1), ("p2", p2), ("nm", nm)):
                    for i, x in enumerate(seq):
                        inputs[f"{nm_}_{i}"] = letter[ev(x).as_long()]
                inputs["kFull"], inputs["kPrefix"], inputs["kSuffix"] = mk.index("Full"), mk.index("Prefix"), mk.index("Suffix")
                ob.sample = dict(inputs)
                os.makedirs(os.path.join(REPLAYS, "C15"), exist_ok=True)
                pp = os.path.join(REPLAYS, "C15", f"{cname}.{ob.name.split(':')[1]}.plan")
                open(pp, "w").write(replay_e3.plan_text("c15_precedence", ob.name.split(":")[1], {}, [], inputs))
                status, out = replay_e3.run("c15", pp)
                ob.detail += f" | native replay (c15, PrometheusBuilder with the two overrides, rendered le bounds): {status}"
                ob.sample["native_replay"] = {"status": status, "output": out[-500:]}
                ob.replay = pp
                ob.reproduced = status == "reproduced"
                if not ob.reproduced:
                    ob.status = "error"
                    ob.detail += " — counterexample did NOT reproduce natively: treated as an encoder/model problem, not reported as a violation"
            specs = [dict(name=f"{cname}:witness", desc="completes", bounds=bounds, cons=base + [z3.Or(*[l.taken() for l in done] or [z3.BoolVal(False)])], expect_unsat=False),
                     dict(name=f"{cname}:returns", desc="panics or exceeds a loop bound", bounds=bounds, cons=base + [other], expect_unsat=True, on_model=on_model),
                     dict(name=f"{cname}:full_then_prefix_then_suffix_then_global", on_model=on_model, desc="the buckets chosen for the name are not those of the matching override with the highest precedence (full name, then prefix, then suffix), "
                          "then the global buckets, and otherwise a summary", bounds=bounds, cons=base + [z3.Or(*bad or [z3.BoolVal(False)])], expect_unsat=True),
                     dict(name=f"{cname}:type_string_agrees_with_distribution", desc="the TYPE string for the name disagrees with the kind of distribution built for it", bounds=bounds,
                          cons=base + [z3.Or(*badty or [z3.BoolVal(False)])], expect_unsat=True, on_model=on_model)]
            check.discharge_many(e3.res, specs, 120)


def rolling_window(e3, nsamples, batch, nb, ordered=True):
    """Distribution::new_summary(q, d, n); record_samples over `nsamples` samples with non-decreasing timestamps (one batch or singly);
    RollingSummary::snapshot(now). The DDSketch (`Summary`) is the multiset of sample indices it was given (its numerics are outside the
    claim), so the snapshot says exactly which samples the quantiles are computed from. Time is a mathematical integer (ns)."""
    import z3
    import _e3
    from mirsmt import sym, models, check, models_str as MS, models_coll as MC
    from mirsmt.sym import Ptr, Agg, Enum, Native, Fork, UNIT, bv, Opaque, Script
    P = _e3.program(["metrics-exporter-prometheus"])
    new_b = P.find("Distribution", "new_summary")
    rec_b = P.find("Distribution", "record_samples")
    snap_b = P.find("RollingSummary", "snapshot")
    d = z3.Int("bucket_duration")
    n = z3.IntVal(nb)            # concrete per scenario: keeps n*d linear
    ts = [z3.Int(f"ts{i}") for i in range(nsamples)]
    now = z3.Int("now")
    vals = [z3.BitVec(f"sample{i}", 64) for i in range(nsamples)]
    base = [d > 0, d < (1 << 40), n >= 1, n <= 3] + [t >= 0 for t in ts] + [now >= t for t in ts] + [now < (1 << 50)] + [t < (1 << 50) for t in ts]
    if ordered:
        base += [ts[i] <= ts[i + 1] for i in range(nsamples - 1)]

    def ld(eng, ctx, v):
        return MC.load(eng, ctx, v)

    def m_summary_add(eng, ctx, f, path, args, dty):
        cur = ld(eng, ctx, args[0])
        v = args[1]
        idx = [i for i, x in enumerate(vals) if z3.is_expr(v) and v.eq(x)]
        eng.store_ptr(ctx, args[0], Native("summary", tuple(cur.data) + (idx[0] if idx else ("?", v),)))
        return UNIT

    def m_summary_merge(eng, ctx, f, path, args, dty):
        cur, other = ld(eng, ctx, args[0]), ld(eng, ctx, args[1])
        eng.store_ptr(ctx, args[0], Native("summary", tuple(cur.data) + tuple(other.data)))
        return Enum(0, {0: Agg({0: UNIT})}, "Result")

    def _chk(op):
        def h(eng, ctx, f, path, args, dty):
            a, b_ = ld(eng, ctx, args[0]), ld(eng, ctx, args[1])
            r = a - b_
            return Fork([(r >= 0, Enum(1, {1: Agg({0: r})}, "Option")), (r < 0, Enum(0, {}, "Option"))])
        return h
    m = {r"(^|::)Summary::with_defaults$": lambda *a: Native("summary", ()), r"(^|::)Summary::add$": m_summary_add, r"(^|::)Summary::merge$": m_summary_merge,
         r"^<Summary as Clone>::clone$": lambda eng, ctx, f, path, args, dty: ld(eng, ctx, args[0]),
         r"Duration::is_zero$": lambda eng, ctx, f, path, args, dty: ld(eng, ctx, args[0]) == 0,
         r"^<Duration as Mul<u32>>::mul$|^<Duration as Mul>::mul$": lambda eng, ctx, f, path, args, dty: args[0] * args[1],
         r"NonZero.*::get$": lambda eng, ctx, f, path, args, dty: ld(eng, ctx, args[0]),
         r"Instant as Add(<Duration>)?>::add$": lambda eng, ctx, f, path, args, dty: args[0] + args[1],
         r"Instant as AddAssign(<Duration>)?>::add_assign$": lambda eng, ctx, f, path, args, dty: (eng.store_ptr(ctx, args[0], eng.load_ptr(ctx, args[0]) + args[1]), UNIT)[1],
         r"Instant::checked_sub$": _chk("sub"),
         r"Instant as PartialOrd>::(gt|ge|lt|le)$": lambda eng, ctx, f, path, args, dty: {"gt": lambda x, y: x > y, "ge": lambda x, y: x >= y, "lt": lambda x, y: x < y, "le": lambda x, y: x <= y}[path.rsplit("::", 1)[1]](ld(eng, ctx, args[0]), ld(eng, ctx, args[1])),
         r"^Arc::new$": models.m_identity}
    m.update(models.BASE)
    eng = sym.Engine(P, models=m, loop_bound=nsamples + 4, max_paths=20000)
    eng.merging = False
    eng.int_mode = True
    ctx0 = sym.Ctx(eng, 1)
    pairs = [Agg({0: vals[i], 1: ts[i]}) for i in range(nsamples)]

    def script():
        dist = yield ("call", new_b, [Opaque("quantiles"), d, n])
        yield ("setstatic", "dist", dist)
        dp = Ptr(("static", "dist"))
        # the slices live in places of their own (the code may take references to their elements)
        if batch:
            yield ("setstatic", "samples", MS.lvec(tuple(pairs)))
            yield ("call", rec_b, [dp, Ptr(("static", "samples"))])
        else:
            for n_, p_ in enumerate(pairs):
                yield ("setstatic", f"samples{n_}", MS.lvec((p_,)))
                yield ("call", rec_b, [dp, Ptr(("static", f"samples{n_}"))])
        dv = yield ("getstatic", "dist")
        # Distribution::Summary(rolling, quantiles, sum)
        sv = [pv for pv in dv.v.values() if pv.f and isinstance(pv.f.get(0), Agg)]
        if len(sv) != 1:
            raise sym.Unsupported(f"Distribution value {dv}")
        yield ("setstatic", "rolling", sv[0].f[0])
        snap = yield ("call", snap_b, [Ptr(("static", "rolling")), now])
        return Agg({0: snap, 1: sv[0].f[0], 2: sv[0].f[2]})
    leaves = eng.run_script(1, "rolling summary", script, ctx0=ctx0)
    e3.absorb(eng)
    done = [l for l in leaves if l.status == "done"]
    other = z3.Or(*[l.taken() for l in leaves if l.status != "done"] or [z3.BoolVal(False)])
    window = n * d
    stale, missing, miscount, dup = [], [], [], []
    for l in done:
        snap, rolling, total = l.ret.f[0], l.ret.f[1], l.ret.f[2]
        got = list(snap.data) if isinstance(snap, Native) and snap.kind == "summary" else None
        if got is None or any(not isinstance(g, int) for g in got):
            stale.append(l.taken())
            continue
        for i in range(nsamples):
            c = got.count(i)
            if c > 1:
                dup.append(l.taken())
            if c >= 1:
                stale.append(z3.And(l.taken(), ts[i] <= now - window))                 # older than the window, yet counted
            else:
                missing.append(z3.And(l.taken(), ts[i] > now - window + d))               # safely inside the window, yet ignored
        cnt = [v for k, v in rolling.f.items() if z3.is_expr(v) and z3.is_int(v)]
        # the never-reset total count is one of the integer fields of RollingSummary: it must equal the number of samples
        miscount.append(z3.And(l.taken(), z3.Not(z3.Or(*[c_ == nsamples for c_ in cnt])) if cnt else z3.BoolVal(True)))
    orr = lambda xs: z3.Or(*xs) if xs else z3.BoolVal(False)
    cname = f"c15_window_{nsamples}{'batch' if batch else 'single'}_n{nb}" + ("" if ordered else "_anyorder")
    bounds = (f"Distribution::new_summary(quantiles, d, n) with any bucket duration d and {nb} bucket(s); {nsamples} samples with any {'non-decreasing ' if ordered else ''}timestamps "
              f"{'' if ordered else '(in any order: a drain hands the newest storage block over first) '}recorded {'as one batch' if batch else 'one call each'}; "
              f"RollingSummary::snapshot(now) at any now >= every timestamp; {len(done)} paths")

    def on_model(ob, model):
        import replay_e3
        ev = lambda t: model.eval(t, model_completion=True).as_long()
        inputs = {"n": nb, "d": ev(d), "now": ev(now), "k": nsamples, "batch": int(batch), "direct": int(not ordered)}
        for i in range(nsamples):
            inputs[f"ts{i}"] = ev(ts[i])
        ob.sample = dict(inputs)
        os.makedirs(os.path.join(REPLAYS, "C15"), exist_ok=True)
        pp = os.path.join(REPLAYS, "C15", f"{cname}.{ob.name.split(':')[1]}.plan")
        open(pp, "w").write(replay_e3.plan_text("c15_window", ob.name.split(":")[1], {}, [], inputs))
        status, out = replay_e3.run("c15", pp)
        ob.detail += f" | native replay (c15, PrometheusRecorder with a mock clock, rendered quantiles): {status}"
        ob.sample["native_replay"] = {"status": status, "output": out[-500:]}
        ob.replay = pp
        ob.reproduced = status == "reproduced"
        if not ob.reproduced:
            ob.status = "error"
            ob.detail += " — counterexample did NOT reproduce natively: treated as an encoder/model problem, not reported as a violation"
    specs = [dict(name=f"{cname}:witness", desc="a snapshot with an aged-out sample exists", bounds=bounds, cons=base + [orr([l.taken() for l in done]), ts[0] <= now - window], expect_unsat=False),
             dict(name=f"{cname}:returns", desc="add / snapshot panics or exceeds a loop bound", bounds=bounds, cons=base + [other], expect_unsat=True, on_model=on_model),
             dict(name=f"{cname}:quantiles_ignore_samples_older_than_the_window", desc="a sample older than the rolling window (timestamp <= now - n*d) still contributes to the quantiles", bounds=bounds, cons=base + [orr(stale)], expect_unsat=True, on_model=on_model),
             dict(name=f"{cname}:quantiles_cover_samples_inside_the_window", desc="a sample recorded in timestamp order and well inside the window (timestamp > now - n*d + d) is ignored by the quantiles, or counted twice", bounds=bounds,
                  cons=base + [orr(missing + dup)], expect_unsat=True, on_model=on_model),
             dict(name=f"{cname}:count_covers_all_samples", desc="the total count kept by the summary is not the number of samples recorded", bounds=bounds, cons=base + [orr(miscount)], expect_unsat=True, on_model=on_model)]
    if not ordered:
        # which samples the quantiles cover is specified for samples arriving in time order only; the count and termination for every order
        specs = [dict(name=f"{cname}:witness", desc="a history with a sample older than its predecessor exists", bounds=bounds,
                      cons=base + [orr([l.taken() for l in done]), z3.Or(*[ts[i] > ts[i + 1] + n * d for i in range(nsamples - 1)])], expect_unsat=False), specs[1], specs[4]]
    check.discharge_many(e3.res, specs, 300)


def run(tier, seed, t0):
    import _e3
    from mirsmt import sym
    e3 = _e3.E3("C15")
    try:
        precedence(e3)
    except _e3.ENC_ERRORS as ex:
        e3.error("c15_precedence", "MIR->SMT encoding of DistributionBuilder", ex)
    shapes = [(2, True, 3, True), (2, False, 2, True), (3, True, 2, True), (2, True, 1, True), (3, True, 2, False), (2, False, 1, False)]
    if tier != "quick":
        # (4 samples in one batch ran past an hour in the executor: path explosion over the bucket layouts)
        shapes += [(3, False, 3, True), (3, True, 3, True), (3, True, 1, True), (3, True, 3, False), (3, False, 2, False)]
    for k, batch, nb, ordered in shapes:
        if os.environ.get("VERIF_C15_ONLY") == "window_anyorder" and ordered:
            continue
        try:
            rolling_window(e3, k, batch, nb, ordered)
        except _e3.ENC_ERRORS as ex:
            e3.error(f"c15_window_{k}{'batch' if batch else 'single'}_n{nb}{'' if ordered else '_anyorder'}", "MIR->SMT encoding of Distribution::record_samples / RollingSummary", ex)
    try:
        import prom_int
        prom_int.scen_ageing(e3, "C15", "c15")
    except _e3.ENC_ERRORS as ex:
        e3.error("c15_summary_across_quiet_time", "MIR->SMT integration encoding of the Prometheus recorder", ex)
    obs = list(e3.res.obligations)
    obs += kani.run_group("util", HARNESSES, tier, hooks=True)
    finish("C15", tier, seed, obs, t0, ASSUME + ASSUME_E3 + ["E3 callee models: " + ", ".join(sorted(e3.models))], FUNCS + sorted(e3.functions),
           explanation="Kani harnesses over metrics_util::storage::Histogram + MIR->SMT encoding of the override precedence of DistributionBuilder")


def replay(path):
    return _kprop.replay(path)

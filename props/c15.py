"""C15 Histogram buckets and summary windows mean what Prometheus says they mean."""
from common import *
import kani, _kprop

FUNCS = ["metrics_util::storage::Histogram::{new,record,record_many,buckets,count,sum}"]
B = "ascending symbolic f64 bounds (no NaN), symbolic f64 samples of every class (NaN, infinities, zero, equal to a bound)"
HARNESSES = [
    kani.H("c15_hist_1x2", "1 bound, 2 samples: bucket = #samples <= bound for record and for record_many; count = #samples; buckets monotone", B, 600, functions=FUNCS),
    kani.H("c15_hist_2x2", "2 bounds, 2 samples", B, 900, functions=FUNCS),
    kani.H("c15_hist_3x2", "3 bounds, 2 samples", B, 1800, tier="thorough", functions=FUNCS),
    kani.H("c15_hist_2x3", "2 bounds, 3 samples", B, 2400, tier="thorough", functions=FUNCS),
    kani.H("c15_split_2x2", "2 bounds, 2 samples: batch then singles/batch at a symbolic split: cumulative, never decreasing over time", B, 900, functions=FUNCS),
    kani.H("c15_split_2x3", "2 bounds, 3 samples, split", B, 2400, tier="thorough", functions=FUNCS),
    kani.H("c15_hist_empty_bounds", "empty bound list is rejected", "-", 100, functions=FUNCS),
]
ASSUME = ["bit-identical `_sum` across different batchings is not demanded (float addition is not associative)",
          "matcher precedence (DistributionBuilder) and the rolling summary window are not covered by this check yet; DDSketch quantile accuracy is not applicable (transcendental floats)"]


def run(tier, seed, t0):
    _kprop.run_kani("C15", tier, seed, t0, [("util", HARNESSES, dict(hooks=True))], ASSUME, FUNCS,
                    "Kani harnesses over metrics_util::storage::Histogram with symbolic bounds and samples")


def replay(path):
    return _kprop.replay(path)

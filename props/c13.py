"""C13 Layers deliver exactly the transformed operations to exactly the right recorders."""
from common import *
import kani, _kprop

FUNCS = ["metrics_util::layers::prefix::Prefix::{prefix_key,prefix_key_name,describe_*,register_*}", "metrics_util::layers::fanout::{Fanout,FanoutCounter,FanoutGauge,FanoutHistogram}::*",
         "metrics_util::layers::Stack::{new,push}", "metrics_util::layers::PrefixLayer::layer"]
B = "names, prefixes, label parts: 1-byte strings with symbolic content; <=1 label; unit symbolic among 4; operation symbolic among the 3 describe or the 3 register calls"
BR = "names, prefixes, label parts: 1-byte strings with symbolic content; operation and label count (0 or 1) concrete per harness (a symbolic slice length is out of reach: > 600 s)"
HARNESSES = [
    kani.H("c13_prefix_describe", "prefix layer, describe_*: inner recorder receives '<prefix>.<name>' once, unit and description unchanged", B, 600, functions=FUNCS),
    kani.H("c13_prefix_register_counter_0", "prefix layer, register_counter, no labels: name prefixed, metadata unchanged, the handle update reaches the inner handle", BR, 600, functions=FUNCS),
    kani.H("c13_prefix_register_counter_1", "prefix layer, register_counter, one label: labels unchanged as well", BR, 600, functions=FUNCS),
    kani.H("c13_prefix_register_gauge_0", "prefix layer, register_gauge, no labels", BR, 600, functions=FUNCS),
    kani.H("c13_prefix_register_gauge_1", "prefix layer, register_gauge, one label", BR, 600, tier="thorough", functions=FUNCS),
    kani.H("c13_prefix_register_histogram_0", "prefix layer, register_histogram, no labels", BR, 600, tier="thorough", functions=FUNCS),
    kani.H("c13_prefix_register_histogram_1", "prefix layer, register_histogram, one label", BR, 600, functions=FUNCS),
    kani.H("c13_fanout_0", "fanout of width 0", B, 300, functions=FUNCS),
    kani.H("c13_fanout_1_describe", "fanout width 1, describe_*", B, 300, functions=FUNCS),
    kani.H("c13_fanout_2_describe", "fanout width 2, describe_*: every recorder once, in order", B, 400, functions=FUNCS),
    kani.H("c13_fanout_3_describe", "fanout width 3, describe_*", B, 900, tier="thorough", functions=FUNCS),
    kani.H("c13_fanout_1_register_counter_0", "fanout width 1, register_counter + update through the fanned-out handle", BR, 600, tier="thorough", functions=FUNCS),
    kani.H("c13_fanout_1_register_gauge_1", "fanout width 1, register_gauge with a label + update", BR, 600, tier="thorough", functions=FUNCS),
    kani.H("c13_fanout_2_register_counter_1", "fanout width 2, register_counter with a label: each inner recorder registers once, the update reaches each inner handle once", BR, 900, functions=FUNCS),
    kani.H("c13_fanout_2_register_gauge_0", "fanout width 2, register_gauge", BR, 900, tier="thorough", functions=FUNCS),
    kani.H("c13_fanout_2_register_histogram_1", "fanout width 2, register_histogram with a label", BR, 900, tier="thorough", functions=FUNCS),
    kani.H("c13_fanout_updates", "fanout width 2: each of increment/absolute/inc/dec/set/record reaches each inner handle once with the same value", "arbitrary u64/f64 values", 400, functions=FUNCS),
    kani.H("c13_stack", "Stack::push composes in push order (last pushed is outermost); prefix over fanout reaches both", B, 600, functions=FUNCS),
]
ASSUME = ["filter (Aho-Corasick) and router (radix trie) layers are not covered by this check yet: their third-party containers are out of reach of the SAT back end (planned: MIR->SMT with the documented meaning of is_match / get_ancestor)",
          "recording doubles (/verif/kani/dbl) log every call; strings <= 6 bytes"]


def run(tier, seed, t0):
    _kprop.run_kani("C13", tier, seed, t0, [("util", HARNESSES, dict(hooks=True))], ASSUME, FUNCS,
                    "Kani harnesses over the prefix layer, fanout and Stack with recording recorder doubles")


def replay(path):
    return _kprop.replay(path)

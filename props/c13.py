"""C13 Layers deliver exactly the transformed operations to exactly the right recorders."""
from common import *
import kani, _kprop

FUNCS = ["metrics_util::layers::prefix::Prefix::{prefix_key,prefix_key_name,describe_*,register_*}", "metrics_util::layers::fanout::{Fanout,FanoutCounter,FanoutGauge,FanoutHistogram}::*",
         "metrics_util::layers::Stack::{new,push}", "metrics_util::layers::PrefixLayer::layer"]
B = "names, prefixes, label parts: 1-byte strings with symbolic content; <=1 label; unit symbolic among 4; operation symbolic among the 3 describe or the 3 register calls"
BR = "names, prefixes, label parts: 1-byte strings with symbolic content; operation and label count (0 or 1) concrete per harness (a symbolic slice length is out of reach: > 600 s)"
HARNESSES = [
    kani.H("c13_prefix_describe", "prefix layer, describe_*: inner recorder receives '<prefix>.<name>' once, unit and description unchanged", B, 600, functions=FUNCS),
    kani.H("c13_prefix_register_counter_0", "prefix layer, register_counter, no labels: name prefixed, metadata unchanged, the handle update reaches the inner handle", BR, 600, functions=FUNCS),
    kani.H("c13_prefix_register_counter_1", "prefix layer, register_counter, one label: labels unchanged as well", BR, 600, functions=FUNCS),
    kani.H("c13_prefix_register_gauge_0", "prefix layer, register_gauge, no labels", BR, 600, functions=FUNCS),
    kani.H("c13_prefix_register_gauge_1", "prefix layer, register_gauge, one label", BR, 600, tier="thorough", functions=FUNCS),
    kani.H("c13_prefix_register_histogram_0", "prefix layer, register_histogram, no labels", BR, 600, tier="thorough", functions=FUNCS),
    kani.H("c13_prefix_register_histogram_1", "prefix layer, register_histogram, one label", BR, 600, functions=FUNCS),
    kani.H("c13_fanout_0", "fanout of width 0", B, 300, functions=FUNCS),
    kani.H("c13_fanout_1_describe", "fanout width 1, describe_*", B, 300, functions=FUNCS),
    kani.H("c13_fanout_2_describe", "fanout width 2, describe_*: every recorder once, in order", B, 400, functions=FUNCS),
    kani.H("c13_fanout_3_describe", "fanout width 3, describe_*", B, 900, tier="thorough", functions=FUNCS),
    kani.H("c13_fanout_1_register_counter_0", "fanout width 1, register_counter + update through the fanned-out handle", BR, 600, tier="thorough", functions=FUNCS),
    kani.H("c13_fanout_1_register_gauge_1", "fanout width 1, register_gauge with a label + update", BR, 600, tier="thorough", functions=FUNCS),
    kani.H("c13_fanout_2_register_counter_1", "fanout width 2, register_counter with a label: each inner recorder registers once, the update reaches each inner handle once", BR, 900, functions=FUNCS),
    kani.H("c13_fanout_2_register_gauge_0", "fanout width 2, register_gauge", BR, 900, tier="thorough", functions=FUNCS),
    kani.H("c13_fanout_2_register_histogram_1", "fanout width 2, register_histogram with a label", BR, 900, tier="thorough", functions=FUNCS),
    kani.H("c13_fanout_updates", "fanout width 2: each of increment/absolute/inc/dec/set/record reaches each inner handle once with the same value", "arbitrary u64/f64 values", 400, functions=FUNCS),
    kani.H("c13_stack", "Stack::push composes in push order (last pushed is outermost); prefix over fanout reaches both", B, 600, functions=FUNCS),
]
ASSUME = ["the filter and router layers are checked by the MIR->SMT engine with radix_trie / aho-corasick by their documented meaning (the crates themselves are trusted)",
          "recording doubles (/verif/kani/dbl) log every call; strings <= 6 bytes"]


ASSUME_E3 = ["E3 (router, filter): radix_trie::Trie by its documented meaning (insert replaces the value of an equal key; get_ancestor returns the entry with the longest key that is a prefix of the argument), "
             "AhoCorasick::is_match by its documented meaning: the haystack contains one of the patterns the automaton was built from, ASCII-case-insensitively if the builder flag was set (the automaton's own correctness is trusted); "
             "route patterns of 1 and 2 characters and names of 3 characters with symbolic content; recorders are recording doubles (every describe/register is observed)"]


def replay_native(ob, scen, pname, inputs):
    import replay_e3
    os.makedirs(os.path.join(REPLAYS, "C13"), exist_ok=True)
    pp = os.path.join(REPLAYS, "C13", f"{ob.name.split(':')[0]}.{pname}.plan")
    open(pp, "w").write(replay_e3.plan_text(scen, pname, {}, [], inputs))
    status, out = replay_e3.run("c13", pp)
    ob.detail += f" | native replay (c13, public API with recording doubles): {status}"
    if isinstance(ob.sample, dict):
        ob.sample["native_replay"] = {"status": status, "output": out[-500:]}
    ob.replay = pp
    ob.reproduced = status == "reproduced"
    if not ob.reproduced:
        ob.status = "error"
        ob.detail += " — counterexample did NOT reproduce natively: treated as an encoder/model problem, not reported as a violation"


def text_inputs(model, prefix, chars):
    d = {f"{prefix}_len": len(chars)}
    for i, c in enumerate(chars):
        d[f"{prefix}_{i}"] = model.eval(c, model_completion=True).as_long()
    return d


OPS = ["describe_counter", "describe_gauge", "describe_histogram", "register_counter", "register_gauge", "register_histogram"]


def router(e3):
    """RouterBuilder::add_route x2 with symbolic masks and patterns, build, then one operation: who receives it"""
    import z3
    import _e3
    from mirsmt import sym, models, check, models_str as MS, models_coll as MC
    from mirsmt.sym import Ptr, Agg, Enum, Native, Fork, UNIT, bv, Opaque, TailCall
    P = _e3.program(["metrics-util"])
    kinds = P.enums["MetricKind"]
    add_b = [b for b in P.by_last["add_route"] if b.impl and b.impl[1] == "RouterBuilder"][0]
    build_b = [b for b in P.by_last["build"] if b.impl and b.impl[1] == "RouterBuilder"][0]
    ops = {k: [b for b in P.by_last[f"describe_{k.lower()}"] if b.impl and b.impl[1] == "Router"][0] for k in kinds}
    regs = {k: [b for b in P.by_last[f"register_{k.lower()}"] if b.impl and b.impl[1] == "Router"][0] for k in kinds}
    for plens in ((1, 2), (2, 1), (1, 1), (2, 2), (1, 2, 2), (2, 1, 2)):
        for kind in (kinds if len(plens) == 2 else kinds[:1]):
            pats = [[z3.BitVec(f"p{r + 1}_{i}", 32) for i in range(plens[r])] for r in range(len(plens))]
            p1, p2 = pats[0], pats[1]
            nm = [z3.BitVec(f"name_{i}", 32) for i in range(3)]
            masks = [z3.BitVec(f"mask{r + 1}", 8) for r in range(len(plens))]
            m1, m2 = masks[0], masks[1]
            valid_masks = lambda m: z3.Or(m == 1, m == 2, m == 4, m == 7)
            base = [valid_masks(m_) for m_ in masks] + [z3.And(z3.UGE(c, 33), z3.ULE(c, 126)) for c in sum(pats, []) + nm]

            def on_model(ob, model, pats=pats, nm=nm, masks=masks, kind=kind):
                inputs = {"op": OPS.index(f"describe_{kind.lower()}"), "nroutes": len(pats)}
                for r in range(len(pats)):
                    inputs[f"mask{r + 1}"] = model.eval(masks[r], model_completion=True).as_long()
                    inputs.update(text_inputs(model, f"p{r + 1}", pats[r]))
                inputs.update(text_inputs(model, "name", nm))
                ob.sample = {k: (chr(v) if "_" in k and not k.endswith("_len") and k[0] in "pn" else v) for k, v in inputs.items()}
                replay_native(ob, "c13_router", ob.name.split(":")[1], inputs)

            def is_prefix(p, s):
                return z3.And(*[a == b for a, b in zip(p, s)]) if len(p) <= len(s) else z3.BoolVal(False)

            def m_trie_insert(eng, ctx, f, path, args, dty):
                t = MC.load(eng, ctx, args[0])
                key = MS.as_items(eng, ctx, args[1])
                entries = list(t.data)
                alts = []
                none_eq = []
                for i, (k, v) in enumerate(entries):
                    eq = MS.text_eq(k, key)
                    if z3.is_false(z3.simplify(eq)):
                        continue

                    def repl(c, i=i):
                        e2 = list(entries)
                        e2[i] = (e2[i][0], args[2])
                        eng.store_ptr(c, args[0], Native("trie", tuple(e2)))
                        return Enum(1, {1: Agg({0: entries[i][1]})}, "Option")
                    alts.append((z3.And(eq, *none_eq), repl))
                    none_eq.append(z3.Not(eq))

                def app(c):
                    eng.store_ptr(c, args[0], Native("trie", tuple(entries) + ((key, args[2]),)))
                    return Enum(0, {}, "Option")
                alts.append((z3.And(*none_eq) if none_eq else z3.BoolVal(True), app))
                return Fork(alts) if len(alts) > 1 else app(ctx)

            def m_get_ancestor(eng, ctx, f, path, args, dty):
                t = MC.load(eng, ctx, args[0])
                key = MS.as_items(eng, ctx, args[1])
                ents = sorted(t.data, key=lambda e: -len(e[0]))
                alts = []
                longer_match = []
                for k, v in ents:
                    c = is_prefix(k, key)
                    # entries are sorted by decreasing length: this one is the answer iff it matches and no longer one did
                    better = [x for kk, x in longer_match if len(kk) > len(k)]
                    alts.append((z3.And(c, *[z3.Not(b) for b in better]), Enum(1, {1: Agg({0: Native("subtrie", v)})}, "Option")))
                    longer_match.append((k, c))
                alts.append((z3.And(*[z3.Not(c) for kk, c in longer_match]) if longer_match else z3.BoolVal(True), Enum(0, {}, "Option")))
                return Fork(alts)

            def nibbles(chars):
                out = []
                for c in chars:
                    out += [z3.Extract(7, 4, c), z3.Extract(3, 0, c)]
                return out

            def lcp(a, b):
                """length (in nibbles) of the longest common prefix of two nibble sequences"""
                t, run = z3.IntVal(0), z3.BoolVal(True)
                for x, y in zip(a, b):
                    run = z3.And(run, x == y)
                    t = t + z3.If(run, 1, 0)
                return t

            def m_get_raw_ancestor(eng, ctx, f, path, args, dty):
                """radix_trie (keys as nibble strings; the characters here are one byte each): a node exists for every stored key and at
                every point where two stored keys part; the raw ancestor is the deepest node whose whole key is a prefix of the argument,
                with or without a value"""
                t = MC.load(eng, ctx, args[0])
                key = MS.as_items(eng, ctx, args[1])
                qn = nibbles(key)
                ents = list(t.data)
                cands = [(z3.BoolVal(True), z3.IntVal(0))]                      # the root
                stored = []
                for k, v in ents:
                    c = is_prefix(k, key)
                    cands.append((c, z3.IntVal(2 * len(k))))
                    stored.append((c, 2 * len(k), v))
                for i in range(len(ents)):
                    for j in range(i + 1, len(ents)):
                        ki, kj = nibbles(ents[i][0]), nibbles(ents[j][0])
                        L = lcp(ki, kj)
                        cands.append((lcp(ki, qn) >= L, L))
                best = z3.IntVal(0)
                for c, L in cands:
                    best = z3.If(z3.And(c, L > best), L, best)
                alts, none_of = [], []
                for c, L, v in stored:
                    hit = z3.And(c, best == L)
                    alts.append((z3.And(hit, *[z3.Not(x) for x in none_of]), Native("subtrie", v)))
                    none_of.append(hit)
                alts.append((z3.And(*[z3.Not(x) for x in none_of]) if none_of else z3.BoolVal(True), Native("subtrie", None)))
                return Fork(alts)

            def m_subtrie_value(eng, ctx, f, path, args, dty):
                st = MC.load(eng, ctx, args[0])
                if st.data is None:
                    return Enum(0, {}, "Option")
                return Enum(1, {1: Agg({0: Ptr(("static", MC.new_cell(ctx, st.data, "trieval")))})}, "Option")

            def m_dyn_call(opname):
                def h(eng, ctx, f, path, args, dty):
                    r = args[0]
                    while isinstance(r, Ptr):
                        r = eng.load_ptr(ctx, r)
                    ctx.observe("delivered", rec=r.data, op=opname)
                    return Opaque("handle")
                return h

            def m_get_unchecked(eng, ctx, f, path, args, dty):
                v = MC.load(eng, ctx, args[0])
                idx = args[1]
                if not (isinstance(v, Native) and v.kind == "lvec"):
                    raise sym.Unsupported(f"get_unchecked on {v}")
                if sym.is_concrete(idx):
                    return v.data[sym.concrete(idx)]
                alts = [(idx == bv(i), x) for i, x in enumerate(v.data)]
                return Fork(alts)
            m = {r"^Vec::len$": lambda eng, ctx, f, path, args, dty: bv(len(MC.load(eng, ctx, args[0]).data)),
                 r"^Vec::push$": lambda eng, ctx, f, path, args, dty: (eng.store_ptr(ctx, args[0], MS.lvec(tuple(MC.load(eng, ctx, args[0]).data) + (args[1],))), UNIT)[1],
                 r"^Box::new$": models.m_identity, r"as AsRef>::as_ref$": lambda eng, ctx, f, path, args, dty: MC.load(eng, ctx, args[0]),
                 r"as ToString>::to_string$": lambda eng, ctx, f, path, args, dty: MS.sstr(MS.as_items(eng, ctx, args[0])),
                 r"Trie::insert$|radix_trie::trie::insert$": m_trie_insert, r"Trie::get_ancestor$|radix_trie::trie::get_ancestor$": m_get_ancestor,
                 r"as TrieCommon>::value$": m_subtrie_value, r"Trie::get_raw_ancestor$|radix_trie::trie::get_raw_ancestor$": m_get_raw_ancestor,
                 r"^<Vec as Deref>::deref$": lambda eng, ctx, f, path, args, dty: MC.load(eng, ctx, args[0]),
                 r"^core::slice::(.*::)?get_unchecked$": m_get_unchecked,
                 r"^KeyName::as_str$|^Key::name$": lambda eng, ctx, f, path, args, dty: MS.sstr(tuple(nm)),
                 r"as Recorder>::describe_(counter|gauge|histogram)$": m_dyn_call("describe"), r"as Recorder>::register_(counter|gauge|histogram)$": m_dyn_call("register"),
                 r"Trie::new$|radix_trie::trie::new$": lambda *a: Native("trie", ()),
                 r"begin_panic$": lambda *a: sym.Diverge("panic", "cannot add route for unknown or empty metric kind mask")}
            m.update(models.BASE)
            eng = sym.Engine(P, models=m, loop_bound=4, max_paths=5000)
            eng.merging = False
            ctx0 = sym.Ctx(eng, 1)
            from_b = [b for b in P.by_last["from_recorder"] if b.impl and b.impl[1] == "RouterBuilder"][0]

            def script():
                rb0 = yield ("call", from_b, [Native("rec", 0)])
                yield ("setstatic", "rb", rb0)
                for r in range(len(pats)):
                    yield ("call", add_b, [Ptr(("static", "rb")), Agg({0: masks[r]}), MS.sstr(tuple(pats[r])), Native("rec", r + 1)])
                rb = yield ("getstatic", "rb")
                router_v = yield ("call", build_b, [rb])
                yield ("setstatic", "router", router_v)
                yield ("call", ops[kind], [Ptr(("static", "router")), Native("aname", 0), Opaque("unit"), Opaque("desc")])
                return None
            leaves = eng.run_script(1, "router", script, ctx0=ctx0)
            e3.absorb(eng)
            done = [l for l in leaves if l.status == "done"]
            other = z3.Or(*[l.taken() for l in leaves if l.status != "done"] or [z3.BoolVal(False)])
            kbit = {"Counter": 1, "Gauge": 2, "Histogram": 4}[kind]
            app = [z3.And((masks[r] & kbit) != 0, is_prefix(pats[r], nm)) for r in range(len(pats))]
            # reference: longest applicable prefix; an identical pattern added later replaces the earlier one for the kinds it covers
            # (two applicable patterns of one length are identical: both are prefixes of the name) -> longest first, later first
            order_ = sorted(range(len(pats)), key=lambda r: (-len(pats[r]), -r))
            want = z3.IntVal(0)
            for r in reversed(order_):
                want = z3.If(app[r], r + 1, want)
            bad = []
            for l in done:
                dl = [(e.guard, pl["rec"]) for lab, e, pl in l.obs if lab == "delivered"]
                n = z3.Sum(*[z3.If(g, 1, 0) for g, r in dl] + [z3.IntVal(0), z3.IntVal(0)])
                right = z3.And(*[z3.Implies(g, z3.IntVal(r) == want) for g, r in dl]) if dl else z3.BoolVal(True)
                bad.append(z3.And(l.taken(), z3.Not(z3.And(n == 1, right))))
            cname = f"c13_router_{kind.lower()}_p{''.join(str(x) for x in plens)}"
            bounds = (f"RouterBuilder: {len(plens)} add_route calls (masks among COUNTER/GAUGE/HISTOGRAM/ALL, patterns of {' / '.join(str(x) for x in plens)} characters, symbolic), build, describe_{kind.lower()} "
                      f"of a 3-character name; {len(done)} paths")
            specs = [dict(name=f"{cname}:witness", desc="completes", bounds=bounds, cons=base + [z3.Or(*[l.taken() for l in done] or [z3.BoolVal(False)])], expect_unsat=False),
                     dict(name=f"{cname}:returns", desc="panics or exceeds a loop bound", bounds=bounds, cons=base + [other], expect_unsat=True),
                     dict(name=f"{cname}:longest_applicable_route_wins", desc="the operation is not delivered to exactly one recorder: the target of the longest route for this kind that is a prefix of the name "
                          "(a later identical pattern replaces an earlier one), or the default", bounds=bounds, cons=base + [z3.Or(*bad or [z3.BoolVal(False)])], expect_unsat=True, on_model=on_model)]
            check.discharge_many(e3.res, specs, 120)


def stack_layers(e3):
    """Stack::new(Fanout[r1, r2]).push(PrefixLayer(p_in)).push(PrefixLayer(p_out)) built through the real constructors; then
    describe_<kind>(name); register_<kind>(key) twice (an equal key); an update through the second handle. Recorders r1, r2 are recording
    doubles. Oracle: every operation reaches each of r1, r2 exactly once, in order, with the name `p_in.p_out.name` ... see below."""
    import z3
    import _e3
    from mirsmt import sym, models, check, models_str as MS, models_coll as MC
    from mirsmt.sym import Ptr, Agg, Enum, Native, Fork, UNIT, bv, Opaque, TailCall, Script
    P = _e3.program(["metrics-util", "metrics"])
    fo = lambda n: [b for b in P.by_last[n] if b.impl and b.impl[1] == "Fanout" and b.impl[0] == "Recorder"][0]
    pf = lambda n: [b for b in P.by_last[n] if b.impl and b.impl[1] == "Prefix" and b.impl[0] == "Recorder"][0]
    fb_add = [b for b in P.by_last["add_recorder"] if b.impl and b.impl[1] == "FanoutBuilder"][0]
    fb_build = [b for b in P.by_last["build"] if b.impl and b.impl[1] == "FanoutBuilder"][0]
    pl_new = [b for b in P.by_last["new"] if b.impl and b.impl[1] == "PrefixLayer"][0]
    pl_layer = [b for b in P.by_last["layer"] if b.impl and b.impl[1] == "PrefixLayer"][0]
    for kind, upd in (("counter", "increment"), ("gauge", "set"), ("histogram", "record")):
        for plens in ((1, 2, 3), (2, 1, 5)):
            p_in = tuple(z3.BitVec(f"pin_{i}", 32) for i in range(plens[0]))
            p_out = tuple(z3.BitVec(f"pout_{i}", 32) for i in range(plens[1]))
            nm = tuple(z3.BitVec(f"name_{i}", 32) for i in range(plens[2]))
            val = z3.BitVec("value", 64)
            ascii_ = [z3.And(z3.UGE(c, bv(33, 32)), z3.ULE(c, bv(126, 32))) for c in p_in + p_out + nm]

            def kind_of(v):
                if isinstance(v, Native) and v.kind == "rec":
                    return "double"
                if isinstance(v, Agg) and any(isinstance(x, Native) and x.kind in ("sstr", "str") for x in v.f.values()):
                    return "Prefix"          # the layer that holds a prefix string
                if isinstance(v, Agg) and any(isinstance(x, Native) and x.kind == "lvec" for x in v.f.values()):
                    return "Fanout"          # the layer that holds a list of recorders
                raise sym.Unsupported(f"recorder value {v}")

            def m_recorder_call(eng, ctx, f, path, args, dty):
                """<R as Recorder>::op on a generic / dyn receiver: dispatched on the value (double, Prefix<_>, Fanout)"""
                op = path.rsplit("::", 1)[1].split("::<")[0]
                r = MC.load(eng, ctx, args[0])
                k = kind_of(r)
                if k == "double":
                    if op.startswith("describe"):
                        ctx.observe("delivered", rec=r.data, op=op, name=MS.as_items(eng, ctx, args[1]), unit=args[2], desc=args[3])
                        return UNIT
                    key = MC.load(eng, ctx, args[1])
                    ctx.observe("delivered", rec=r.data, op=op, name=key.data["name"], labels=key.data["labels"], meta=args[2])
                    n = ctx.statics.get("nhandles", 0)
                    ctx.statics["nhandles"] = n + 1
                    return Agg({0: Enum(1, {1: Agg({0: Native("ihandle", (r.data, n))})}, "Option")})
                body = (pf if k == "Prefix" else fo)(op)
                a0 = args[0]
                if not isinstance(a0, Ptr):
                    a0 = Ptr(("static", MC.new_cell(ctx, a0, "recv")))
                return TailCall(body, [a0] + list(args[1:]))

            def m_handle_call(eng, ctx, f, path, args, dty):
                """<dyn CounterFn/GaugeFn/HistogramFn>::op: a double's handle records the update, a Fanout* handle runs its real impl"""
                op = path.rsplit("::", 1)[1]
                h = MC.load(eng, ctx, args[0])
                if isinstance(h, Native) and h.kind == "ihandle":
                    ctx.observe("updated", rec=h.data[0], handle=h.data[1], op=op, value=args[1])
                    return UNIT
                tr = {"counter": "CounterFn", "gauge": "GaugeFn", "histogram": "HistogramFn"}[kind]
                cands = [b for b in P.by_last[op] if b.impl and b.impl[0] == tr and b.impl[1].startswith("Fanout")]
                if len(cands) != 1:
                    raise sym.Unsupported(f"handle call {path} on {h}")
                a0 = args[0]
                if not isinstance(a0, Ptr):        # the receiver reached us by value (Arc / Box are transparent in the model): give it a place
                    a0 = Ptr(("static", MC.new_cell(ctx, a0, "recv")))
                return TailCall(cands[0], [a0] + list(args[1:]))
            m = {r" as (\w+::)*Recorder>::(describe|register)_(counter|gauge|histogram)$": m_recorder_call,
                 r" as (\w+::)*(CounterFn|GaugeFn|HistogramFn)>::(increment|absolute|decrement|set|record|record_many)$": m_handle_call,
                 r"^Arc::new$|^Box::new$|^Box::leak$|into_boxed_str$|IntoF64>::into_f64$": models.m_identity,
                 r"^KeyName::as_str$": lambda eng, ctx, f, path, args, dty: MS.sstr(MS.as_items(eng, ctx, args[0])),
                 r"^<KeyName as From>::from$|^<KeyName as From<String>>::from$|^<KeyName as Clone>::clone$|^<&?(str|String) as Into>::into$|^<\w*Cow as Clone>::clone$|^<\w*Cow as From(<.*>)?>::from$|as AsRef>::as_ref$|as AsRef<str>>::as_ref$|^<\w*Cow as Deref>::deref$|^<\w*Cow as AsRef>::as_ref$":
                     lambda eng, ctx, f, path, args, dty: MC.load(eng, ctx, args[0]),
                 r"^Key::name$": lambda eng, ctx, f, path, args, dty: MS.sstr(MC.load(eng, ctx, args[0]).data["name"]),
                 r"^Key::labels$": lambda eng, ctx, f, path, args, dty: Native("labels", MC.load(eng, ctx, args[0]).data["labels"]),
                 r"^Key::from_parts$": lambda eng, ctx, f, path, args, dty: Native("akey", {"name": MS.as_items(eng, ctx, args[0]), "labels": MC.load(eng, ctx, args[1]).data if isinstance(MC.load(eng, ctx, args[1]), Native) else None}),
                 r"^<Key as Clone>::clone$": lambda eng, ctx, f, path, args, dty: MC.load(eng, ctx, args[0])}
            m.update(models.BASE)
            eng = sym.Engine(P, models=m, loop_bound=6, max_paths=3000)
            eng.merging = False
            ctx0 = sym.Ctx(eng, 1)
            key = Native("akey", {"name": nm, "labels": "L"})
            reg_pf = pf(f"register_{kind}")
            desc_pf = pf(f"describe_{kind}")
            hfind = lambda t, mth: [b for b in P.by_last[mth] if b.impl and b.impl[1] == t and b.impl[0] is None and b.crate == "metrics"][0]
            hcall = {"counter": hfind("Counter", "increment"), "gauge": hfind("Gauge", "set"), "histogram": hfind("Histogram", "record")}[kind]

            def script():
                fbv = Agg({0: MS.lvec(())})          # FanoutBuilder::default(): an empty recorder list
                fbv = yield ("call", fb_add, [fbv, Native("rec", 1)])
                fbv = yield ("call", fb_add, [fbv, Native("rec", 2)])
                fan = yield ("call", fb_build, [fbv])
                l_in = yield ("call", pl_new, [MS.sstr(p_in)])
                yield ("setstatic", "l_in", l_in)
                inner = yield ("call", pl_layer, [Ptr(("static", "l_in")), fan])
                l_out = yield ("call", pl_new, [MS.sstr(p_out)])
                yield ("setstatic", "l_out", l_out)
                outer = yield ("call", pl_layer, [Ptr(("static", "l_out")), inner])
                yield ("setstatic", "stack", outer)
                sp = Ptr(("static", "stack"))
                yield ("call", desc_pf, [sp, MS.sstr(nm), Opaque("unit"), Opaque("desc")])
                yield ("setstatic", "key", key)
                h1 = yield ("call", reg_pf, [sp, Ptr(("static", "key")), Opaque("metadata")])
                h2 = yield ("call", reg_pf, [sp, Ptr(("static", "key")), Opaque("metadata")])
                yield ("setstatic", "h2", h2)
                yield ("call", hcall, [Ptr(("static", "h2")), val])
                return None
            leaves = eng.run_script(1, "stack", script, ctx0=ctx0)
            e3.absorb(eng)
            done = [l for l in leaves if l.status == "done"]
            other = z3.Or(*[l.taken() for l in leaves if l.status != "done"] or [z3.BoolVal(False)])
            dot = (bv(46, 32),)
            want_name = p_in + dot + p_out + dot + nm
            bad = []
            for l in done:
                for r in (1, 2):
                    dl = [pl for lab, e, pl in l.obs if lab == "delivered" and pl["rec"] == r]
                    ops = [pl["op"] for pl in dl]
                    ok_ops = ops == [f"describe_{kind}", f"register_{kind}", f"register_{kind}"]
                    conds = [z3.BoolVal(ok_ops)]
                    for pl in dl:
                        conds.append(MS.text_eq(tuple(pl["name"]), want_name) if len(pl["name"]) == len(want_name) else z3.BoolVal(False))
                        if pl["op"].startswith("register"):
                            conds.append(z3.BoolVal(pl["labels"] == "L" and isinstance(pl["meta"], Opaque) and pl["meta"].what == "metadata"))
                        else:
                            conds.append(z3.BoolVal(isinstance(pl["unit"], Opaque) and pl["unit"].what == "unit" and isinstance(pl["desc"], Opaque) and pl["desc"].what == "desc"))
                    ups = [pl for lab, e, pl in l.obs if lab == "updated" and pl["rec"] == r]
                    # the update through the second handle reaches this recorder's *second* handle once, with the value
                    hs = sorted(pl2 for pl2 in {1}) and [pl for pl in ups]
                    conds.append(z3.BoolVal(len(ups) == 1))
                    if len(ups) == 1:
                        conds.append(z3.BoolVal(ups[0]["op"] == upd))
                        conds.append(ups[0]["value"] == val if z3.is_expr(ups[0]["value"]) else z3.BoolVal(False))
                        regs = [i for i, pl in enumerate([x for x in l.obs if x[0] in ("delivered",) and x[2]["rec"] == r and x[2]["op"].startswith("register")])]
                    bad.append(z3.And(l.taken(), z3.Not(z3.And(*conds))))
            cname = f"c13_stack_{kind}_p{plens[0]}{plens[1]}n{plens[2]}"
            bounds = (f"Stack: Fanout[r1, r2] <- PrefixLayer(p_in, {plens[0]} chars) <- PrefixLayer(p_out, {plens[1]} chars), built by the real constructors; describe_{kind}(name of {plens[2]} chars), register_{kind}(key) twice, "
                      f"{upd}(v) through the second handle; all characters printable ASCII and symbolic (so names that already begin with a prefix are included); {len(done)} paths")

            def on_model(ob, model, p_in=p_in, p_out=p_out, nm=nm, kind=kind):
                inputs = {"op": ["counter", "gauge", "histogram"].index(kind)}
                inputs.update(text_inputs(model, "pin", p_in)); inputs.update(text_inputs(model, "pout", p_out)); inputs.update(text_inputs(model, "name", nm))
                ob.sample = dict(inputs)
                replay_native(ob, "c13_stack", ob.name.split(":")[1], inputs)
            specs = [dict(name=f"{cname}:witness", desc="completes", bounds=bounds, cons=ascii_ + [z3.Or(*[l.taken() for l in done] or [z3.BoolVal(False)])], expect_unsat=False),
                     dict(name=f"{cname}:returns", desc="panics", bounds=bounds, cons=ascii_ + [other], expect_unsat=True),
                     dict(name=f"{cname}:composition_delivers_each_operation_once_with_both_prefixes", desc="an inner recorder does not receive exactly describe, register, register (each once, in order) with the name `p_in.p_out.name`, labels / metadata / "
                          "unit / description unchanged, or the update through the second handle does not reach it exactly once with the same value", bounds=bounds, cons=ascii_ + [z3.Or(*bad or [z3.BoolVal(False)])], expect_unsat=True, on_model=on_model)]
            check.discharge_many(e3.res, specs, 120)


def filter_layer(e3):
    """FilterLayer built through its real constructor and setters: from_patterns([p0]); case_insensitive(b); use_dfa(b); layer(r1);
    reconfigure (flags again, or add_pattern(p1)); layer(r2); then one operation through both filters. A filter must drop the operation
    exactly when the name contains one of the patterns that were configured when *that* filter was created (ASCII-case-insensitively
    if so configured at that time)."""
    import z3
    import _e3
    from mirsmt import sym, models, check, models_str as MS, models_coll as MC
    from mirsmt.sym import Ptr, Agg, Enum, Native, Fork, UNIT, bv, Opaque
    P = _e3.program(["metrics-util"])
    fl = lambda n: [b for b in P.by_last[n] if b.impl and b.impl[1] == "FilterLayer"][0]
    from_b, layer_b, ci_b, dfa_b, add_b = fl("from_patterns"), fl("layer"), fl("case_insensitive"), fl("use_dfa"), fl("add_pattern")
    ci0, ci1, dfa0, dfa1 = z3.Bool("ci_initial"), z3.Bool("ci_later"), z3.Bool("dfa_initial"), z3.Bool("dfa_later")

    def lower(c):
        return z3.If(z3.And(z3.UGE(c, bv(65, 32)), z3.ULE(c, bv(90, 32))), c + bv(32, 32), c)

    def contains(name, pat, ci):
        if len(pat) > len(name):
            return z3.BoolVal(False)
        alts = []
        for i in range(len(name) - len(pat) + 1):
            alts.append(z3.And(*[z3.If(ci, lower(x) == lower(y), x == y) for x, y in zip(name[i:i + len(pat)], pat)]))
        return z3.Or(*alts)
    shapes = [(1, 2), (2, 1)]
    for op in ("describe_counter", "describe_gauge", "describe_histogram", "register_counter", "register_gauge", "register_histogram"):
        for reconf in ("case_insensitive", "add_pattern", "case_only", "dfa_only"):
            if reconf in ("case_only", "dfa_only") and op not in ("describe_counter", "register_histogram", "register_gauge"):
                continue        # each setter on its own between the two layer() calls (a cache keyed on the others would hide behind them)
            for plens in (shapes if op in ("describe_counter", "register_histogram") and reconf in ("case_insensitive", "add_pattern") else shapes[:1]):
                op_b = [b for b in P.by_last[op] if b.impl and b.impl[1] == "Filter"][0]
                p0 = tuple(z3.BitVec(f"pat0_{i}", 32) for i in range(plens[0]))
                p1 = tuple(z3.BitVec(f"pat1_{i}", 32) for i in range(plens[1]))
                nm = tuple(z3.BitVec(f"name_{i}", 32) for i in range(3))
                ascii_ = [z3.And(z3.UGE(c, bv(33, 32)), z3.ULE(c, bv(126, 32))) for c in p0 + p1 + nm]

                def on_model(ob, model, p0=p0, p1=p1, nm=nm, op=op, reconf=reconf):
                    t = lambda b: int(z3.is_true(model.eval(b, model_completion=True)))
                    inputs = {"op": OPS.index(op), "reconf": {"case_insensitive": 0, "add_pattern": 1, "case_only": 2, "dfa_only": 3}[reconf], "ci0": t(ci0), "ci1": t(ci1), "dfa0": t(dfa0), "dfa1": t(dfa1)}
                    inputs.update(text_inputs(model, "pat0", p0)); inputs.update(text_inputs(model, "pat1", p1)); inputs.update(text_inputs(model, "name", nm))
                    ob.sample = dict(inputs)
                    replay_native(ob, "c13_filter", ob.name.split(":")[1], inputs)

                def m_build(eng, ctx, f, path, args, dty):
                    bld = MC.load(eng, ctx, args[0])
                    pats = MC.load(eng, ctx, args[1])
                    if not (isinstance(pats, Native) and pats.kind in ("lvec", "strvec")):
                        raise sym.Unsupported(f"AhoCorasickBuilder::build over {pats}")
                    return Enum(0, {0: Agg({0: Native("automaton", (tuple(MS.as_items(eng, ctx, x) for x in pats.data), bld.data[0]))})}, "Result")

                def m_is_match(eng, ctx, f, path, args, dty):
                    a = MC.load(eng, ctx, args[0])
                    pats, ci = a.data
                    hay = MS.as_items(eng, ctx, args[1])
                    return z3.Or(*[contains(hay, p, ci) for p in pats]) if pats else z3.BoolVal(False)

                def m_inner(eng, ctx, f, path, args, dty):
                    r = MC.load(eng, ctx, args[0])
                    ctx.observe("forwarded", rec=r.data)
                    return Opaque("handle")
                m = {r"^AhoCorasickBuilder::new$": lambda *a: Native("acbuilder", (z3.BoolVal(False), None)),
                     r"^AhoCorasickBuilder::ascii_case_insensitive$": lambda eng, ctx, f, path, args, dty: (eng.store_ptr(ctx, args[0], Native("acbuilder", (eng.as_bool(args[1]), MC.load(eng, ctx, args[0]).data[1]))), args[0])[1],
                     r"^AhoCorasickBuilder::kind$|^AhoCorasickBuilder::(match_kind|prefilter|start_kind|byte_classes|dense_depth)$": lambda eng, ctx, f, path, args, dty: args[0],
                     r"then_some$": lambda *a: Opaque("kind"), r"^AhoCorasickBuilder::build$": m_build, r"^AhoCorasick::is_match$": m_is_match,
                     r"^<AhoCorasick as Clone>::clone$": lambda eng, ctx, f, path, args, dty: MC.load(eng, ctx, args[0]),
                     r"^KeyName::as_str$|^Key::name$": lambda *a: MS.sstr(nm), r"as Recorder>::(describe|register)_(counter|gauge|histogram)$": m_inner,
                     r"(Counter|Gauge|Histogram)::noop$": lambda *a: Native("noop", None),
                     r"as AsRef(<.*>)?>::as_ref$": lambda eng, ctx, f, path, args, dty: MC.load(eng, ctx, args[0])}
                m.update(models.BASE)
                eng = sym.Engine(P, models=m, loop_bound=5, max_paths=3000)
                eng.merging = False
                ctx0 = sym.Ctx(eng, 1)

                def script():
                    layer = yield ("call", from_b, [MS.lvec((MS.sstr(p0),))])
                    yield ("setstatic", "fl", layer)
                    yield ("call", ci_b, [Ptr(("static", "fl")), ci0])
                    yield ("call", dfa_b, [Ptr(("static", "fl")), dfa0])
                    f1 = yield ("call", layer_b, [Ptr(("static", "fl")), Native("rec", 1)])
                    if reconf == "case_insensitive":
                        yield ("call", ci_b, [Ptr(("static", "fl")), ci1])
                        yield ("call", dfa_b, [Ptr(("static", "fl")), dfa1])
                    elif reconf == "case_only":
                        yield ("call", ci_b, [Ptr(("static", "fl")), ci1])
                    elif reconf == "dfa_only":
                        yield ("call", dfa_b, [Ptr(("static", "fl")), dfa1])
                    else:
                        yield ("call", add_b, [Ptr(("static", "fl")), MS.sstr(p1)])
                    f2 = yield ("call", layer_b, [Ptr(("static", "fl")), Native("rec", 2)])
                    yield ("setstatic", "f1", f1)
                    yield ("setstatic", "f2", f2)
                    args = [Native("aname", 0), Opaque("unit"), Opaque("desc")] if op.startswith("describe") else [Native("akey", 0), Opaque("metadata")]
                    r1 = yield ("call", op_b, [Ptr(("static", "f1"))] + args)
                    r2 = yield ("call", op_b, [Ptr(("static", "f2"))] + args)
                    return Agg({0: r1, 1: r2})
                leaves = eng.run_script(1, "filter", script, ctx0=ctx0)
                e3.absorb(eng)
                done = [l for l in leaves if l.status == "done"]
                other = z3.Or(*[l.taken() for l in leaves if l.status != "done"] or [z3.BoolVal(False)])
                want1 = z3.Not(contains(nm, p0, ci0))
                if reconf in ("case_insensitive", "case_only"):
                    want2 = z3.Not(contains(nm, p0, ci1))
                elif reconf == "dfa_only":
                    want2 = z3.Not(contains(nm, p0, ci0))
                else:
                    want2 = z3.Not(z3.Or(contains(nm, p0, ci0), contains(nm, p1, ci0)))
                bad = []
                for l in done:
                    fw = {1: z3.BoolVal(False), 2: z3.BoolVal(False)}
                    cnt = {1: z3.IntVal(0), 2: z3.IntVal(0)}
                    for lab, e, pl in l.obs:
                        if lab == "forwarded":
                            fw[pl["rec"]] = z3.Or(fw[pl["rec"]], e.guard)
                            cnt[pl["rec"]] = cnt[pl["rec"]] + z3.If(e.guard, 1, 0)
                    inert = z3.BoolVal(True)
                    if op.startswith("register"):
                        # a dropped registration hands out an inert handle, a forwarded one the inner recorder's handle
                        for i, want in ((0, want1), (1, want2)):
                            r = l.ret.f[i]
                            is_noop = isinstance(r, Native) and r.kind == "noop"
                            inert = z3.And(inert, z3.BoolVal(is_noop) == z3.Not(want))
                    bad.append(z3.And(l.taken(), z3.Not(z3.And(fw[1] == want1, fw[2] == want2, cnt[1] <= 1, cnt[2] <= 1, inert))))
                cname = f"c13_filter_{op}_{reconf}_p{plens[0]}{plens[1]}"
                bounds = (f"FilterLayer::from_patterns([p0]); case_insensitive(b0); use_dfa(d0); layer(r1); { {'case_insensitive': 'case_insensitive(b1); use_dfa(d1)', 'case_only': 'case_insensitive(b1)', 'dfa_only': 'use_dfa(d1)', 'add_pattern': 'add_pattern(p1)'}[reconf] }; layer(r2); then {op} "
                          f"through both filters; patterns of {plens[0]} and {plens[1]} printable ASCII characters, name of 3 printable ASCII characters, flags: all symbolic; {len(done)} paths")
                specs = [dict(name=f"{cname}:witness", desc="completes", bounds=bounds, cons=ascii_ + [z3.Or(*[l.taken() for l in done] or [z3.BoolVal(False)])], expect_unsat=False),
                         dict(name=f"{cname}:returns", desc="panics", bounds=bounds, cons=ascii_ + [other], expect_unsat=True),
                         dict(name=f"{cname}:dropped_iff_current_configuration_matches", desc="an operation is forwarded although its name contains a pattern configured when the filter was created (case-insensitively if so configured then), "
                              "dropped although it does not, forwarded twice, or a dropped registration does not return an inert handle", bounds=bounds, cons=ascii_ + [z3.Or(*bad or [z3.BoolVal(False)])], expect_unsat=True, on_model=on_model)]
                check.discharge_many(e3.res, specs, 120)


def run(tier, seed, t0):
    import _e3
    from mirsmt import sym
    e3 = _e3.E3("C13")
    for nm_, fn in (("c13_router", router), ("c13_filter", filter_layer), ("c13_stack", stack_layers)):
        try:
            fn(e3)
        except _e3.ENC_ERRORS as ex:
            e3.error(nm_, "MIR->SMT encoding of the router layer", ex)
    obs = list(e3.res.obligations)
    obs += kani.run_group("util", HARNESSES, tier, hooks=True)
    finish("C13", tier, seed, obs, t0, ASSUME + ASSUME_E3 + ["E3 callee models: " + ", ".join(sorted(e3.models))], FUNCS + sorted(e3.functions),
           explanation="Kani harnesses over the prefix layer, fanout and Stack with recording recorder doubles + MIR->SMT encoding of the router")


def replay(path):
    if path.endswith(".plan"):
        import replay_e3
        status, out = replay_e3.run("c13", path)
        print(status, out)
        return 1 if status == "reproduced" else 0
    return _kprop.replay(path)

"""C09 DogStatsD payloads are valid, within the size limit, and account for every point."""
import z3
from common import *
import _e3
from mirsmt import sym, models, models_bytes, check
from mirsmt.sym import Ptr, Agg, Enum, Native, Fork, UNIT, bv, Opaque

ASSUME = ["byte buffers are modelled length-abstractly: a Vec<u8> is a list of opaque segments with symbolic 64-bit lengths (names, prefixes, tag keys/values, formatted numbers of any length); truncation, range indexing and the header patch are decided against segment boundaries by the solver",
          "itoa / ryu produce opaque strings of 1..20 / 3..24 bytes (their documented output lengths); digits are not modelled (round-trip precision is their contract)",
          "bounds: histories of <= 3 writer calls with an optional drain (flush cycle) between them; <= 1 global label and <= 1 own label; histogram value lists of <= 3 values",
          "max_payload_len < 2^32 (enforced by PayloadWriter::new)"]


def mk_engine(P):
    m = dict(models_bytes.BYTES_MODELS)
    m.update(models.BASE)
    eng = sym.Engine(P, models=m, loop_bound=6, max_paths=4000)
    eng.drop_impls = False
    eng.merging = False      # keep buffer structures concrete per path (merged offsets would be ite terms)
    eng.int_mode = True      # lengths and offsets as mathematical integers (exact: dev-profile MIR checks every +,-)
    eng.native_eq["mkey"] = _key_eq          # two writes name the same metric iff they were given the same key
    eng.models[r"^<Key as Clone>::clone$"] = lambda eng_, ctx, f, path, args, dty: eng_.load_ptr(ctx, args[0]) if isinstance(args[0], Ptr) else args[0]
    return eng


class Hist:
    """one symbolic history on one writer; collects what was asked and what came out"""
    pass


def _key_eq(eng, ctx, a, b):
    return z3.BoolVal(isinstance(a, Native) and isinstance(b, Native) and a.kind == b.kind == "mkey" and a.data["id"] == b.data["id"])


def mk_key(eng, idx, nlabels):
    labels = []
    for j in range(nlabels):
        labels.append(Native("label", (f"k{idx}_{j}", models_bytes.fresh_len(eng, 0, 1 << 20, f"k{idx}l{j}k"), models_bytes.fresh_len(eng, 0, 1 << 20, f"k{idx}l{j}v"))))
    return Native("mkey", {"id": idx, "name_len": models_bytes.fresh_len(eng, 0, 1 << 20, f"name{idx}"), "labels": labels})


def expected_payload(view, lp, has_prefix, oi, op, keys, gl):
    """Exact check of one yielded payload (list of (label, length) segments) against the message the property prescribes for write
    operation `oi`: `[prefix.]name(:value)+|type[|@rate][|#global tags,own tags][|T timestamp]\\n`, the values being values of this
    operation in their order (a value that cannot fit any payload by itself is skipped by the writer and reported as dropped, so the
    indices increase but need not be adjacent). Returns (ok, body segments, (index of the first value carried, index after the last),
    number of values, name length term)."""
    kind, ki, nv, with_ts, with_rate = op
    segs = list(view)
    if lp:
        if not segs or not (segs[0][0] == "le32" or segs[0][0].startswith("array")):
            return False, segs, 0, 0, None
        segs = segs[1:]
    labs = [s_[0] for s_ in segs]
    i = 0
    if has_prefix:
        if labs[i:i + 2] != ["str:prefix", "byte:."]:
            return False, segs, 0, 0, None
        i += 2
    if i >= len(labs) or labs[i] != "str:name":
        return False, segs, 0, 0, None
    name_len = segs[i][1]
    i += 1
    scalar = kind in ("counter", "gauge")
    first, last, n = None, None, 0
    while i + 1 < len(labs) and labs[i] == "byte::":
        lab = labs[i + 1]
        if scalar:
            if lab not in (f"str:itoa(v{oi})", f"str:ryu(v{oi})") or n:
                return False, segs, 0, 0, None
            j = 0
        else:
            j = None
            for cand in range(nv):
                if lab == f"str:ryu(v{oi}_{cand})":
                    j = cand
            if j is None or (last is not None and j <= last):
                return False, segs, 0, 0, None
        if first is None:
            first = j
        last = j
        n += 1
        i += 2
    if n < 1:
        return False, segs, 0, 0, None
    tchar = {"counter": "c", "gauge": "g", "hist": "h", "dist": "d"}[kind]
    if labs[i:i + 1] == ["str:|" + tchar]:
        i += 1
    elif labs[i:i + 2] == ["byte:|", "byte:" + tchar] or labs[i:i + 2] == ["byte:|", "byte:?"]:
        i += 2
    else:
        return False, segs, 0, 0, None
    rest = labs[i:]
    j = 0

    def eat(seq):
        nonlocal j
        if rest[j:j + len(seq)] == seq:
            j += len(seq)
            return True
        return False
    if with_rate and not scalar and not eat(["str:|@", f"str:ryu(rate{oi})"]):
        return False, segs, 0, 0, None
    bare = []        # value lengths of tags written bare (`name` without `:value`): allowed only for an empty value
    all_labels = list(gl.data) + list(keys[ki].data["labels"])
    for n_, l_ in enumerate(all_labels):
        if not eat(["str:|#"] if n_ == 0 else ["byte:,"]):
            return False, segs, 0, 0, None
        if not eat([f"str:label{l_.data[0]}.k"]):
            return False, segs, 0, 0, None
        if not eat(["byte::", f"str:label{l_.data[0]}.v"]):
            bare.append(l_.data[2])
    if with_ts and scalar and not eat(["str:|T", f"str:itoa(ts{oi})"]):
        return False, segs, 0, 0, None
    if not eat(["byte:\\n"]) or j != len(rest):
        return False, segs, 0, 0, None
    return True, segs, (first, last + 1), n, (name_len, bare)


def writer_history(e3, name, ops, lp_sym=True):
    """ops: list of ('counter'|'gauge'|'hist'|'dist', keyidx, nvals, with_ts, with_rate) | ('drain',)"""
    P = _e3.program(["metrics-exporter-dogstatsd"])
    eng = mk_engine(P)
    W = {n: P.find("PayloadWriter", n) for n in ("new", "write_counter", "write_gauge", "write_histogram", "write_distribution", "payloads")}
    nextp = P.find("Payloads", "next_payload")
    dropp = P.find("Payloads", "drop", trait="Drop")
    maxlen = z3.Int("max_payload_len")
    lp = z3.Bool("with_length_prefix")
    has_prefix = z3.Bool("has_prefix")
    prefix_len = models_bytes.fresh_len(eng, 0, 1 << 20, "prefix")
    keys = {0: mk_key(eng, 0, 0), 1: mk_key(eng, 1, 1)}
    gl = Native("labels", [Native("label", ("g0", models_bytes.fresh_len(eng, 0, 1 << 20, "glk"), models_bytes.fresh_len(eng, 0, 1 << 20, "glv")))])
    eng.len_bounds.append(z3.And(maxlen >= 0, maxlen < (1 << 32)))
    eng.solver.add(z3.And(maxlen >= 0, maxlen < (1 << 32)))
    results = []

    def script():
        w = yield ("call", W["new"], [maxlen, lp])
        yield ("setstatic", "w", w)
        wp = Ptr(("static", "w"))
        out = []
        for oi, op in enumerate(ops):
            if op[0] == "drain":
                p = yield ("call", W["payloads"], [wp])
                yield ("setstatic", f"p{oi}", p)
                views = []
                for _ in range(6):
                    r = yield ("call", nextp, [Ptr(("static", f"p{oi}"))])
                    if isinstance(r, Enum) and r.discr == 0:
                        break
                    views.append(r.v[1].f[0].data)
                yield ("call", dropp, [Ptr(("static", f"p{oi}"))])
                out.append(("drain", views))
                continue
            kind, ki, nv, with_ts, with_rate = op
            yield ("setstatic", f"key{oi}", keys[ki])
            prefix = Enum(z3.If(has_prefix, bv(1), bv(0)), {1: Agg({0: Native("str", ("prefix", prefix_len))})}, "Option")
            ts = Enum(1, {1: Agg({0: Native("u64", f"ts{oi}")})}, "Option") if with_ts else Enum(0, {}, "Option")
            kp = Ptr(("static", f"key{oi}"))
            if kind in ("counter", "gauge"):
                r = yield ("call", W["write_" + kind], [wp, kp, Native("num", f"v{oi}"), ts, prefix, gl])
            else:
                rate = Enum(1, {1: Agg({0: Native("f64", f"rate{oi}")})}, "Option") if with_rate else Enum(0, {}, "Option")
                vals = Native("f64iter", [Native("f64", f"v{oi}_{j}") for j in range(nv)])
                r = yield ("call", W["write_histogram" if kind == "hist" else "write_distribution"], [wp, kp, vals, rate, prefix, gl])
            out.append(("write", oi, r))
        return out
    leaves = eng.run_script(1, name, script)
    e3.absorb(eng)
    return eng, leaves, dict(maxlen=maxlen, lp=lp, has_prefix=has_prefix, prefix_len=prefix_len, keys=keys, gl=gl)


def analyse(e3, name, ops, desc):
    eng, leaves, V = writer_history(e3, name, ops)
    base = list(eng.len_bounds)
    done = [l for l in leaves if l.status == "done"]
    panics = [l for l in leaves if l.status == "panic"]
    other = [l for l in leaves if l.status not in ("done", "panic")]
    bad_obs, too_long, bad_hdr, bad_struct, miscount, wrong_name, bad_order = [], [], [], [], [], [], []
    for l in leaves:
        for lab, e, pay in l.obs:
            if lab in ("truncate_inside_a_segment", "header_patched_over_payload_bytes", "header_patched_off_a_segment_boundary", "payload_range_off_segment_boundaries"):
                bad_obs.append(z3.And(l.taken(), e.guard))
    lpv = V["lp"]
    for l in done:
        # the branch conditions fix `lp` / `has_prefix` per leaf or leave them free: evaluate structure for both where free
        for lp_c in (True, False):
            for hp_c in (True, False):
                cond = z3.And(l.taken(), lpv == lp_c, V["has_prefix"] == hp_c)
                if not eng.feasible([cond] + base):
                    continue
                pending = {}     # op index -> (kind, values asked)
                npay_reported = {}
                next_value = {}
                for item in l.ret:
                    if item[0] == "write":
                        _, oi, r = item
                        kind = ops[oi][0]
                        pending[oi] = kind
                        npay_reported[oi] = (r.f[0], r.f[1])
                    else:
                        views = item[1]
                        carried = 0
                        for v in views:
                            ok = False
                            nvals = 0
                            for oi, kind in pending.items():
                                o2, segs, first, nv2, nlen = expected_payload(v, lp_c, hp_c, oi, ops[oi], V["keys"], V["gl"])
                                if o2:
                                    ok, nvals, body = True, nv2, segs
                                    nlen, bare = nlen
                                    wrong_name.append(z3.And(cond, nlen != V["keys"][ops[oi][1]].data["name_len"]))
                                    for vl in bare:
                                        bad_struct.append(z3.And(cond, vl != 0))
                                    if first[0] < next_value.get(oi, 0):      # in order, none twice (a value may be missing: reported as dropped)
                                        bad_order.append(cond)
                                    next_value[oi] = first[1]
                                    break
                            if not ok:
                                bad_struct.append(cond)
                                continue
                            blen = models_bytes.total(body)
                            too_long.append(z3.And(cond, blen > V["maxlen"]))
                            if lp_c:
                                h = v[0]
                                if h[0] == "le32" and len(h) > 2:
                                    bad_hdr.append(z3.And(cond, h[2] != blen))
                                else:
                                    bad_hdr.append(cond)
                            carried += nvals
                        # accounting: payloads reported written == payloads yielded; points = carried + dropped
                        tot_written = z3.IntVal(0)
                        tot_dropped = z3.IntVal(0)
                        tot_points = 0
                        for oi, kind in pending.items():
                            tot_written = tot_written + npay_reported[oi][0]
                            tot_dropped = tot_dropped + npay_reported[oi][1]
                            tot_points += 1 if kind in ("counter", "gauge") else ops[oi][2]
                        miscount.append(z3.And(cond, z3.Or(tot_written != len(views), tot_dropped + carried != tot_points)))
                        pending = {}
                        npay_reported = {}
    orr = lambda xs: z3.Or(*xs) if xs else z3.BoolVal(False)

    def mk_on_model(pname):
        def on_model(ob, model):
            import replay_e3
            ev = lambda t: model.eval(t, model_completion=True)
            vals = {"max": ev(V["maxlen"]).as_long(), "lp": int(z3.is_true(ev(V["lp"]))), "hasprefix": int(z3.is_true(ev(V["has_prefix"]))),
                    "plen": ev(V["prefix_len"]).as_long(), "name0": ev(V["keys"][0].data["name_len"]).as_long(), "name1": ev(V["keys"][1].data["name_len"]).as_long(),
                    "k1l0k": ev(V["keys"][1].data["labels"][0].data[1]).as_long(), "k1l0v": ev(V["keys"][1].data["labels"][0].data[2]).as_long(),
                    "glk": ev(V["gl"].data[0].data[1]).as_long(), "glv": ev(V["gl"].data[0].data[2]).as_long()}
            for key, nat in eng.fmt_cache.items():
                vals[key[2]] = ev(nat.data[1]).as_long()
            ob.sample = {"history": name, "violated": pname, "lengths": vals}
            os.makedirs(os.path.join(REPLAYS, "C09"), exist_ok=True)
            pp = os.path.join(REPLAYS, "C09", f"{name}.{pname}.plan")
            role = " ".join("drain" if o[0] == "drain" else f"{o[0]}:{o[1]}:{o[2]}:{int(o[3])}:{int(o[4])}" for o in ops)
            open(pp, "w").write(replay_e3.plan_text(name, pname, {1: role}, [], vals))
            status, out = replay_e3.run("c09", pp)
            ob.detail += f" | native replay (c09): {status}"
            ob.sample["native_replay"] = {"status": status, "output": out[-400:]}
            ob.replay = pp
            ob.reproduced = status == "reproduced"
            if not ob.reproduced:
                ob.status = "error"
        return on_model
    bounds = f"history {ops}; symbolic max_payload_len < 2^32, framing on/off, prefix present/absent with any length, names / tags / formatted values of any length"
    specs = [
        dict(name=f"{name}:witness", desc="some configuration yields at least one payload", bounds=bounds, cons=base + [orr([l.taken() for l in done])], expect_unsat=False),
        dict(name=f"{name}:never_panics", desc=desc + ": serialisation panics (failed assert!, arithmetic overflow, slice index)", bounds=bounds, cons=base + [orr([l.taken() for l in panics])], expect_unsat=True),
        dict(name=f"{name}:bounds", desc="loop bound exceeded", bounds=bounds, cons=base + [orr([l.taken() for l in other if l.status == 'unwound'])], expect_unsat=True),
        dict(name=f"{name}:buffer_edits_on_boundaries", desc="a truncation cuts into a payload, or the length header is patched over payload bytes / off a boundary", bounds=bounds, cons=base + [orr(bad_obs)], expect_unsat=True),
        dict(name=f"{name}:payload_within_max_len", desc="a yielded payload body is longer than max_payload_len", bounds=bounds, cons=base + [orr(too_long)], expect_unsat=True),
        dict(name=f"{name}:length_prefix_is_exact", desc="in length-prefixed mode a payload is not preceded by its exact body length", bounds=bounds, cons=base + [orr(bad_hdr)], expect_unsat=True),
        dict(name=f"{name}:payload_is_one_complete_message", desc="a yielded payload is not `[prefix.]name(:value)+|type[|@rate][|#global tags,own tags][|T timestamp]\\n` of one write operation, with that operation's own sample rate, "
             "timestamp and tags (global labels first) and a run of its values", bounds=bounds, cons=base + [orr(bad_struct)], expect_unsat=True),
        dict(name=f"{name}:name_and_value_order", desc="a payload carries another metric's name, or an operation's values are not delivered in order, each once", bounds=bounds, cons=base + [orr(wrong_name + bad_order)], expect_unsat=True),
        dict(name=f"{name}:every_point_written_or_dropped", desc="reported payload/drop counts do not match what was yielded", bounds=bounds, cons=base + [orr(miscount)], expect_unsat=True),
    ]
    for sp in specs:
        if sp.get("expect_unsat", True) and not sp["name"].endswith(":bounds"):
            sp["on_model"] = mk_on_model(sp["name"].split(":")[1])
    out = check.discharge_many(e3.res, specs, 180)
    out[0][0].functions = sorted(eng.functions_executed)
    return out


HIST_QUICK = [
    ("c09_counter_counter_drain", [("counter", 1, 1, True, False), ("gauge", 0, 1, False, False), ("drain",)], "two scalar metrics then a flush"),
    ("c09_drain_counter_drain", [("counter", 0, 1, False, False), ("drain",), ("counter", 1, 1, True, False), ("drain",)], "a second flush cycle on the same writer"),
    ("c09_hist2_drain", [("hist", 1, 2, False, True), ("drain",)], "a histogram with two values (may split across payloads)"),
    ("c09_hist_hist_same_key", [("hist", 1, 1, False, True), ("hist", 1, 1, False, False), ("drain",)], "the same histogram key written twice with and without a sample rate"),
    ("c09_dist_drain_dist_same_key", [("dist", 0, 1, False, False), ("drain",), ("dist", 0, 1, False, True), ("drain",)], "the same distribution key in two flush cycles, the second with a sample rate"),
]
HIST_THOROUGH = [
    ("c09_dist3_counter_drain", [("dist", 0, 3, False, False), ("counter", 0, 1, False, False), ("drain",)], "a distribution with three values followed by a counter"),
    ("c09_three_scalars_drain", [("gauge", 1, 1, True, False), ("counter", 0, 1, False, False), ("counter", 1, 1, False, False), ("drain",)], "three scalar metrics"),
]


def run(tier, seed, t0):
    e3 = _e3.E3("C09")
    for nm, ops, desc in HIST_QUICK + (HIST_THOROUGH if tier == "thorough" else []):
        try:
            analyse(e3, nm, ops, desc)
        except _e3.ENC_ERRORS as ex:
            e3.error(nm, "MIR->SMT encoding of PayloadWriter", ex)
    finish("C09", tier, seed, list(e3.res.obligations), t0, ASSUME + ["E3 callee models: " + ", ".join(sorted(e3.models))], sorted(e3.functions),
           explanation="MIR->SMT sequential encoding of PayloadWriter::{new,write_*,commit,payloads} and Payloads::{next_payload,drop} over length-abstract byte buffers")


def replay(path):
    import replay_e3
    status, out = replay_e3.run("c09", path)
    print(status, out)
    return 1 if status == "reproduced" else 0

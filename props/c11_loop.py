"""C11, the transport thread's event loop: run_transport executed from its entry over a bounded sequence of poll() results.

What is symbolic: what each socket write accepts (everything / a prefix / WouldBlock / closed), frame lengths.
What is concrete per scenario: the sequence of poll results (listener readable with n pending connections, waker with a list of
channel messages, a client socket writable), the buffer configuration.
Models (trusted, from the mio / crossbeam-channel / prost documentation): Poll::poll fills `events` with the scenario's next batch;
Receiver::try_recv yields the queued messages in order, then Empty; TcpListener::accept yields the pending connections, then
WouldBlock; Registry::register succeeds; prost encoding produces one frame per message (the frame's identity carries the message
content, its length is symbolic); tracing is disabled.
Oracle, per client: the bytes its socket accepted are a concatenation of whole frames (the last one possibly in progress with its
remainder parked), the frames are, in order, a subsequence of [metadata known when it connected (latest unit/description per
name), then the metrics received afterwards]; a client whose socket accepted everything offered got *all* of them; frames are only
discarded whole, and only when the client's queue would exceed the buffer. Book-keeping: after every batch, client_count equals the
number of connected clients and should_send is true iff there is one."""
import re
import z3
from common import *
import _e3
from mirsmt import sym, models, check, models_str as MS, models_coll as MC
from mirsmt.sym import Ptr, Agg, Enum, Native, Fork, Diverge, UNIT, bv, Opaque, Script, TailCall

TRACING = [r"tracing", r"__CALLSITE", r"LevelFilter", r"DefaultCallsite", r"Interest::is_never", r"Interest::never", r"ValueSet", r"FieldSet", r"tracing::Metadata", r"Event::dispatch", r"__macro_support", r"fmt::Arguments", r"core::fmt",
           r"^Arguments::", r"^debug$", r"^display$", r"tracing-0\.1", r"^Span::", r"Argument::"]
KINDS = ["WouldBlock", "Interrupted", "Other"]
LMAX = 1 << 16
WAKER, LISTENER, START = 0, 1, 2


class Loop:
    def __init__(self, name, buffer_size, batches, sockets, desc):
        """batches: list of event lists; event: ('listener', n) | ('waker', [msg...]) | ('client', index)
        msg: ('meta', name_id, type_id, unit_id or None, desc_id) | ('metric', key_id, op_id)
        sockets: per client index: 'fast' (accepts everything) | 'sym' (solver chooses: everything / a prefix / WouldBlock / closed, at most `budget` non-full outcomes)"""
        self.name, self.buffer_size, self.batches, self.sockets, self.desc = name, buffer_size, batches, sockets, desc


def run_loop(e3, sc, budget=2):
    P = _e3.program(["metrics-exporter-tcp"])
    P.enums.setdefault("ErrorKind", KINDS)
    frames = []          # frame id -> content tuple
    flen = []            # frame id -> symbolic length
    base = []
    nclient = [0]
    accepted_log = []    # (client, batch index, metadata snapshot at that time)
    recv_log = []        # (batch index, msg)

    def new_frame(content):
        fid = len(frames)
        frames.append(content)
        l = z3.BitVec(f"len_f{fid}", 64)
        flen.append(l)
        base.append(z3.And(z3.UGE(l, bv(1)), z3.ULE(l, bv(LMAX))))
        return Native("bytes", [bv(fid), bv(0), l])

    def ld(eng, ctx, v):
        while isinstance(v, Ptr):
            v = eng.load_ptr(ctx, v)
        return v
    cur_batch = [0]
    nwrite = [0]

    # ---- mio
    def m_poll(eng, ctx, f, path, args, dty):
        k = ctx.statics.get("batch", 0)
        # book-keeping observation at the end of every batch (= at the next poll)
        st = ctx.statics["state"]
        cl = ld(eng, ctx, ctx.statics.get("clients_ptr")) if ctx.statics.get("clients_ptr") is not None else None
        ctx.observe("batch_end", k=k, count=st.f[0], should_send=st.f[1], nclients=(len(cl.data) if cl is not None and isinstance(cl, Native) and cl.kind == "kmap" else None))
        if k >= len(sc.batches):
            return Diverge("cut", "end of the bounded run")
        ctx.statics["batch"] = k + 1
        evs = []
        for ev in sc.batches[k]:
            if ev[0] == "listener":
                evs.append(Native("event", ("listener", ev[1])))
            elif ev[0] == "waker":
                evs.append(Native("event", ("waker", tuple(ev[1]))))
            else:
                evs.append(Native("event", ("client", ev[1])))
        eng.store_ptr(ctx, args[1], Native("events", tuple(evs)))
        ctx.statics["cur_batch"] = k
        return Enum(0, {0: Agg({0: UNIT})}, "Result")

    def m_events_iter(eng, ctx, f, path, args, dty):
        evs = ld(eng, ctx, args[0])
        return Native("liter", (tuple(Ptr(("static", MC.new_cell(ctx, e, "event"))) for e in evs.data), 0))

    def m_token(eng, ctx, f, path, args, dty):
        ev = ld(eng, ctx, args[0])
        kind, x = ev.data
        if kind == "waker":
            ctx.statics["rxq"] = tuple(x)
            return Agg({0: bv(WAKER)})
        if kind == "listener":
            ctx.statics["pending_accepts"] = x
            return Agg({0: bv(LISTENER)})
        return Agg({0: bv(START + x)})

    def m_accept(eng, ctx, f, path, args, dty):
        n = ctx.statics.get("pending_accepts", 0)
        if n <= 0:
            return Enum(1, {1: Agg({0: Native("ioerr", bv(0))})}, "Result")
        ctx.statics["pending_accepts"] = n - 1
        k = ctx.statics.get("nclients", 0)
        ctx.statics["nclients"] = k + 1
        ctx.observe("accept", client=k, batch=ctx.statics.get("cur_batch", 0), known=tuple(sorted(ctx.statics.get("ref_meta", {}).items())))
        return Enum(0, {0: Agg({0: Agg({0: Native("conn", k), 1: Opaque("peer")})})}, "Result")

    # ---- channel
    def m_try_recv(eng, ctx, f, path, args, dty):
        q = ctx.statics.get("rxq", ())
        if not q:
            return Enum(1, {1: Agg({0: Enum(0, {}, "TryRecvError")})}, "Result")
        msg = q[0]
        ctx.statics["rxq"] = tuple(q[1:])
        b = ctx.statics.get("cur_batch", 0)
        if msg[0] == "meta":
            _, nid, ty, unit, desc = msg
            rm = dict(ctx.statics.get("ref_meta", {}))
            rm[nid] = (ty if nid not in rm else rm[nid][0], unit, desc)
            ctx.statics["ref_meta"] = rm
            ev = Enum(0, {0: Agg({0: Native("aname", nid), 1: Enum(ty, {}, "MetricType"), 2: (Enum(1, {1: Agg({0: Native("unit", unit)})}, "Option") if unit is not None else Enum(0, {}, "Option")), 3: Native("adesc", desc)})}, "Event")
        else:
            _, kid, op = msg
            ctx.observe("metric_received", batch=b, key=kid, op=op, seq=ctx.statics.get("nmetrics", 0))
            ctx.statics["nmetrics"] = ctx.statics.get("nmetrics", 0) + 1
            ev = Enum(1, {1: Agg({0: Native("akey", kid), 1: Native("op", op)})}, "Event")
        return Enum(0, {0: Agg({0: ev})}, "Result")

    # ---- encoding
    def m_conv_meta(eng, ctx, f, path, args, dty):
        name = ld(eng, ctx, args[0])
        ty = args[1]
        unit = args[2]
        desc = args[3]
        u = None
        if isinstance(unit, Enum) and isinstance(unit.discr, int) and unit.discr == 1:
            u = ld(eng, ctx, unit.v[1].f[0]).data
        d = None
        if isinstance(desc, Enum) and isinstance(desc.discr, int) and desc.discr == 1:
            d = ld(eng, ctx, desc.v[1].f[0]).data
        return Enum(0, {0: Agg({0: new_frame(("meta", name.data, ty.discr if isinstance(ty, Enum) else ty, u, d))})}, "Result")

    def m_conv_metric(eng, ctx, f, path, args, dty):
        key, op = ld(eng, ctx, args[0]), ld(eng, ctx, args[1])
        n = ctx.statics.get("nencoded", 0)
        ctx.statics["nencoded"] = n + 1
        return Enum(0, {0: Agg({0: new_frame(("metric", key.data, op.data, n))})}, "Result")

    # ---- sockets
    def m_write(eng, ctx, f, path, args, dty):
        conn = ld(eng, ctx, args[0])
        buf = ld(eng, ctx, args[1])
        fid, lo, hi = buf.data
        c = conn.data
        nwrite[0] += 1
        k = nwrite[0]

        def full(cx):
            cx.observe("sent", client=c, frame=fid, lo=lo, hi=hi)
            return Enum(0, {0: Agg({0: hi - lo})}, "Result")
        mode = sc.sockets.get(c, "fast")
        if mode == "fast":
            return full(ctx)
        used = ctx.statics.get(f"budget{c}", 0)
        if used >= budget:
            return full(ctx)
        n = z3.BitVec(f"accepted_w{k}", 64)
        what = z3.BitVec(f"outcome_w{k}", 8)

        def partial(cx):
            cx.statics[f"budget{c}"] = used + 1
            cx.pc.append(z3.And(z3.UGT(n, bv(0)), z3.ULT(n, hi - lo)))
            cx.observe("sent", client=c, frame=fid, lo=lo, hi=lo + n)
            return Enum(0, {0: Agg({0: n})}, "Result")

        def block(cx):
            cx.statics[f"budget{c}"] = used + 1
            return Enum(1, {1: Agg({0: Native("ioerr", bv(0))})}, "Result")

        def closed(cx):
            cx.statics[f"budget{c}"] = used + 1
            cx.observe("closed", client=c)
            return Enum(0, {0: Agg({0: bv(0)})}, "Result")
        alts = [(what == 0, full), (what == 1, partial), (what == 2, block)]
        if mode == "sym+close":
            alts.append((what == 3, closed))
        return Fork(alts)

    def m_kind(eng, ctx, f, path, args, dty):
        e = ld(eng, ctx, args[0])
        return Enum(e.data, {}, "ErrorKind")

    def m_kind_eq(eng, ctx, f, path, args, dty):
        a, b_ = ld(eng, ctx, args[0]), ld(eng, ctx, args[1])
        da = bv(a.discr) if isinstance(a.discr, int) else a.discr
        db = bv(b_.discr) if isinstance(b_.discr, int) else b_.discr
        return da == db

    def m_len(eng, ctx, f, path, args, dty):
        b_ = ld(eng, ctx, args[0])
        return b_.data[2] - b_.data[1]

    def m_split_off(eng, ctx, f, path, args, dty):
        b_ = eng.load_ptr(ctx, args[0])
        fid, lo, hi = b_.data
        at = args[1]
        eng.store_ptr(ctx, args[0], Native("bytes", [fid, lo, lo + at]))
        return Native("bytes", [fid, lo + at, hi])

    def m_iter_mut(eng, ctx, f, path, args, dty):
        m = MC.the_map(eng, ctx, args[0])
        ctx.statics["clients_ptr"] = args[0]
        out = []
        for key, cell in m.data:
            kc = MC.new_cell(ctx, key, "tokenkey")
            out.append(Agg({0: Ptr(("static", kc)), 1: Ptr(("static", cell))}))
        return Native("liter", (tuple(out), 0))

    def m_map_insert(eng, ctx, f, path, args, dty):
        ctx.statics["clients_ptr"] = args[0] if isinstance(ld(eng, ctx, args[1]), Agg) and not isinstance(ld(eng, ctx, args[1]), Native) else ctx.statics.get("clients_ptr")
        return MC.m_insert(eng, ctx, f, path, args, dty)
    m = {r"^mio::Poll::poll$|^Poll::poll$": m_poll, r"^Events::with_capacity$": lambda *a: Native("events", ()), r"^Events::iter$": m_events_iter,
         r"^mio::event::Event::token$|event::Event::token$": m_token, r"Event::is_writable$": lambda *a: z3.BoolVal(True),
         r"^<mio::event::Iter as Iterator>::size_hint$": lambda *a: Agg({0: bv(0), 1: Enum(0, {}, "Option")}),
         r"TcpListener::accept$": m_accept, r"^mio::Poll::registry$|^Poll::registry$": lambda *a: Opaque("registry"),
         r"Registry::register$": lambda *a: Enum(0, {0: Agg({0: UNIT})}, "Result"), r"^mio::Interest::add$|^Interest::add$": lambda *a: Opaque("interest"),
         r"Receiver::try_recv$": m_try_recv, r"TryRecvError::is_empty$": lambda eng, ctx, f, path, args, dty: z3.BoolVal(True),
         r"^convert_metadata_to_protobuf_encoded$": m_conv_meta, r"^convert_metric_to_protobuf_encoded$": m_conv_metric,
         r"^<mio::net::TcpStream as std::io::Write>::write$|TcpStream as Write>::write$": m_write, r"^std::io::Error::kind$|io::Error::kind$": m_kind, r"^<ErrorKind as PartialEq>::eq$": m_kind_eq,
         r"^bytes::Bytes::len$|^Bytes::len$": m_len, r"Bytes::split_off$": m_split_off, r"Bytes as Deref>::deref$": lambda eng, ctx, f, path, args, dty: ld(eng, ctx, args[0]),
         r"^<Bytes as Clone>::clone$": lambda eng, ctx, f, path, args, dty: ld(eng, ctx, args[0]),
         r"^<Arc as Deref>::deref$|^<Arc<State> as Deref>::deref$": lambda eng, ctx, f, path, args, dty: Ptr(("static", "state")),
         r"Waker::wake$": lambda eng, ctx, f, path, args, dty: (ctx.observe("wake"), Enum(0, {0: Agg({0: UNIT})}, "Result"))[1],
         r"HashMap::iter_mut$|^<&mut HashMap as IntoIterator>::into_iter$": m_iter_mut,
         r"^<KeyName as Clone>::clone$|^<Key as Clone>::clone$": lambda eng, ctx, f, path, args, dty: ld(eng, ctx, args[0]),
         r"Level as PartialOrd>::le$": lambda *a: z3.BoolVal(False)}
    m.update(models.BASE)
    if getattr(sc, "wake", 0):
        wake_overrides(P, m, sc, ld)
    eng = sym.Engine(P, models=m, opaque=TRACING, loop_bound=8 * (len(sc.batches) + 2), max_paths=6000)
    eng.merging = False
    b = P.find_fn("run_transport")
    ctx0 = sym.Ctx(eng, 1)
    ctx0.statics = {"state": Agg({0: bv(0), 1: z3.BoolVal(False), 2: Opaque("waker"), 3: Opaque("tx")}), "batch": 0}
    if getattr(sc, "wake", 0):
        # the shared State comes from its real constructor (a changed tree may have more fields)
        new_b = P.find("State", "new")
        ctx0.statics.update({"env_pending": sc.wake, "wake_flag": False, "rxq": (), "npolls": 0, "in_env": False, "nsent": 0})

        def script0():
            st = yield ("call", new_b, [Opaque("waker"), Opaque("tx")])
            yield ("setstatic", "state", st)
            return None
        pre = eng.run_script(1, sc.name + ":State::new", script0, ctx0=ctx0)
        if len(pre) != 1 or pre[0].status != "done":
            raise sym.Unsupported("State::new does not return")
        ctx0 = pre[0].ctx
    bs = Enum(1, {1: Agg({0: bv(sc.buffer_size)})}, "Option") if sc.buffer_size is not None else Enum(0, {}, "Option")

    def script():
        r = yield ("call", b, [Opaque("poll"), Opaque("listener"), Opaque("rx"), Native("arcstate", None), bs])
        return r
    leaves = eng.run_script(1, sc.name, script, ctx0=ctx0)
    e3.absorb(eng)
    return eng, leaves, frames, flen, base


def wake_overrides(P, m, sc, ld):
    """The wake-up protocol between emitting threads and the transport thread, as interference: `sc.wake` calls of State::register_metric
    (try_send + wake, executed as real code) by other threads may land before any channel read, any atomic operation and any poll of the
    transport thread (solver-chosen). mio by its documentation: Waker::wake makes the next (or current) poll return a WAKER event; a poll
    with no pending wake blocks. The run ends when the transport blocks with no emitter left; nothing may then be left in the channel."""
    reg_b = P.find("State", "register_metric")
    nfresh = [0]

    def env_do(c):
        yield ("effect", lambda c_: (c_.statics.__setitem__("env_pending", c_.statics["env_pending"] - 1), c_.statics.__setitem__("in_env", True)))
        yield ("callv", reg_b, [Ptr(("static", "state")), Native("aname", 7), Enum(0, {}, "MetricType"), Enum(0, {}, "Option"), Native("adesc", 1)])
        yield ("effect", lambda c_: c_.statics.__setitem__("in_env", False))

    def env_step(eng, c, where):
        can = yield ("effect", lambda c_: c_.statics.get("env_pending", 0) > 0 and not c_.statics.get("in_env"))
        if can:
            nfresh[0] += 1
            v = yield ("effect", lambda c_: eng.fresh(f"another_thread_emits_before_{where}", "bool"))
            go = yield ("branch", v)
            if go:
                yield from env_do(c)

    def wrap(orig, where):
        def h(eng, ctx, f, path, args, dty):
            def script(c):
                yield from env_step(eng, c, where)
                return orig(eng, c, f, path, args, dty)
            return Script(script)
        return h

    def m_try_send(eng, ctx, f, path, args, dty):
        n = ctx.statics.get("nsent", 0)
        ctx.statics["nsent"] = n + 1
        ctx.statics["rxq"] = tuple(ctx.statics.get("rxq", ())) + (("meta", 7, 0, None, 1 + n),)
        return Enum(0, {0: Agg({0: UNIT})}, "Result")

    def m_wake(eng, ctx, f, path, args, dty):
        ctx.statics["wake_flag"] = True
        return Enum(0, {0: Agg({0: UNIT})}, "Result")

    def m_poll_w(eng, ctx, f, path, args, dty):
        def script(c):
            yield from env_step(eng, c, "poll")
            st = yield ("effect", lambda c_: (c_.statics["wake_flag"], c_.statics.get("env_pending", 0)))
            if not st[0] and st[1] > 0:
                # the transport would block; the emitting thread still has a call to make and makes it now
                yield from env_do(c)
            flag = yield ("effect", lambda c_: c_.statics["wake_flag"])
            if not flag:
                yield ("observe", "blocked", {"left_in_channel": None})
                left = yield ("effect", lambda c_: len(c_.statics.get("rxq", ())))
                yield ("observe", "blocked_with", {"left": left})
                return Diverge("cut", "the transport thread blocks in poll and no emitter is left")
            k = yield ("effect", lambda c_: c_.statics.get("npolls", 0))
            if k >= 4:
                return Diverge("unwound", "more polls than the bound")
            yield ("effect", lambda c_: (c_.statics.__setitem__("wake_flag", False), c_.statics.__setitem__("npolls", k + 1),
                                         eng.store_ptr(c_, args[1], Native("events", (Native("event", ("waker", ())),)))))
            return Enum(0, {0: Agg({0: UNIT})}, "Result")
        return Script(script)

    def m_token_w(eng, ctx, f, path, args, dty):
        return Agg({0: bv(WAKER)})
    m[r"Receiver::try_recv$"] = wrap(m[r"Receiver::try_recv$"], "try_recv")
    m[r"Sender::try_send$"] = m_try_send
    m[r"Waker::wake$"] = m_wake
    m[r"^mio::Poll::poll$|^Poll::poll$"] = m_poll_w
    m[r"^mio::event::Event::token$|event::Event::token$"] = m_token_w
    for pat in list(models.BASE):
        if "Atomic" in pat and pat not in m:
            pass
    # an emitter may also run between the transport's atomic operations on the shared State
    for pat, h in list(models.BASE.items()):
        if re.search(r"Atomic|atomic", pat) and "new" not in pat:
            m[pat] = wrap(h, "an_atomic_step")


def analyse_wake(e3, sc):
    eng, leaves, frames, flen, base = run_loop(e3, sc)
    cut = [l for l in leaves if l.status == "cut"]
    other = z3.Or(*[l.taken() for l in leaves if l.status != "cut"] or [z3.BoolVal(False)])
    lost = []
    for l in cut:
        for lab, e, pl in l.obs:
            if lab == "blocked_with":
                lost.append(z3.And(l.taken(), e.guard, z3.BoolVal(pl["left"] > 0)))
    def on_model(ob, model):
        import replay_e3
        where = sorted(str(d) for d in model.decls() if d.arity() == 0 and z3.is_true(model[d]))
        ob.sample = {"emissions_land": where}
        os.makedirs(os.path.join(REPLAYS, "C11"), exist_ok=True)
        pp = os.path.join(REPLAYS, "C11", f"{sc.name}.no_lost_wakeup.plan")
        open(pp, "w").write(replay_e3.plan_text("c11_wake", "no_lost_wakeup", {}, [], {}))
        status, out = replay_e3.run("c11", pp)
        ob.detail += f" | native replay (c11: the transport thread parked at its p-th trace event, a second description emitted, then quiet): {status}"
        ob.sample["native_replay"] = {"status": status, "output": out[-700:]}
        ob.replay = pp
        ob.reproduced = status == "reproduced"
        if not ob.reproduced:
            ob.status = "error"
            ob.detail += " — counterexample did NOT reproduce natively: treated as an encoder/model problem, not reported as a violation"
    bounds = (f"run_transport from its entry with no clients; {sc.wake} State::register_metric call(s) of other threads (real code: try_send, then wake) landing before any channel read, "
              f"atomic step or poll of the transport thread (solver-chosen); <= 4 polls; {len(cut)} runs end with the transport blocked")
    specs = [dict(name=f"{sc.name}:witness", desc="a run in which the transport drains the channel and blocks exists", bounds=bounds, cons=base + [z3.Or(*[l.taken() for l in cut] or [z3.BoolVal(False)])], expect_unsat=False),
             dict(name=f"{sc.name}:returns", desc="run_transport panics, returns or exceeds the bound", bounds=bounds, cons=base + [other], expect_unsat=True),
             dict(name=f"{sc.name}:no_lost_wakeup", desc="the transport thread blocks in poll while an event that another thread has sent (and whose wake() call has returned) is still in the channel: "
                  "it stays undelivered until somebody emits again", bounds=bounds, cons=base + [z3.Or(*lost or [z3.BoolVal(False)])], expect_unsat=True, on_model=on_model)]
    check.discharge_many(e3.res, specs, 120)


def analyse(e3, sc):
    eng, leaves, frames, flen, base = run_loop(e3, sc)
    cut = [l for l in leaves if l.status == "cut"]
    other = z3.Or(*[l.taken() for l in leaves if l.status not in ("cut",)] or [z3.BoolVal(False)])
    bad_count, torn, wrong_content, missing = [], [], [], []
    for l in cut:
        obs = [(lab, e, pl) for lab, e, pl in l.obs]
        # ---- book-keeping at the end of every batch
        for lab, e, pl in obs:
            if lab == "batch_end" and pl["nclients"] is not None:
                n = pl["nclients"]
                cnt, ss = pl["count"], pl["should_send"]
                ssb = ss if z3.is_expr(ss) else z3.BoolVal(bool(ss))
                bad_count.append(z3.And(l.taken(), e.guard, z3.Or(cnt != bv(n), ssb != z3.BoolVal(n > 0))))
        # ---- per client stream
        accepts = {pl["client"]: pl for lab, e, pl in obs if lab == "accept"}
        metrics = [pl for lab, e, pl in obs if lab == "metric_received"]
        closed = {pl["client"] for lab, e, pl in obs if lab == "closed"}
        for c, acc in accepts.items():
            sent = [(e, pl) for lab, e, pl in obs if lab == "sent" and pl["client"] == c]
            # expected frames: metadata known at accept (any order), then metrics received in this or later batches (those received in
            # the accepting batch *before* the accept are not owed)
            known = dict(acc["known"])
            owed = [mm for mm in metrics if mm["batch"] > acc["batch"] or (mm["batch"] == acc["batch"] and False)]
            # concrete walk: frame ids are concrete per path
            seq = []
            for e, pl in sent:
                fid = sym.concrete(pl["frame"])
                seq.append((fid, pl["lo"], pl["hi"]))
            # whole frames: consecutive segments of one frame must chain lo..hi; a new frame starts at 0 only after the previous one ended
            pos = 0
            i = 0
            got_frames = []
            bad_t = z3.BoolVal(False)
            while i < len(seq):
                fid = seq[i][0]
                off = bv(0)
                j = i
                while j < len(seq) and seq[j][0] == fid:
                    bad_t = z3.Or(bad_t, seq[j][1] != off)
                    off = seq[j][2]
                    j += 1
                complete = off == flen[fid]
                last = j == len(seq)
                if not last:
                    bad_t = z3.Or(bad_t, z3.Not(complete))
                got_frames.append((fid, complete, last))
                i = j
            torn.append(z3.And(l.taken(), bad_t))
            # content and order
            gi = 0
            meta_seen = set()
            bad_c = False
            metric_idx = -1
            for fid, complete, last in got_frames:
                content = frames[fid]
                if content[0] == "meta":
                    _, nid, ty, u, d = content
                    if metric_idx >= 0 or nid in meta_seen or nid not in known or known[nid] != (ty, u, d):
                        bad_c = True
                    meta_seen.add(nid)
                else:
                    _, kid, op, n = content
                    owed_seq = [mm["seq"] for mm in owed]
                    if n not in owed_seq or n <= metric_idx:
                        bad_c = True
                    metric_idx = max(metric_idx, n)
            if bad_c:
                wrong_content.append(l.taken())
            # a client whose socket accepted everything and was never closed is owed everything (metadata + metrics), whole
            if sc.sockets.get(c, "fast") == "fast" and c not in closed:
                want_meta = set(known)
                want_metrics = [mm["seq"] for mm in owed]
                have_meta = {frames[fid][1] for fid, _, _ in got_frames if frames[fid][0] == "meta"}
                have_metrics = [frames[fid][3] for fid, _, _ in got_frames if frames[fid][0] == "metric"]
                if have_meta != want_meta or have_metrics != want_metrics:
                    missing.append(l.taken())
                incomplete = [z3.Not(cm) for _, cm, _ in got_frames]
                if incomplete:
                    missing.append(z3.And(l.taken(), z3.Or(*incomplete)))
    orr = lambda xs: z3.Or(*xs) if xs else z3.BoolVal(False)
    bounds = (f"run_transport from entry; buffer_size {sc.buffer_size}; poll results {sc.batches}; sockets {sc.sockets} (sym: each write accepts everything, a prefix, or WouldBlock"
              f"{' or reports the peer closed' if any(v == 'sym+close' for v in sc.sockets.values()) else ''}; at most 2 non-full outcomes per client); frame lengths 1..2^16; {len(cut)} paths")

    def on_model(ob, model):
        ev = lambda t: model.eval(t, model_completion=True)
        for l in cut:
            if z3.is_true(ev(l.taken())):
                rows = []
                for lab, e, pl in l.obs:
                    if not z3.is_true(ev(e.guard)):
                        continue
                    if lab == "sent":
                        rows.append(f"client {pl['client']}: socket accepted bytes [{ev(pl['lo'])}, {ev(pl['hi'])}) of frame {ev(pl['frame'])} = {frames[sym.concrete(pl['frame'])]}")
                    elif lab == "accept":
                        rows.append(f"accepted client {pl['client']} in batch {pl['batch']}; metadata known: {pl['known']}")
                    elif lab == "closed":
                        rows.append(f"client {pl['client']}: write returned 0 (peer closed)")
                    elif lab == "batch_end":
                        rows.append(f"end of batch {pl['k']}: client_count={ev(pl['count'])} should_send={ev(pl['should_send']) if z3.is_expr(pl['should_send']) else pl['should_send']} connected={pl['nclients']}")
                ob.sample = {"scenario": sc.name, "trace": rows[:40]}
                break
        pname = ob.name.split(":")[1]
        import replay_e3
        os.makedirs(os.path.join(REPLAYS, "C11"), exist_ok=True)
        pp = os.path.join(REPLAYS, "C11", f"{sc.name}.{pname}.plan")
        open(pp, "w").write(replay_e3.plan_text("c11_loop", pname, {}, [], {"which": LOOPS.index(sc) if sc in LOOPS else 0}))
        status, out = replay_e3.run("c11", pp)
        ob.detail += f" | native replay (c11, real exporter over loopback sockets): {status}"
        if isinstance(ob.sample, dict):
            ob.sample["native_replay"] = {"status": status, "output": out[-600:]}
        ob.replay = pp
        ob.reproduced = status == "reproduced"
        if not ob.reproduced:
            ob.status = "error"
            ob.detail += " — counterexample did NOT reproduce natively: treated as an encoder/model problem, not reported as a violation"
    specs = [dict(name=f"{sc.name}:witness", desc="the bounded run completes", bounds=bounds, cons=base + [orr([l.taken() for l in cut])], expect_unsat=False),
             dict(name=f"{sc.name}:no_panic", desc="the transport thread panics, returns, or exceeds a loop bound", bounds=bounds, cons=base + [other], expect_unsat=True, on_model=on_model),
             dict(name=f"{sc.name}:client_bookkeeping", desc="after a batch of events client_count differs from the number of connected clients, or should_send is not (clients > 0): with a client connected emitted metrics are not forwarded", bounds=bounds,
                  cons=base + [orr(bad_count)], expect_unsat=True, on_model=on_model),
             dict(name=f"{sc.name}:whole_frames_only", desc="a client's byte stream is not a concatenation of whole frames (a frame is continued at the wrong offset, or abandoned half-sent while another one starts)", bounds=bounds,
                  cons=base + [orr(torn)], expect_unsat=True, on_model=on_model),
             dict(name=f"{sc.name}:metadata_first_current_then_metrics_in_order", desc="a client is sent a frame it is not owed: metadata that was not the latest known when it connected, metadata after metrics or twice, a metric from before it connected, or metrics out of order / twice", bounds=bounds,
                  cons=base + [orr(wrong_content)], expect_unsat=True, on_model=on_model),
             dict(name=f"{sc.name}:reading_client_gets_everything", desc="a client whose socket accepted everything did not receive all metadata known at connect time and every metric received afterwards, each as a whole frame", bounds=bounds,
                  cons=base + [orr(missing)], expect_unsat=True, on_model=on_model)]
    check.discharge_many(e3.res, specs, 300)


M1 = ("meta", 1, 0, 3, 10)
M1b = ("meta", 1, 0, 4, 11)
M2 = ("meta", 2, 1, None, 12)
WAKE = Loop("c11_wake_protocol", 4, [], {}, "emitters racing the transport thread's drain-and-sleep cycle")
WAKE.wake = 2

LOOPS = [
    Loop("c11_loop_two_clients_one_leaves", 4, [[("waker", [M1])], [("listener", 2)], [("waker", [("metric", 1, 0)])], [("waker", [("metric", 1, 1)])], [("client", 0), ("client", 1)], [("waker", [("metric", 2, 2)])]],
         {0: "sym+close", 1: "fast"}, "two clients; one may stall or close at any write; the other keeps reading"),
    Loop("c11_loop_redescribe_then_connect", 4, [[("waker", [M1, M2])], [("listener", 1)], [("waker", [M1b, ("metric", 1, 0)])], [("listener", 1)], [("waker", [("metric", 1, 1)])]],
         {0: "fast", 1: "fast"}, "a metric is re-described between two connects"),
    Loop("c11_loop_slow_client_overflow", 2, [[("waker", [M1])], [("listener", 1)], [("waker", [("metric", 1, 0), ("metric", 1, 1)])], [("waker", [("metric", 1, 2), ("metric", 1, 3)])], [("client", 0)], [("waker", [("metric", 1, 4)])], [("client", 0)]],
         {0: "sym"}, "one slow client, buffer of 2: older whole messages are discarded"),
]

"""C08 Prometheus output is well-formed exposition text for any input strings."""
import z3
from common import *
import _e3
from mirsmt import sym, models, check, models_str as MS, models_coll as MC
from mirsmt.sym import Ptr, Agg, Enum, Native, Fork, UNIT, bv, Opaque

ASSUME = ["strings are modelled at character level with concrete lengths per query (stated per obligation) and fully symbolic characters (any Unicode scalar value); "
          "std contracts: push/push_str append, chars()/next() iterate in order, enumerate() counts from 0, map() applies its closure to each element, collect::<String>() concatenates, char::is_ascii_* are the ASCII ranges",
          "the oracle is a strict parser of the text exposition format (metric name [a-zA-Z_:][a-zA-Z0-9_:]*, label name [a-zA-Z_][a-zA-Z0-9_]*, label value with only the escapes \\\\ \\\" \\n, HELP text with only \\\\ and \\n, one sample per line) run as a symbolic automaton over the produced characters",
          "Display text of numbers is an opaque token without special characters"]
BAD = 99


def fresh_chars(tag, n):
    cs = [z3.BitVec(f"{tag}{i}", 32) for i in range(n)]
    return cs, [MS.valid_scalar(c) for c in cs]


def engine(P, extra=None):
    m = dict(MS.STR)
    if extra:
        m.update(extra)
    m.update(models.BASE)
    eng = sym.Engine(P, models=m, max_paths=20000, loop_bound=8)     # every loop here runs once per input character (<= 6) or list element (<= 3)
    eng.merging = False
    return eng


def run_fn(P, body, args, extra=None, buf=False):
    """-> [(leaf, returned value, final buffer items or None)]"""
    eng = engine(P, extra)
    ctx0 = sym.Ctx(eng, 1)
    ctx0.statics = {"buf": MS.sstr()}

    def script():
        r = yield ("call", body, ([Ptr(("static", "buf"))] if buf else []) + list(args))
        b = yield ("getstatic", "buf")
        return Agg({0: r, 1: b})
    leaves = eng.run_script(1, body.name, script, ctx0=ctx0)
    return eng, leaves


def name_dfa(items, colon):
    """1 = empty so far, 2 = inside a name"""
    def step(st, c):
        return MS.table(st, [(1, MS.name_start(c, colon), 2), (2, MS.name_char(c, colon), 2)], BAD)
    return MS.run_dfa(items, 1, step, lambda st, cls: z3.IntVal(BAD), BAD) == 2


def value_dfa(items, is_desc):
    """escaped label value (between the quotes) or HELP text (up to the newline): 0 = plain, 1 = after a backslash"""
    def step(st, c):
        esc_ok = z3.Or(MS.is_ch(c, "\\"), MS.is_ch(c, "n")) if is_desc else z3.Or(MS.is_ch(c, "\\"), MS.is_ch(c, "n"), MS.is_ch(c, '"'))
        stop = MS.is_ch(c, "\n") if is_desc else z3.Or(MS.is_ch(c, "\n"), MS.is_ch(c, '"'))
        return MS.table(st, [(0, MS.is_ch(c, "\\"), 1), (0, stop, BAD), (0, z3.BoolVal(True), 0), (1, esc_ok, 0)], BAD)
    return MS.run_dfa(items, 0, step, lambda st, cls: z3.IntVal(BAD), BAD) == 0


def sample_line_dfa(items):
    """one complete sample line `name[{labels}] value\\n`; tokens: 'label' = one pre-rendered `key="value"` pair, 'number' = Display of a number"""
    def step(st, c):
        is_ = lambda ch: MS.is_ch(c, ch)
        rows = [(0, MS.name_start(c), 1),
                (1, MS.name_char(c), 1), (1, is_("{"), 2), (1, is_(" "), 9),
                (2, MS.name_start(c, False), 3), (2, is_("}"), 8),
                (12, MS.name_start(c, False), 3), (12, is_("}"), 8),
                (3, MS.name_char(c, False), 3), (3, is_("="), 4),
                (4, is_('"'), 5),
                (5, is_("\\"), 6), (5, is_('"'), 7), (5, is_("\n"), BAD), (5, z3.BoolVal(True), 5),
                (6, z3.Or(is_("\\"), is_('"'), is_("n")), 5),
                (7, is_(","), 12), (7, is_("}"), 8),
                (8, is_(" "), 9),
                (10, is_("\n"), 11)]
        return MS.table(st, rows, BAD)

    def step_tok(st, cls):
        if cls == "label":
            return z3.If(z3.Or(st == 2, st == 12), z3.IntVal(7), z3.IntVal(BAD))
        if cls == "number":
            return z3.If(st == 9, z3.IntVal(10), z3.If(st == 5, z3.IntVal(5), z3.IntVal(BAD)))
        return z3.IntVal(BAD)
    return MS.run_dfa(items, 0, step, step_tok, BAD) == 11


def starts_with(items, lit):
    """structural: the first len(lit) items are exactly these literal characters"""
    if len(items) < len(lit):
        return z3.BoolVal(False), items
    conds = []
    for it, ch in zip(items, lit):
        if isinstance(it, tuple):
            return z3.BoolVal(False), items
        conds.append(it == bv(ord(ch), 32))
    return z3.And(*conds), items[len(lit):]


def discharge(e3, name, bounds, base, rows, timeout=120):
    """rows: [(pname, desc, violation condition)]"""
    specs = [dict(name=f"{name}:witness", desc="the function returns for some input", bounds=bounds, cons=base + [rows[0][3]], expect_unsat=False)]
    for pname, desc, viol, _ in rows:
        specs.append(dict(name=f"{name}:{pname}", desc=desc, bounds=bounds, cons=base + [viol], expect_unsat=True, on_model=rows[0][4] if len(rows[0]) > 4 else None))
    check.discharge_many(e3.res, specs, timeout)


def sanitize_names(e3, nmax):
    P = _e3.program(["metrics-exporter-prometheus"])
    for fn, colon, what in (("sanitize_metric_name", True, "metric name"), ("sanitize_label_key", False, "label name")):
        b = P.find_fn(fn)
        for n in range(0, nmax + 1):
            cs, base = fresh_chars("c", n)
            eng, leaves = run_fn(P, b, [MS.sstr(cs)])
            e3.absorb(eng)
            done = [l for l in leaves if l.status == "done"]
            other = z3.Or(*[l.taken() for l in leaves if l.status != "done"] or [z3.BoolVal(False)])
            bad = []
            for l in done:
                out = l.ret.f[0]
                items = out.data if isinstance(out, Native) and out.kind == "sstr" else None
                if items is None:
                    bad.append(l.taken())
                    continue
                ok = name_dfa(items, colon) if n > 0 else z3.BoolVal(len(items) == 0)
                bad.append(z3.And(l.taken(), z3.Not(ok)))
            viol = z3.Or(*bad) if bad else z3.BoolVal(False)
            name = f"c08_{fn}_len{n}"
            bounds = f"{fn} on every string of exactly {n} characters (each any Unicode scalar value)"

            def on_model(ob, model, cs=cs, fn=fn):
                s = "".join(chr(model.eval(c, model_completion=True).as_long()) for c in cs)
                ob.sample = {"function": fn, "input": s, "input_codepoints": [hex(ord(x)) for x in s]}
                replay_native(ob, "c08_sanitize", ob.name.split(":")[1], {"fn": ["sanitize_metric_name", "sanitize_label_key", "sanitize_label_value", "sanitize_description"].index(fn), "n": len(cs),
                                                                          **{f"c{i}": ord(x) for i, x in enumerate(s)}})
            specs = [dict(name=f"{name}:witness", desc="returns for some input", bounds=bounds, cons=base + [z3.Or(*[l.taken() for l in done] or [z3.BoolVal(False)])], expect_unsat=False),
                     dict(name=f"{name}:returns", desc="panics or does not return", bounds=bounds, cons=base + [other], expect_unsat=True, on_model=on_model),
                     dict(name=f"{name}:matches_grammar", desc=f"the result is not a valid Prometheus {what} ({'[a-zA-Z_:][a-zA-Z0-9_:]*' if colon else '[a-zA-Z_][a-zA-Z0-9_]*'})", bounds=bounds,
                          cons=base + [viol], expect_unsat=True, on_model=on_model)]
            check.discharge_many(e3.res, specs, 120)


def escaping(e3, nmax):
    P = _e3.program(["metrics-exporter-prometheus"])
    for fn, is_desc in (("sanitize_label_value", False), ("sanitize_description", True)):
        b = P.find_fn(fn)
        for n in range(0, nmax + 1):
            cs, base = fresh_chars("c", n)
            eng, leaves = run_fn(P, b, [MS.sstr(cs)])
            e3.absorb(eng)
            done = [l for l in leaves if l.status == "done"]
            other = z3.Or(*[l.taken() for l in leaves if l.status != "done"] or [z3.BoolVal(False)])
            bad = []
            for l in done:
                out = l.ret.f[0]
                items = out.data if isinstance(out, Native) and out.kind == "sstr" else None
                bad.append(l.taken() if items is None else z3.And(l.taken(), z3.Not(value_dfa(items, is_desc))))
            viol = z3.Or(*bad) if bad else z3.BoolVal(False)
            name = f"c08_{fn}_len{n}"
            bounds = f"{fn} on every string of exactly {n} characters (each any Unicode scalar value); {len(done)} paths"

            def on_model(ob, model, cs=cs, fn=fn):
                s = "".join(chr(model.eval(c, model_completion=True).as_long()) for c in cs)
                ob.sample = {"function": fn, "input": s, "input_codepoints": [hex(ord(x)) for x in s]}
                replay_native(ob, "c08_sanitize", ob.name.split(":")[1], {"fn": ["sanitize_metric_name", "sanitize_label_key", "sanitize_label_value", "sanitize_description"].index(fn), "n": len(cs),
                                                                          **{f"c{i}": ord(x) for i, x in enumerate(s)}})
            what = "HELP text: a raw newline or a backslash that is not part of \\\\ or \\n" if is_desc else "label value: a raw quote or newline, or a backslash that is not part of \\\\, \\\" or \\n"
            specs = [dict(name=f"{name}:witness", desc="returns for some input", bounds=bounds, cons=base + [z3.Or(*[l.taken() for l in done] or [z3.BoolVal(False)])], expect_unsat=False),
                     dict(name=f"{name}:returns", desc="panics or does not return", bounds=bounds, cons=base + [other], expect_unsat=True, on_model=on_model),
                     dict(name=f"{name}:escaped", desc=f"the result does not parse as an escaped {what}", bounds=bounds, cons=base + [viol], expect_unsat=True, on_model=on_model)]
            check.discharge_many(e3.res, specs, 120)


def help_line_ok(items):
    ok, rest = starts_with(items, "# HELP ")

    def step(st, c):
        is_ = lambda ch: MS.is_ch(c, ch)
        rows = [(1, MS.name_start(c), 2), (2, MS.name_char(c), 2), (2, is_(" "), 3),
                (3, is_("\\"), 4), (3, is_("\n"), 5), (3, z3.BoolVal(True), 3),
                (4, z3.Or(is_("\\"), is_("n")), 3)]
        return MS.table(st, rows, BAD)
    return z3.And(ok, MS.run_dfa(rest, 1, step, lambda st, cls: z3.IntVal(BAD), BAD) == 5)


def type_line_ok(items):
    ok, rest = starts_with(items, "# TYPE ")

    def step(st, c):
        is_ = lambda ch: MS.is_ch(c, ch)
        lower = z3.And(z3.UGE(c, bv(ord("a"), 32)), z3.ULE(c, bv(ord("z"), 32)))
        rows = [(1, MS.name_start(c), 2), (2, MS.name_char(c), 2), (2, is_(" "), 3), (3, lower, 4), (4, lower, 4), (4, is_("\n"), 5)]
        return MS.table(st, rows, BAD)
    return z3.And(ok, MS.run_dfa(rest, 1, step, lambda st, cls: z3.IntVal(BAD), BAD) == 5)


def valid_name_constraint(cs):
    return [MS.name_start(cs[0])] + [MS.name_char(c) for c in cs[1:]]


def lines(e3, thorough):
    """write_help_line / write_type_line / write_metric_line: every call appends exactly one well-formed line"""
    P = _e3.program(["metrics-exporter-prometheus", "metrics"])
    units = P.enums["Unit"]
    nm, base_n = fresh_chars("n", 2)
    base_n = base_n + valid_name_constraint(nm)       # names reach these functions sanitized (checked above)
    name = MS.sstr(nm)

    def run_and_check(body, args, ok_fn, cname, desc, bounds, base, extra=None):
        eng, leaves = run_fn(P, body, args, extra=extra, buf=True)
        e3.absorb(eng)
        done = [l for l in leaves if l.status == "done"]
        other = z3.Or(*[l.taken() for l in leaves if l.status != "done"] or [z3.BoolVal(False)])
        bad = []
        for l in done:
            out = l.ret.f[1]
            items = out.data if isinstance(out, Native) and out.kind == "sstr" else None
            bad.append(l.taken() if items is None else z3.And(l.taken(), z3.Not(ok_fn(items))))
        specs = [dict(name=f"{cname}:witness", desc="returns for some input", bounds=bounds + f"; {len(done)} paths", cons=base + [z3.Or(*[l.taken() for l in done] or [z3.BoolVal(False)])], expect_unsat=False),
                 dict(name=f"{cname}:returns", desc="panics or does not return", bounds=bounds, cons=base + [other], expect_unsat=True),
                 dict(name=f"{cname}:one_well_formed_line", desc=desc, bounds=bounds, cons=base + [z3.Or(*bad) if bad else z3.BoolVal(False)], expect_unsat=True)]
        check.discharge_many(e3.res, specs, 120)
    # HELP
    for n in range(0, 3 if thorough else 2 + 1):
        ds, base_d = fresh_chars("d", n)
        run_and_check(P.find_fn("write_help_line"), [name, MS.sstr(ds)], help_line_ok, f"c08_help_line_desc{n}",
                      "the text appended by write_help_line is not exactly one `# HELP <name> <escaped text>` line",
                      f"metric name: 2 characters, any valid (sanitized) name; description: every string of {n} characters", base_n + base_d)
    # TYPE
    for ty in ("counter", "gauge", "histogram", "summary"):
        run_and_check(P.find_fn("write_type_line"), [name, MS.sstr(MS.lit_items(ty))], type_line_ok, f"c08_type_line_{ty}",
                      "the text appended by write_type_line is not exactly one `# TYPE <name> <type>` line", f"metric name: 2 characters, any valid name; type {ty}", base_n)
    # samples
    b = P.find_fn("write_metric_line")
    unit_d = z3.BitVec("unit", 64)
    has_unit = z3.Bool("has_unit")
    unit = Enum(z3.If(has_unit, bv(1), bv(0)), {1: Agg({0: Enum(unit_d, {}, "Unit")})}, "Option")
    base_u = [z3.ULT(unit_d, bv(len(units)))]
    suffixes = [None, "bucket", "sum", "count"]
    addl = [None, ("le", "number"), ("le", "+Inf"), ("quantile", "number")]
    for si, sfx in enumerate(suffixes):
        for k in range(0, 3):
            for ai, ad in enumerate(addl):
                if not thorough and (si + k + ai) % 3 != 0 and not (k == 2 and ai in (1, 2)):
                    continue
                sv = Enum(0, {}, "Option") if sfx is None else Enum(1, {1: Agg({0: MS.sstr(MS.lit_items(sfx))})}, "Option")
                labels = Native("strvec", tuple(MS.sstr((MS.tok("label"),)) for _ in range(k)))
                if ad is None:
                    av = Enum(0, {}, "Option")
                else:
                    val = Native("display", ("number", 7000 + ai)) if ad[1] == "number" else MS.sstr(MS.lit_items(ad[1]))
                    av = Enum(1, {1: Agg({0: Agg({0: MS.sstr(MS.lit_items(ad[0])), 1: val})})}, "Option")
                value = Native("display", ("number", 8000))
                run_and_check(b, [name, sv, labels, av, value, unit], sample_line_dfa, f"c08_metric_line_s{si}_l{k}_a{ai}",
                              "the text appended by write_metric_line is not exactly one well-formed sample line",
                              f"name: 2 characters, any valid name; suffix {sfx}; {k} pre-rendered labels; additional label {ad}; unit: None or any of the {len(units)} Unit values", base_n + base_u)


def split_lines(items):
    """split at the newline characters the code pushes as literals; -> (lines incl. their newline, unterminated rest)"""
    out, cur = [], []
    for it in items:
        cur.append(it)
        if not isinstance(it, tuple) and z3.is_bv_value(it) and it.as_long() == 10:
            out.append(cur)
            cur = []
    return out, cur


def lit_prefix(items, lit):
    if len(items) < len(lit):
        return False
    for it, ch in zip(items, lit):
        if isinstance(it, tuple) or not z3.is_bv_value(it) or it.as_long() != ord(ch):
            return False
    return True


def seq_eq(a, b):
    """z3 condition: the two item sequences spell the same text (same length; characters equal; tokens identical)"""
    if len(a) != len(b):
        return z3.BoolVal(False)
    cs = []
    for x, y in zip(a, b):
        if isinstance(x, tuple) or isinstance(y, tuple):
            if x != y:
                return z3.BoolVal(False)
        else:
            cs.append(x == y)
    return z3.And(*cs) if cs else z3.BoolVal(True)


ALLOWED = {"counter": ["", "_total", "_created"], "gauge": [""], "histogram": ["_bucket", "_sum", "_count", "_created"], "summary": ["", "_sum", "_count", "_created"]}


def exposition_conditions(items):
    """-> (grammar_ok, family_ok) z3 conditions for one concrete-structure output"""
    lines, rest = split_lines(items)
    if rest:
        return z3.BoolVal(False), z3.BoolVal(False)
    gram, fam = [], []
    current = None          # (family name items, type string)
    seen_types = []
    for ln in lines:
        if len(ln) == 1:
            continue        # blank line
        if lit_prefix(ln, "# HELP "):
            gram.append(help_line_ok(ln))
        elif lit_prefix(ln, "# TYPE "):
            gram.append(type_line_ok(ln))
            body = ln[7:-1]
            # the type word is pushed as a literal: split at the last literal space
            k = max(i for i, it in enumerate(body) if not isinstance(it, tuple) and z3.is_bv_value(it) and it.as_long() == 32)
            name, ty = body[:k], "".join(chr(x.as_long()) for x in body[k + 1:])
            for prev in seen_types:
                fam.append(z3.Not(seq_eq(prev, name)))        # exactly one TYPE line per family
            seen_types.append(name)
            current = (name, ty)
        else:
            gram.append(sample_line_dfa(ln))
            if current is None:
                fam.append(z3.BoolVal(False))
                continue
            # sample name: up to the first literal '{' or ' '
            k = min(i for i, it in enumerate(ln) if not isinstance(it, tuple) and z3.is_bv_value(it) and it.as_long() in (123, 32))
            sname = ln[:k]
            fam.append(z3.Or(*[seq_eq(sname, list(current[0]) + list(MS.lit_items(sfx))) for sfx in ALLOWED.get(current[1], [""])]))
    return (z3.And(*gram) if gram else z3.BoolVal(True)), (z3.And(*fam) if fam else z3.BoolVal(True))


def render(e3, thorough, kinds=("counter", "gauge", "histogram", "summary")):
    """Inner::render on a snapshot of concrete shape (one family per scenario) with symbolic names, descriptions, units and settings"""
    P = _e3.program(["metrics-exporter-prometheus", "metrics"])
    units = P.enums["Unit"]
    dist_variants = P.enums["Distribution"]
    b = P.find("Inner", "render")
    for kind in kinds:
        nm, base = fresh_chars("n", 2)
        base = base + valid_name_constraint(nm)          # family names reach render() sanitized (key_to_parts / add_description_if_missing)
        ds, base_d = fresh_chars("d", 1)
        name = MS.sstr(nm)
        described = z3.Bool("described")
        has_unit = z3.Bool("has_unit")
        unit_d = z3.BitVec("unit", 64)
        suffix_on = z3.Bool("enable_unit_suffix")
        base = base + base_d + [z3.ULT(unit_d, bv(len(units)))]
        labels = Native("strvec", (MS.sstr((MS.tok("label"),)),))
        fnum = lambda tag: z3.BitVec(tag, 64)
        if kind == "counter":
            snap = Agg({0: MS.lmap([(name, MS.lmap([(labels, fnum("v"))]))]), 1: MS.lmap([]), 2: MS.lmap([])})
        elif kind == "gauge":
            snap = Agg({0: MS.lmap([]), 1: MS.lmap([(name, MS.lmap([(labels, fnum("v"))]))]), 2: MS.lmap([])})
        elif kind == "histogram":
            dist = Enum(dist_variants.index("Histogram"), {dist_variants.index("Histogram"): Agg({0: Native("hist", None)})}, "Distribution")
            snap = Agg({0: MS.lmap([]), 1: MS.lmap([]), 2: MS.lmap([(name, MS.lmap([(labels, dist)]))])})
        else:
            si = dist_variants.index("Summary")
            dist = Enum(si, {si: Agg({0: Native("rolling", None), 1: Native("lvec", (Native("quantile", None),)), 2: fnum("sum")})}, "Distribution")
            snap = Agg({0: MS.lmap([]), 1: MS.lmap([]), 2: MS.lmap([(name, MS.lmap([(labels, dist)]))])})
        entry = Agg({0: MS.sstr(ds), 1: Enum(z3.If(has_unit, bv(1), bv(0)), {1: Agg({0: Enum(unit_d, {}, "Unit")})}, "Option")})

        def m_get(eng, ctx, f, path, args, dty):
            return Fork([(described, Enum(1, {1: Agg({0: Ptr(("static", "desc_entry"))})}, "Option")), (z3.Not(described), Enum(0, {}, "Option"))])

        def m_filter(eng, ctx, f, path, args, dty):
            e = args[0]
            if isinstance(e, Ptr):
                e = eng.load_ptr(ctx, e)
            keep = MS.run_pure(eng, ctx, args[1], [Opaque("&Unit")])

            kb = eng.as_bool(keep)
            is_some = eng.discr_is(e.discr, 1)
            none = Enum(0, {}, "Option")
            return Fork([(z3.And(is_some, kb), e), (z3.And(is_some, z3.Not(kb)), none), (z3.Not(is_some), none)])
        fresh = [0]

        def num(tag):
            def h(eng, ctx, f, path, args, dty):
                fresh[0] += 1
                return z3.BitVec(f"{tag}{fresh[0]}", 64)
            return h
        extra = dict(MS.LIST)
        extra.update({
            r"^Inner::get_recent_metrics$": lambda *a: snap,
            r"^std::sync::RwLock::read$|^RwLock::read$": lambda *a: Enum(0, {0: Agg({0: Native("descmap", None)})}, "Result"),
            r"RwLockReadGuard as Deref>::deref$": models.m_identity,
            r"^HashMap::get$": m_get,
            r"(^|::)Option::filter$": m_filter,
            r"VerifCow as Deref>::deref$|Cow as Deref>::deref$": lambda eng, ctx, f, path, args, dty: MS.sstr(MS.as_items(eng, ctx, args[0])),
            r"^DistributionBuilder::get_distribution_type$": lambda *a: MS.sstr(MS.lit_items(kind)),
            r"^quanta::Instant::now$|^Instant::now$": lambda *a: Opaque("now"),
            r"^RollingSummary::snapshot$": lambda *a: Opaque("summary snapshot"),
            r"^Summary::quantile$": lambda *a: Enum(1, {1: Agg({0: z3.BitVec("qv", 64)})}, "Option"),
            r"^Quantile::value$": num("q"),
            r"^RollingSummary::count$": num("cnt"),
            r"Histogram::count$": num("hc"), r"Histogram::sum$": num("hs"),
            r"Histogram::buckets$": lambda *a: Native("lvec", (Agg({0: z3.BitVec("le0", 64), 1: z3.BitVec("c0", 64)}),)),
        })
        eng = engine(P, extra)
        eng.loop_bound = 4
        ctx0 = sym.Ctx(eng, 1)
        inner = Agg({0: Opaque("registry"), 1: Opaque("recency"), 2: Opaque("distributions"), 3: Opaque("builder"), 4: Opaque("descriptions"), 5: Opaque("global_labels"), 6: suffix_on})
        ctx0.statics = {"inner": inner, "desc_entry": entry}

        def script():
            r = yield ("call", b, [Ptr(("static", "inner"))])
            return r
        leaves = eng.run_script(1, "render:" + kind, script, ctx0=ctx0)
        e3.absorb(eng)
        done = [l for l in leaves if l.status == "done"]
        other = z3.Or(*[l.taken() for l in leaves if l.status != "done"] or [z3.BoolVal(False)])
        gbad, fbad, vbad = [], [], []
        vterm = z3.BitVec("v", 64)
        for l in done:
            out = l.ret
            if not (isinstance(out, Native) and out.kind == "sstr"):
                gbad.append(l.taken())
                continue
            if kind in ("counter", "gauge"):
                # the value printed on the sample line must be the stored value: a counter's u64 printed as an integer, a gauge's f64 in a
                # form that parses back to the same f64 (Display of f64 does; an integer rendering does iff converting it back gives the value)
                toks = [it for it in out.data if isinstance(it, tuple) and it[1] == "number"]
                prov = [getattr(eng, "numtok", {}).get(it[2]) for it in toks]
                if len(toks) != 1 or prov[0] is None:
                    vbad.append(l.taken())
                else:
                    term, ty = prov[0]
                    if kind == "counter":
                        okv = z3.BoolVal(ty in ("u64", "usize") ) if term is vterm or (z3.is_expr(term) and term.eq(vterm)) else z3.BoolVal(False)
                    elif ty in ("f64",):
                        okv = term == vterm
                    elif ty in ("i64", "u64", "i32", "u32", "i128", "u128", "isize", "usize") and z3.is_bv(term):
                        back = z3.fpSignedToFP(z3.RNE(), term, z3.Float64()) if ty.startswith("i") else z3.fpUnsignedToFP(z3.RNE(), term, z3.Float64())
                        fv_ = z3.fpBVToFP(vterm, z3.Float64())
                        okv = z3.And(z3.fpEQ(back, fv_), z3.Not(z3.And(z3.fpIsZero(fv_), z3.fpIsNegative(fv_))))
                    else:
                        okv = z3.BoolVal(False)
                    vbad.append(z3.And(l.taken(), z3.Not(okv)))
            g, fm = exposition_conditions(list(out.data))
            gbad.append(z3.And(l.taken(), z3.Not(g)))
            fbad.append(z3.And(l.taken(), z3.Not(fm)))
        gv = z3.Or(*gbad) if gbad else z3.BoolVal(False)
        fv = z3.Or(*fbad) if fbad else z3.BoolVal(False)
        vv = z3.Or(*vbad) if vbad else z3.BoolVal(False)
        # the known mechanism (K5): a unit suffix is appended to the sample names only
        count_i, _ = units.index("Count"), None
        k5 = z3.And(suffix_on, described, has_unit, unit_d != bv(count_i))
        cname = f"c08_render_{kind}"
        bounds = (f"Inner::render on a snapshot with one {kind} family (name: 2 characters, any valid name; one pre-rendered label; description of 1 arbitrary character present or absent; "
                  f"unit None or any of the {len(units)} Unit values; unit suffix on/off); {len(done)} paths")

        def on_model(ob, model, kind=kind):
            ev = lambda t: model.eval(t, model_completion=True)
            row = {"kind": kind, "described": z3.is_true(ev(described)), "has_unit": z3.is_true(ev(has_unit)), "unit": units[ev(unit_d).as_long() % len(units)],
                   "enable_unit_suffix": z3.is_true(ev(suffix_on))}
            for l in done:
                if z3.is_true(ev(l.taken())) and isinstance(l.ret, Native):
                    row["output_as_encoded"] = "".join((chr(ev(it).as_long()) if not isinstance(it, tuple) else f"<{it[1]}>") for it in l.ret.data)
            ob.sample = row
            vb = ev(vterm).as_long()
            row["value_bits"] = hex(vb)
            replay_native(ob, "c08_render", ob.name.split(":")[1], {"kind": ["counter", "gauge", "summary", "histogram"].index(kind), "described": int(row["described"]),
                                                                     "unit": (units.index(row["unit"]) + 1) if row["has_unit"] else 0, "unit_suffix": int(row["enable_unit_suffix"]), "value": vb})
        specs = [dict(name=f"{cname}:witness", desc="render returns", bounds=bounds, cons=base + [z3.Or(*[l.taken() for l in done] or [z3.BoolVal(False)])], expect_unsat=False),
                 dict(name=f"{cname}:returns", desc="render panics or does not return", bounds=bounds, cons=base + [other], expect_unsat=True),
                 dict(name=f"{cname}:well_formed_exposition", desc="some line of the output is not a well-formed HELP, TYPE, sample or blank line", bounds=bounds, cons=base + [gv], expect_unsat=True, on_model=on_model),
                 dict(name=f"{cname}:samples_belong_to_their_family", desc="a sample's name is not its family's name (the TYPE line before it) plus a suffix that type allows, or a family has two TYPE lines "
                      "(outside the known unit-suffix mechanism)", bounds=bounds, cons=base + [fv, z3.Not(k5)], expect_unsat=True, on_model=on_model),
                 dict(name=f"{cname}:value_is_the_stored_value", desc="the value on the sample line is not the stored value: a counter not printed as its u64, or a gauge printed in a form that does not parse back to the same f64",
                      bounds=bounds + "; the value any u64 / any f64 bit pattern", cons=base + [vv, z3.Not(k5)], expect_unsat=True, on_model=on_model),
                 dict(name=f"{cname}:K5_unit_suffix_after_family_name", desc="known finding K5: with unit suffixes enabled and a described unit, sample names get `_<unit>` appended (after the type suffix) while "
                      "the HELP/TYPE lines keep the bare name", bounds=bounds, cons=base + [fv, k5], expect_unsat=True, on_model=on_model, known="C08:K5-unit-suffix-not-in-family-name")]
        res = check.discharge_many(e3.res, specs, 120)
        for (ob, q), sp in zip(res, specs):
            if sp.get("known") and ob.status == "violation":
                ob.known_key = sp["known"]
                ob.status = "known" if ob.reproduced else "error"


def label_pair_ok(items):
    """one rendered label: name="escaped value" """
    def step(st, c):
        is_ = lambda ch: MS.is_ch(c, ch)
        rows = [(0, MS.name_start(c, False), 1), (1, MS.name_char(c, False), 1), (1, is_("="), 2), (2, is_('"'), 3),
                (3, is_("\\"), 4), (3, is_('"'), 5), (3, is_("\n"), BAD), (3, z3.BoolVal(True), 3),
                (4, z3.Or(is_("\\"), is_('"'), is_("n")), 3)]
        return MS.table(st, rows, BAD)
    return MS.run_dfa(items, 0, step, lambda st, cls: z3.IntVal(BAD), BAD) == 5


def _clone_map(eng, ctx, v):
    """clone of an IndexMap, or Option<&IndexMap>::cloned()"""
    w = v
    if isinstance(w, Enum) and w.name == "Option":
        if isinstance(w.discr, int) and w.discr == 0:
            return w
        inner = MC.load(eng, ctx, w.v[1].f[0])
        return Enum(w.discr, {1: Agg({0: MC.deep_copy(ctx, inner)})}, "Option")
    return MC.deep_copy(ctx, MC.load(eng, ctx, w))


def key_parts(e3, thorough):
    """key_to_parts: name and every rendered label are well-formed for every key / global label set of the given shape"""
    P = _e3.program(["metrics-exporter-prometheus", "metrics"])
    b = P.find_fn("key_to_parts")
    shapes = [(1, 0, 0), (1, 0, 1), (1, 1, 0), (1, 2, 0), (1, 1, 1), (1, 2, 1), (1, 0, 2)] if not thorough else [(2, 0, 0), (1, 0, 1), (1, 0, 2), (2, 1, 0), (1, 2, 0), (2, 1, 1), (1, 2, 1), (1, 2, 2), (2, 0, 2)]
    for (nn, nl, ng) in shapes:
        nm, base = fresh_chars("n", nn)
        labels = []
        for i in range(nl):
            k, bk = fresh_chars(f"k{i}_", 1)
            v, bvv = fresh_chars(f"v{i}_", 1)
            base += bk + bvv
            labels.append(Native("label", (MS.sstr(k), MS.sstr(v))))
        glob = []
        for i in range(ng):
            k, bk = fresh_chars(f"gk{i}_", 1)
            v, bvv = fresh_chars(f"gv{i}_", 1)
            base += bk + bvv
            glob.append((MS.sstr(k), MS.sstr(v)))
        # the builder stores global labels in an IndexMap: their keys are pairwise different
        for i in range(ng):
            for j in range(i + 1, ng):
                base.append(z3.Not(MS.text_eq(glob[i][0].data, glob[j][0].data)))
        key = Native("key", (MS.sstr(nm), tuple(labels)))
        # IndexMap<String, String> by the general keyed-container model (entries in insertion order, symbolic key equality): whatever map
        # operations the code uses (insert, entry, get, iter, extend ...) are followed
        extra = dict(MS.FMT)
        extra.update(MC.COLL)
        extra.update({
            r"^<(IndexMap|HashMap) as Clone>::clone$|(^|::)Option::cloned$": lambda eng, ctx, f, path, args, dty: _clone_map(eng, ctx, args[0]),
            r"^Key::name$": lambda eng, ctx, f, path, args, dty: MS._load(eng, ctx, args[0]).data[0],
            r"^Key::labels$": lambda eng, ctx, f, path, args, dty: Native("liter", (MS._load(eng, ctx, args[0]).data[1], 0)),
            r"^Label::key$": lambda eng, ctx, f, path, args, dty: MS._load(eng, ctx, args[0]).data[0],
            r"^Label::value$": lambda eng, ctx, f, path, args, dty: MS._load(eng, ctx, args[0]).data[1],
        })
        garg = Enum(1, {1: Agg({0: Ptr(("static", "globals"))})}, "Option") if ng else Enum(0, {}, "Option")
        eng = engine(P, extra)
        ctx0 = sym.Ctx(eng, 1)
        ctx0.statics = {"buf": MS.sstr(), "key": key}
        ctx0.statics["globals"] = MC.kmap(tuple((k, MC.new_cell(ctx0, v, "gl")) for k, v in glob))

        def script():
            r = yield ("call", b, [Ptr(("static", "key")), garg])
            return r
        leaves = eng.run_script(1, "key_to_parts", script, ctx0=ctx0)
        e3.absorb(eng)
        done = [l for l in leaves if l.status == "done"]
        other = z3.Or(*[l.taken() for l in leaves if l.status != "done"] or [z3.BoolVal(False)])
        bad = []
        for l in done:
            r = l.ret
            ok = []
            try:
                name_items = r.f[0].data
                labs = r.f[1].data
                ok.append(name_dfa(name_items, True))
                for lb in labs:
                    ok.append(label_pair_ok(lb.data))
            except (AttributeError, KeyError, TypeError):
                bad.append(l.taken())
                continue
            bad.append(z3.And(l.taken(), z3.Not(z3.And(*ok))))
        ovr = []
        if nl >= 1 and ng >= 1:
            # a key label whose (raw) name equals a global label's name overrides it: one label for that name, carrying the key's value
            kname, kval = labels[0].data[0].data[0], labels[0].data[1].data[0]
            gname, gval = glob[0][0].data[0], glob[0][1].data[0]
            plain = lambda c: z3.Or(z3.And(z3.UGE(c, bv(ord("a"), 32)), z3.ULE(c, bv(ord("z"), 32))))
            pre = z3.And(kname == gname, plain(kname), plain(kval), plain(gval), kval != gval)
            if nl == 2:
                pre = z3.And(pre, labels[1].data[0].data[0] != kname)
            for l in done:
                try:
                    labs = l.ret.f[1].data
                except (AttributeError, KeyError):
                    continue
                hits = []
                for lb in labs:
                    it = lb.data
                    if len(it) == 5 and not any(isinstance(x, tuple) for x in it):
                        hits.append((it[0] == kname, it[3]))
                    else:
                        hits.append((z3.BoolVal(False), bv(0, 32)))
                n_named = z3.Sum(*[z3.If(h, 1, 0) for h, v in hits] + [z3.IntVal(0), z3.IntVal(0)])
                val_ok = z3.And(*[z3.Implies(h, v == kval) for h, v in hits]) if hits else z3.BoolVal(True)
                ovr.append(z3.And(l.taken(), pre, z3.Not(z3.And(n_named == 1, val_ok))))
        cname = f"c08_key_to_parts_n{nn}_l{nl}_g{ng}"
        bounds = (f"key_to_parts: metric name of {nn} character(s), {nl} key label(s) and {ng} global label(s) with keys and values of 1 character each, "
                  f"every character any Unicode scalar value (so keys may coincide, before or after sanitisation); {len(done)} paths")

        def on_model(ob, model, nm=nm, labels=labels, glob=glob):
            ch = lambda t: chr(model.eval(t, model_completion=True).as_long())
            row = {"name": "".join(ch(c) for c in nm), "labels": [("".join(ch(c) for c in lb.data[0].data), "".join(ch(c) for c in lb.data[1].data)) for lb in labels],
                   "global_labels": [("".join(ch(c) for c in k.data), "".join(ch(c) for c in v.data)) for k, v in glob]}
            ob.sample = row
            inputs = {"nn": len(nm), "nl": len(labels), "ng": len(glob)}
            for i, c in enumerate(row["name"]):
                inputs[f"n{i}"] = ord(c)
            for i, (k, v) in enumerate(row["labels"]):
                inputs[f"k{i}"], inputs[f"v{i}"] = ord(k), ord(v)
            for i, (k, v) in enumerate(row["global_labels"]):
                inputs[f"gk{i}"], inputs[f"gv{i}"] = ord(k), ord(v)
            replay_native(ob, "c08_key_to_parts", ob.name.split(":")[1], inputs)
        specs = [dict(name=f"{cname}:witness", desc="returns", bounds=bounds, cons=base + [z3.Or(*[l.taken() for l in done] or [z3.BoolVal(False)])], expect_unsat=False),
                 dict(name=f"{cname}:returns", desc="panics or does not return", bounds=bounds, cons=base + [other], expect_unsat=True, on_model=on_model),
                 dict(name=f"{cname}:name_and_labels_well_formed", desc="the sanitized name or a rendered label `key=\"value\"` is not well-formed (bad label name, raw quote/newline or stray backslash in the value)",
                      bounds=bounds, cons=base + [z3.Or(*bad) if bad else z3.BoolVal(False)], expect_unsat=True, on_model=on_model)]
        if ovr:
            specs.append(dict(name=f"{cname}:key_label_overrides_global_label", desc="a key label with the same name as a global label does not replace it (the name appears twice, or with the global value)",
                              bounds=bounds + "; the shared name and both values plain lower-case letters", cons=base + [z3.Or(*ovr)], expect_unsat=True, on_model=on_model))
        check.discharge_many(e3.res, specs, 120)


def replay_native(ob, scen, pname, inputs):
    import replay_e3
    os.makedirs(os.path.join(REPLAYS, "C08"), exist_ok=True)
    pp = os.path.join(REPLAYS, "C08", f"{ob.name.replace(':', '.')}.plan")
    open(pp, "w").write(replay_e3.plan_text(scen, pname, {}, [], inputs))
    status, out = replay_e3.run("c08", pp)
    ob.detail += f" | native replay (c08): {status}"
    if isinstance(ob.sample, dict):
        ob.sample["native_replay"] = {"status": status, "output": out[-500:]}
    ob.replay = pp
    ob.reproduced = status == "reproduced"
    if not ob.reproduced:
        ob.status = "error"
        ob.detail += " — counterexample did NOT reproduce natively: treated as an encoder/model problem, not reported as a violation"


def run(tier, seed, t0):
    e3 = _e3.E3("C08")
    thorough = tier == "thorough"
    for nm, fn, arg in (("c08_sanitize_names", sanitize_names, 4 if thorough else 3), ("c08_escaping", escaping, 5 if thorough else 4), ("c08_key_to_parts", key_parts, thorough), ("c08_lines", lines, thorough), ("c08_render", render, thorough)):
        try:
            fn(e3, arg)
        except _e3.ENC_ERRORS as ex:
            e3.error(nm, "MIR->SMT encoding", ex)
    finish("C08", tier, seed, list(e3.res.obligations), t0, ASSUME + ["E3 callee models: " + ", ".join(sorted(e3.models))], sorted(e3.functions),
           explanation="MIR->SMT character-level encoding of the exporter's formatting functions against a strict exposition-format parser automaton")


def replay(path):
    import replay_e3
    status, out = replay_e3.run("c08", path)
    print(status, out)
    return 1 if status == "reproduced" else 0

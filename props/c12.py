"""C12 Idle metrics are dropped exactly when they were idle longer than the timeout."""
import re
import z3
from common import *
import kani, _kprop, _e3
from mirsmt import sym, conc, models, models_map, check
from mirsmt.sym import Ptr, Agg, Enum, Native, Fork, UNIT, bv, Opaque

FUNCS_E1 = ["metrics_util::registry::recency::Generational::{with_increment,get_generation}", "<Generational<T> as CounterFn/GaugeFn/HistogramFn>::*", "GenerationalStorage::{counter,gauge}"]
HARNESSES = [kani.H("c12_generational", "every update through a Generational handle changes the generation after applying the update (also when the value is unchanged); reads do not; generations are per metric", "3 symbolic steps", 300, functions=FUNCS_E1)]
ASSUME = ["E3: std HashMap modelled as a finite association per map object and abstract key (trusted: a map for keys with coherent Eq/Hash); Mutex lock = identity (sequential); quanta Clock::now = arbitrary non-decreasing instant; Instant - Instant and Duration > Duration as unsigned 64-bit arithmetic",
          "E3: Registry::delete_* returns an arbitrary truth value and is recorded as an observation",
          "E3 bounds: one key, up to 3 observations over the kinds; arbitrary generations, instants, timeout and mask",
          "Prometheus side (props/prom_int.py): the recorder built by the real builder, Inner::get_recent_metrics with the real Recency and the real distribution map; registry, bucket, key_to_parts and the sketch are abstract (see that file)"]

KIND = {"counter": 0, "gauge": 1, "histogram": 2}


def mk_engine(P, abstract_maps=True):
    m = dict(models_map.MAP_MODELS) if abstract_maps else {}
    m.update({
        r"Mutex::lock$": lambda eng, ctx, f, path, args, dty: Enum(0, {0: Agg({0: args[0]})}, "Result"),
        r"^Result::unwrap_or_else$": lambda eng, ctx, f, path, args, dty: sym_payload(eng, ctx, args[0]),
        r"MutexGuard as DerefMut>::deref_mut$": lambda eng, ctx, f, path, args, dty: eng.load_ptr(ctx, args[0]),
        r"Clock::now$": lambda eng, ctx, f, path, args, dty: ctx.statics["now"],
        r"Generation as PartialEq>::eq$": lambda eng, ctx, f, path, args, dty: eng.load_ptr(ctx, args[0]).f[0] == eng.load_ptr(ctx, args[1]).f[0],
        r"Instant as Sub>::sub$": lambda eng, ctx, f, path, args, dty: args[0] - args[1],
        r"Duration as PartialOrd>::gt$": lambda eng, ctx, f, path, args, dty: _gt(eng.load_ptr(ctx, args[0]), eng.load_ptr(ctx, args[1])),
        r"as Clone>::clone$": lambda eng, ctx, f, path, args, dty: eng.load_ptr(ctx, args[0]),
        r"Registry::delete_(counter|gauge|histogram)$": m_delete,
    })
    m.update(models.BASE)
    return sym.Engine(P, models=m)


def _gt(a, b):
    return a > b if z3.is_int(a) else z3.UGT(a, b)


def sym_payload(eng, ctx, r):
    return r.v[0].f[0]


def m_delete(eng, ctx, f, path, args, dty):
    kind = path.split("delete_")[1].split("(")[0].split(":")[0]
    ctx.observe("delete", kind=kind)
    return ctx.statics["del_result"]


def run_steps(e3, name, steps, pre_present=None, desc=""):
    """steps: list of kind names observed in sequence on one key. Returns (eng, leaves, vars)"""
    P = _e3.program(["metrics-util"])
    eng = mk_engine(P)
    bodies = {k: P.find("Recency", f"should_store_{k}") for k in KIND}
    V = {"timeout": z3.BitVec("timeout", 64), "mask": z3.BitVec("mask", 8), "has_timeout": z3.Bool("has_timeout"),
         "g0": z3.BitVec("g0", 64), "s0": z3.BitVec("s0", 64), "present0": z3.Bool("present0")}
    for i in range(len(steps)):
        V[f"gen{i}"] = z3.BitVec(f"gen{i}", 64)
        V[f"now{i}"] = z3.BitVec(f"now{i}", 64)
        V[f"del{i}"] = z3.Bool(f"del{i}")
    present0 = V["present0"] if pre_present is None else pre_present

    def script():
        rets = []
        for i, k in enumerate(steps):
            yield ("setstatic", "now", V[f"now{i}"])
            yield ("setstatic", "del_result", V[f"del{i}"])
            r = yield ("call", bodies[k], [Ptr(("static", "recency")), Ptr(("static", "key")), Agg({0: V[f"gen{i}"]}), Native("registry", None)])
            rets.append(r)
        return rets
    ctx0 = sym.Ctx(eng, 1)
    entry = {"present": present0, "val": Agg({0: Agg({0: V["g0"]}), 1: V["s0"]})}
    # layout of the bookkeeping as the current source declares it: one map, or one map per kind
    per_kind = any(re.search(r"Mutex<\((quanta::)?Clock, \[", t) for n, b in P.bodies.items() if "recency.rs" in n and n.endswith("should_store") for t in b.locals.values())
    V["per_kind"] = per_kind
    if per_kind:
        maps = Agg({i: models_map.new_map({1: {"present": present0, "val": Agg({0: Agg({0: V["g0"]}), 1: V["s0"]})}}) for i in range(3)})
    else:
        maps = models_map.new_map({1: entry})
    ctx0.statics = {
        "key": Native("key", 1),
        "recency": Agg({0: Agg({0: V["mask"]}), 1: Agg({0: Opaque("clock"), 1: maps}),
                        2: Enum(z3.If(V["has_timeout"], bv(1), bv(0)), {1: Agg({0: V["timeout"]})}, "Option")}),
        "now": bv(0), "del_result": z3.BoolVal(False),
    }
    leaves = eng.run_script(1, name, script, ctx0=ctx0)
    return eng, leaves, V


def obs_guard(leaves, label, kind=None):
    """condition: some observation `label` (of the given kind) happened"""
    conds = []
    seen = set()
    for l in leaves:
        for lab, e, pay in l.obs:
            if lab == label and e.id not in seen and (kind is None or pay.get("kind") == kind):
                seen.add(e.id)
                conds.append(e.guard)
    return conds


def final_entry(leaves, kind_index=0):
    """(present, gen, instant) of the tracked key (in the map of the given kind) after the run, merged over leaves"""
    pres, gen, inst = z3.BoolVal(False), bv(0), bv(0)
    for l in leaves:
        if l.status != "done":
            continue
        m = l.ctx.statics["recency"].f[1].f[1]
        if isinstance(m, Agg):
            m = m.f[kind_index]
        e = m.data[1]
        p = z3.BoolVal(e["present"]) if isinstance(e["present"], bool) else e["present"]
        pres = z3.If(l.taken(), p, pres)
        if e["val"] is not None:
            gen = z3.If(l.taken(), e["val"].f[0].f[0], gen)
            inst = z3.If(l.taken(), e["val"].f[1], inst)
    return pres, gen, inst


def ret_of(leaves, i):
    out = z3.BoolVal(True)
    for l in leaves:
        if l.status == "done":
            r = l.ret[i]
            out = z3.If(l.taken(), r if z3.is_expr(r) else z3.BoolVal(bool(r)), out)
    return out


def one_step_table(e3, kind):
    name = f"c12_step_{kind}"
    eng, leaves, V = run_steps(e3, name, [kind])
    e3.absorb(eng)
    done = z3.Or(*[l.taken() for l in leaves if l.status == "done"])
    bit = {"counter": 1, "gauge": 2, "histogram": 4}[kind]
    covered = z3.And(V["has_timeout"], (V["mask"] & bit) != 0)
    assume = [z3.UGE(V["now0"], V["s0"])]
    same_gen = V["g0"] == V["gen0"]
    idle = z3.UGT(V["now0"] - V["s0"], V["timeout"])
    should_delete = z3.And(covered, V["present0"], same_gen, idle)
    deleted = z3.Or(*obs_guard(leaves, "delete", kind)) if obs_guard(leaves, "delete", kind) else z3.BoolVal(False)
    wrong_kind = [g for k in KIND if k != kind for g in obs_guard(leaves, "delete", k)]
    ndel = z3.IntVal(0)
    for g in obs_guard(leaves, "delete", kind):
        ndel = ndel + z3.If(g, 1, 0)
    ret = ret_of(leaves, 0)
    pres, gen, inst = final_entry(leaves, KIND[kind])
    others_untouched = z3.BoolVal(True)
    if V["per_kind"]:
        for k2, i2 in KIND.items():
            if k2 != kind:
                p2, g2, s2 = final_entry(leaves, i2)
                others_untouched = z3.And(others_untouched, p2 == V["present0"], z3.Implies(p2, z3.And(g2 == V["g0"], s2 == V["s0"])))
    specs = [
        ("witness", "some input reaches the deletion branch", assume + [done, deleted], False),
        ("no_panic_no_unwound", "the call can panic or exceed the loop bound", assume + [z3.Or(*[l.taken() for l in leaves if l.status != "done"] or [z3.BoolVal(False)])], True),
        ("deletes_iff_idle_longer_than_timeout_with_unchanged_generation", "delete is attempted although the metric was updated / not idle long enough / kind not covered, or not attempted although it should be",
         assume + [done, deleted != should_delete], True),
        ("deletes_only_its_own_kind_and_once", "deletion of another kind, or more than one deletion", assume + [done, z3.Or(ndel > 1, *(wrong_kind or [z3.BoolVal(False)]))], True),
        ("kept_metric_is_reported_kept", "returns false (drop from output) without a successful deletion, or true after one",
         assume + [done, ret != z3.Not(z3.And(should_delete, V["del0"]))], True),
        ("bookkeeping_of_other_kinds_untouched", "an observation of one kind changes the bookkeeping of another kind under the same key", assume + [done, z3.Not(others_untouched)], True),
        ("bookkeeping_after_the_observation", "entry after the call is not what the rule requires (fresh/changed: (gen, now); unchanged and kept: untouched; deleted: gone; uncovered: untouched)",
         assume + [done, z3.Not(z3.If(z3.Not(covered), z3.And(pres == V["present0"], z3.Implies(pres, z3.And(gen == V["g0"], inst == V["s0"]))),
                                z3.If(z3.Or(z3.Not(V["present0"]), z3.Not(same_gen)), z3.And(pres, gen == V["gen0"], inst == V["now0"]),
                                      z3.If(z3.And(idle, V["del0"]), z3.Not(pres), z3.And(pres, gen == V["g0"], inst == V["s0"])))))], True),
    ]
    bounds = f"one {kind} observation from an arbitrary entry state (present/absent, any generation, any instant <= now), any timeout, mask, delete outcome"
    out = check.discharge_many(e3.res, [dict(name=f"{name}:{n}", desc=d, bounds=bounds, cons=c, expect_unsat=u) for n, d, c, u in specs], 120)
    out[0][0].functions = sorted(eng.functions_executed)
    return out


def two_kinds_history(e3):
    """the same key registered under two kinds: counter observed, gauge observed (changed), counter observed again"""
    name = "c12_counter_gauge_counter"
    eng, leaves, V = run_steps(e3, name, ["counter", "gauge", "counter"], pre_present=False)
    e3.absorb(eng)
    done = z3.Or(*[l.taken() for l in leaves if l.status == "done"])
    assume = [V["has_timeout"], V["mask"] == 7, z3.ULE(V["now0"], V["now1"]), z3.ULE(V["now1"], V["now2"]),
              V["gen0"] == V["gen2"], z3.ULT(V["gen0"], 4), z3.ULT(V["gen1"], 4), z3.ULT(V["now2"], 1 << 40), z3.ULT(V["timeout"], 1 << 40),
              V["del0"], V["del1"], V["del2"]]
    idle = z3.UGT(V["now2"] - V["now0"], V["timeout"])
    dels = obs_guard(leaves, "delete", "counter")
    deleted = z3.Or(*dels) if dels else z3.BoolVal(False)
    gdel = obs_guard(leaves, "delete", "gauge")
    specs = [
        ("witness", "the history is executable", assume + [done], False),
        ("counter_idle_clock_is_not_reset_by_the_gauge", "a counter unchanged since an observation made more than the timeout ago is not dropped (or is dropped early) because a gauge under the same key was observed in between",
         assume + [done, deleted != idle], True),
        ("gauge_is_not_dropped_by_the_counter_history", "the gauge (first observation) is deleted", assume + [done, z3.Or(*gdel) if gdel else z3.BoolVal(False)], True),
    ]
    bounds = "history counter@t0, gauge@t1, counter@t2 on one key, arbitrary t0<=t1<=t2, timeout, generations < 4"
    inputs = {k: V[k] for k in ("now0", "now1", "now2", "gen0", "gen1", "gen2", "timeout")}

    def on_model(ob, model):
        import replay_e3
        vals = {k: model.eval(t, model_completion=True).as_long() for k, t in inputs.items()}
        ob.sample = {"scenario": name, "inputs": vals}
        os.makedirs(os.path.join(REPLAYS, "C12"), exist_ok=True)
        pp = os.path.join(REPLAYS, "C12", name + ".plan")
        open(pp, "w").write(replay_e3.plan_text(name, "counter_idle_clock_is_not_reset_by_the_gauge", {}, [], vals))
        status, out = replay_e3.run("c12", pp)
        ob.detail += f" | native replay (c12): {status}"
        ob.sample["native_replay"] = {"status": status, "output": out[-400:]}
        ob.replay = pp
        ob.reproduced = status == "reproduced"
        if not ob.reproduced:
            ob.status = "error"
    out = check.discharge_many(e3.res, [dict(name=f"{name}:{n}", desc=d, bounds=bounds, cons=c, expect_unsat=u, on_model=(on_model if n.startswith("counter_idle") else None)) for n, d, c, u in specs], 120)
    return out


def history(e3, kinds):
    """A usage history on one key, independent of how Recency lays out its bookkeeping: Recency::new(clock, mask, timeout), then one
    observation per step of the metric of the given kind. Between observations the metric received u_i in {0,1,2} updates and dt_i time
    passed; a metric that was dropped is registered again before its next observation (generation restarts at the number of updates).
    Reference (the property): an observation drops the metric iff the kind is covered and the metric is unchanged since an earlier
    observation of it made more than the timeout ago; everything else is kept."""
    P = _e3.program(["metrics-util"])
    eng = mk_engine(P, abstract_maps=False)       # std HashMap by the general keyed-container model (concrete entries, symbolic contents)
    eng.models[r"Mutex::new$"] = models.m_identity
    name = "c12_history_" + "".join(k[0] for k in kinds)
    n = len(kinds)
    bodies = {k: P.find("Recency", f"should_store_{k}") for k in KIND}
    new_b = P.find("Recency", "new")
    # instants, durations and generations as mathematical integers (exact: the values are bounded far below 2^64, nothing wraps)
    mask, has_timeout, timeout = z3.BitVec("mask", 8), z3.Bool("has_timeout"), z3.Int("timeout")
    upd = [z3.Int(f"updates{i}") for i in range(n)]
    dt = [z3.Int(f"dt{i}") for i in range(n)]
    bv = z3.IntVal
    assume = [z3.And(u >= 0, u <= 2) for u in upd] + [z3.And(d >= 0, d < (1 << 40)) for d in dt] + [timeout >= 0, timeout < (1 << 40), z3.ULE(mask, 7)]
    now = []
    t = bv(0)
    for i in range(n):
        t = t + dt[i]
        now.append(t)
    # reference model + the generation each observation presents (depends on the reference's own drops: a dropped metric is re-registered)
    ref_ret, gens = [], []
    st = {k: (z3.BoolVal(False), bv(0), bv(0)) for k in KIND}          # tracked?, generation at the last change seen, time of that observation
    cur = {k: bv(0) for k in KIND}                                      # current generation of the live metric
    for i, k in enumerate(kinds):
        bit = {"counter": 1, "gauge": 2, "histogram": 4}[k]
        covered = z3.And(has_timeout, (mask & bit) != 0)
        g = cur[k] + upd[i]
        gens.append(g)
        tracked, lg, lt = st[k]
        unchanged = z3.And(tracked, lg == g)
        drop = z3.And(covered, unchanged, now[i] - lt > timeout)
        ref_ret.append(z3.Not(drop))
        fresh = z3.And(covered, z3.Not(unchanged))
        st[k] = (z3.If(drop, z3.BoolVal(False), z3.Or(tracked, covered)), z3.If(fresh, g, lg), z3.If(fresh, now[i], lt))
        cur[k] = z3.If(drop, bv(0), g)

    def script():
        r = yield ("call", new_b, [Opaque("clock"), Agg({0: mask}), Enum(z3.If(has_timeout, z3.BitVecVal(1, 64), z3.BitVecVal(0, 64)), {1: Agg({0: timeout})}, "Option")])
        yield ("setstatic", "recency", r)
        yield ("setstatic", "del_result", z3.BoolVal(True))
        rets = []
        for i, k in enumerate(kinds):
            yield ("setstatic", "now", now[i])
            r = yield ("call", bodies[k], [Ptr(("static", "recency")), Ptr(("static", "key")), Agg({0: gens[i]}), Native("registry", None)])
            rets.append(r)
        return rets
    ctx0 = sym.Ctx(eng, 1)
    ctx0.statics = {"key": Native("key", 1), "now": bv(0), "del_result": z3.BoolVal(True)}
    eng.max_paths = 4000
    leaves = eng.run_script(1, name, script, ctx0=ctx0)
    e3.absorb(eng)
    done = [l for l in leaves if l.status == "done"]
    other = z3.Or(*[l.taken() for l in leaves if l.status != "done"] or [z3.BoolVal(False)])
    wrong = []
    for l in done:
        for i in range(n):
            r = l.ret[i]
            r = r if z3.is_expr(r) else z3.BoolVal(bool(r))
            wrong.append(z3.And(l.taken(), r != ref_ret[i]))
        # a drop is a registry deletion of exactly that kind at exactly that step
        dels = [(e.guard, pl.get("kind"), e.id) for lab, e, pl in l.obs if lab == "delete"]
        nd = z3.IntVal(0)
        for g_, kk, _ in dels:
            nd = nd + z3.If(g_, 1, 0)
        want_n = z3.Sum(*[z3.If(rr, 0, 1) for rr in ref_ret]) if n > 1 else z3.If(ref_ret[0], 0, 1)
        wrong.append(z3.And(l.taken(), nd != want_n))
    bounds = (f"Recency::new(clock, mask, timeout) then observations of one key as {', '.join(kinds)}; before each: 0..2 updates and any time step; any mask, timeout (or none); "
              f"a dropped metric is registered again before its next observation; {len(done)} paths")
    vals = {"mask": mask, "timeout": timeout}
    for i in range(n):
        vals[f"upd{i}"] = upd[i]
        vals[f"dt{i}"] = dt[i]

    def on_model(ob, model):
        import replay_e3
        v = {k: model.eval(t_, model_completion=True).as_long() for k, t_ in vals.items()}
        v["has_timeout"] = int(z3.is_true(model.eval(has_timeout, model_completion=True)))
        v["n"] = n
        for i, k in enumerate(kinds):
            v[f"kind{i}"] = KIND[k]
        ob.sample = {"scenario": name, "inputs": v}
        os.makedirs(os.path.join(REPLAYS, "C12"), exist_ok=True)
        pp = os.path.join(REPLAYS, "C12", name + "." + ob.name.split(":")[1] + ".plan")
        open(pp, "w").write(replay_e3.plan_text("c12_history", ob.name.split(":")[1], {}, [], v))
        status, out = replay_e3.run("c12", pp)
        ob.detail += f" | native replay (c12, real Registry + Recency + mock clock): {status}"
        ob.sample["native_replay"] = {"status": status, "output": out[-400:]}
        ob.replay = pp
        ob.reproduced = status == "reproduced"
        if not ob.reproduced:
            ob.status = "error"
    specs = [dict(name=f"{name}:witness", desc="the history is executable and some metric is dropped", bounds=bounds, cons=assume + [z3.Or(*[l.taken() for l in done] or [z3.BoolVal(False)]), z3.Not(z3.And(*ref_ret))], expect_unsat=False),
             dict(name=f"{name}:returns", desc="an observation panics", bounds=bounds, cons=assume + [other], expect_unsat=True, on_model=on_model),
             dict(name=f"{name}:dropped_exactly_when_idle_longer_than_the_timeout", desc="an observation keeps a metric that is unchanged since an earlier observation made more than the timeout ago, drops one that was updated / "
                  "not idle long enough / of an uncovered kind / freshly re-registered, or deletes the wrong number of registry entries", bounds=bounds, cons=assume + [z3.Or(*wrong)], expect_unsat=True, on_model=on_model)]
    check.discharge_many(e3.res, specs, 300)


_K = {"c": "counter", "g": "gauge", "h": "histogram"}
HIST_QUICK = [[_K[c] for c in w] for w in ("cccc", "cgcg", "gcgc", "cgcc", "hhh", "chhc", "ghgh")]
import itertools
HIST_THOROUGH = [[_K[c] for c in w] for w in ("".join(p) for p in itertools.product("cgh", repeat=4)) if [_K[c] for c in w] not in HIST_QUICK] + [[_K[c] for c in "ccccc"], [_K[c] for c in "cgcgc"]]


def run(tier, seed, t0):
    e3 = _e3.E3("C12")
    for hk in HIST_QUICK + (HIST_THOROUGH if tier == "thorough" else []):
        try:
            history(e3, hk)
        except _e3.ENC_ERRORS as ex:
            e3.error("c12_history_" + "".join(k[0] for k in hk), "MIR->SMT encoding of Recency::{new,should_store_*}", ex)
    try:
        for k in KIND:
            one_step_table(e3, k)
        two_kinds_history(e3)
    except _e3.ENC_ERRORS as ex:
        # the decision tables start from an arbitrary *internal* state and therefore depend on the layout of Recency's bookkeeping;
        # on a tree with another layout they cannot be built (the histories above do not depend on it)
        o = Obligation("c12_step_tables", "mirsmt", "one observation from an arbitrary internal state (layout-dependent)")
        o.status, o.detail = "skipped", f"not applicable to this layout of Recency: {type(ex).__name__}: {ex}"
        e3.res.obligations.append(o)
        log(f"  [e3] c12_step_tables: skipped ({o.detail[:200]})")
    import prom_int
    for kind, ngl in ([("Histogram", 1), ("Counter", 0), ("Gauge", 1)] if tier == "quick" else [(k, g) for k in prom_int.KINDS for g in (0, 1)]):
        try:
            prom_int.scen_expiry(e3, "C12", "c12", kind, ngl)
        except _e3.ENC_ERRORS as ex:
            e3.error(f"c12_{kind.lower()}_expiry_gl{ngl}", "MIR->SMT integration encoding of the Prometheus recorder with an idle timeout", ex)
    obs = list(e3.res.obligations)
    obs += kani.run_group("util", HARNESSES, tier, hooks=True)
    finish("C12", tier, seed, obs, t0, ASSUME + ["E3 callee models: " + ", ".join(sorted(e3.models))], sorted(e3.functions) + FUNCS_E1,
           explanation="MIR->SMT sequential encoding of Recency::should_store_{counter,gauge,histogram} (decision table from an arbitrary state, two-kind history) + Kani harness for Generational")


def replay(path):
    if path.endswith(".vals"):
        return _kprop.replay(path)
    import replay_e3
    status, out = replay_e3.run("c12", path)
    print(status, out)
    return 1 if status == "reproduced" else 0

"""C06 The registry keeps exactly one storage per metric kind and key."""
import z3
from common import *
import _e3
from mirsmt import sym, conc, models, models_reg
from mirsmt.sym import Ptr, Agg, Enum, Native, Fork, UNIT, bv, Opaque

ASSUME = ["hashbrown's raw-entry API on a shard is modelled as one entry cell per abstract key plus the hash the entry is placed under: a lookup finds an entry iff it is stored and placed under the hash given "
          "(then keys are compared with Eq; from_hash runs the caller's predicate instead); an insertion may grow the table (solver's choice), which re-places every entry under the map's own hash of its key; "
          "the hashes of different keys are arbitrary and may collide (the registry is generic over Hashable keys); C03 checks Eq/hash coherence for Key",
          "std RwLock modelled as a lock word with await semantics (readers count / writer bit), acquire on lock and release on unlock; lock poisoning outside the claim",
          "keys are abstract identities: equal keys (however they were built) are one identity; the hash of a key is an arbitrary value fixed per identity; 2 shards",
          "visit_*, retain_*, clear and get_*_handles: sequential histories (one thread, at quiescence) from an arbitrary well-formed registry; a whole-map operation racing other threads is not covered (the documentation of visit_* promises nothing for it)",
          "sequential consistency + release/acquire race relation on the entry cells"]
KINDS = ["counter", "gauge", "histogram"]


MAP_HASHER_IS_KEY_HASHER = [True]


def build(ops, name, loop_bound=2, keep=None):
    """ops: list of threads; each thread is a list of (opname, kind, keyid). opname in get_or_create | delete | get, and the whole-map
    operations visit | handles | retain (kind given, key None) and clear (kind and key None); `keep`: the predicate given to retain"""
    P = _e3.program(["metrics-util"])
    m = dict(models_reg.REG_MODELS)
    hashes = {}

    def m_hashable(eng, ctx, f, path, args, dty):
        kid = models_reg.key_of(eng, ctx, args[0])
        return hashes.setdefault(kid, z3.BitVec(f"hash_k{kid}", 64))

    def m_storage(eng, ctx, f, path, args, dty):
        kind = path.split("::")[-1]
        oid = ctx.alloc("Storage:" + kind, {(): (64, bv(0))})
        ctx.observe("create", kind=kind, obj=oid)
        return Ptr(("obj", oid))
    m[r"as (common::)?Hashable>::hashable$"] = m_hashable
    m[r"as (registry::storage::)?Storage>::(counter|gauge|histogram)$"] = m_storage
    m[r"^Option::map$"] = lambda eng, ctx, f, path, args, dty: args[0]      # get_*: clone of the value — identity of the storage is what matters
    from mirsmt import models_str as MS_, models_std as STD_

    def m_into_iter(eng, ctx, f, path, args, dty):
        v = args[0]
        w = eng.load_ptr(ctx, v) if isinstance(v, Ptr) and v.root[0] in ("local", "static") else v
        if isinstance(w, Native) and w.kind == "shards":
            return models_reg.m_shards_iter(eng, ctx, f, path, [w], dty)
        if isinstance(w, Native) and w.kind == "shardmap":
            return models_reg.m_shard_iter(eng, ctx, f, path, [w], dty)
        if isinstance(w, Native) and w.kind == "liter":
            return w
        return STD_.m_vec_into_iter(eng, ctx, f, path, args, dty)
    m[r"^core::slice::(.*::)?iter$"] = models_reg.m_shards_iter
    m[r"as IntoIterator>::into_iter$"] = m_into_iter
    m[r"as Iterator>::next$"] = MS_.m_next
    m.update(models.BASE)
    eng = sym.Engine(P, models=m, loop_bound=loop_bound)
    c0 = sym.Ctx(eng, 0)
    eng.thread_names[0] = "setup"
    keyids = sorted({k for th in ops for (_, _, k) in th if k is not None})
    # placement hashes: under which hash an entry sits in its table. `Hashable::hashable()` gives hash_k; the map's own hasher gives the
    # same value iff the shard maps are declared with the key's hasher (BuildHasherDefault<KeyHasher>), otherwise an unrelated one
    other = z3.Function("map_own_hash", z3.IntSort(), z3.BitVecSort(64))
    eng.reg_keys = keyids
    eng.reg_hash = lambda k: hashes.setdefault(k, z3.BitVec(f"hash_k{k}", 64))
    eng.reg_maphash = (lambda k: eng.reg_hash(k)) if MAP_HASHER_IS_KEY_HASHER[0] else (lambda k: other(z3.IntVal(k)))
    shards = {}
    pre = {}
    for kind in KINDS:
        ids = []
        for s in range(2):
            init = {(0,): (64, bv(0))}
            for k in keyids:
                pre[(kind, s, k)] = z3.Int(f"pre_{kind}_{s}_k{k}")
                init[(("e", k),)] = ("ptr", pre[(kind, s, k)])
                init[(("ph", k),)] = (64, eng.reg_hash(k))          # an entry present initially was inserted under its key's hash
            ids.append(c0.alloc(f"Shard:{kind}:{s}", init))
        shards[kind] = ids
    eng.leaves[0] = [sym.Leaf(c0, "done")]
    registry = Agg({0: Native("shards", shards["counter"]), 1: Native("shards", shards["gauge"]), 2: Native("shards", shards["histogram"]), 3: bv(1), 4: Opaque("storage")})

    def op_cb(tid, idx):
        def cb(eng_, ctx, f, args):
            v = args[0]
            o = v.root[1]
            ctx.observe("op", obj=o, tid=tid, idx=idx)
            return z3.IntVal(o) if isinstance(o, int) else o
        return Native("callback", cb)
    bodies = {(o, k): P.find("Registry", f"{o}_{k}") for o in ("get_or_create", "delete", "get") for k in KINDS}
    for k in KINDS:
        bodies[("visit", k)] = P.find("Registry", f"visit_{k}s")
        bodies[("retain", k)] = P.find("Registry", f"retain_{k}s")
        bodies[("handles", k)] = P.find("Registry", f"get_{k}_handles")
    bodies[("clear", None)] = P.find("Registry", "clear")

    def visit_cb(tid, idx, kind):
        def cb(eng_, ctx, f, args):
            kk, vv = args[0], args[1]
            while isinstance(kk, Ptr):
                kk = eng_.load_ptr(ctx, kk)
            while isinstance(vv, Ptr) and vv.root[0] in ("local", "static"):
                vv = eng_.load_ptr(ctx, vv)
            o = vv.root[1]
            ctx.observe("visited", tid=tid, idx=idx, key=kk.data, obj=(z3.IntVal(o) if isinstance(o, int) else o))
            return keep(kk.data) if kind == "retain" else UNIT
        return Native("callback", cb)
    tids = []
    for t, th in enumerate(ops, start=1):
        def script(t=t, th=th):
            yield ("setstatic", "registry", registry)
            rets = []
            for i, (o, kind, k) in enumerate(th):
                yield ("setstatic", f"key{i}", Native("key", k))
                a = [Ptr(("static", "registry")), Ptr(("static", f"key{i}"))]
                if o == "get_or_create":
                    a.append(op_cb(t, i))
                if o in ("visit", "retain"):
                    a = [Ptr(("static", "registry")), visit_cb(t, i, o)]
                if o in ("handles", "clear"):
                    a = [Ptr(("static", "registry"))]
                r = yield ("call", bodies[(o, kind)], a)
                rets.append(r)
            return rets
        eng.run_script(t, f"t{t}:" + ",".join(f"{o}_{kd}(k{k})" if k is not None else f"{o}_{kd}" for o, kd, k in th), script)
        tids.append(t)
    sc = conc.Scenario(eng, name)
    for t in tids:
        sc.thread_order(0, t)
    sc.build()
    return P, eng, sc, shards, pre, hashes, tids


def obs_of(eng, label):
    out, seen = [], set()
    for ls in eng.leaves.values():
        for l in ls:
            for lab, e, pay in l.obs:
                if lab == label and e.id not in seen:
                    seen.add(e.id)
                    out.append((e, pay))
    return out


def scenario(e3, ops, name, fresh=True):
    P, eng, sc, shards, pre, hashes, tids = build(ops, name)
    assume = []
    # well-formed initial state: a key lives only in the shard its hash selects; storages of distinct (kind,key) are distinct objects
    for (kind, s, k), v in pre.items():
        if fresh:
            assume.append(v == 0)
        else:
            h = hashes.get(k, z3.BitVec(f"hash_k{k}", 64))
            assume.append(z3.Or(v == 0, z3.And(v >= 1000, (h & 1) == s)))
    if not fresh:
        vals = list(pre.items())
        for i, (ka, va) in enumerate(vals):
            for kb, vb in vals[i + 1:]:
                assume.append(z3.Or(va == 0, vb == 0, va != vb))
    creates = obs_of(eng, "create")
    opsobs = obs_of(eng, "op")
    bad_locks = obs_of(eng, "insert_without_write_lock") + obs_of(eng, "remove_without_write_lock")
    props = []
    # per (kind, key): if nothing was present and nobody deletes, exactly one storage is created and every op of that (kind,key) ran on it
    groups = {}
    for t, th in enumerate(ops, start=1):
        for i, (o, kind, k) in enumerate(th):
            groups.setdefault((kind, k), []).append((t, i, o))
    for (kind, k), lst in groups.items():
        goc = [(t, i) for t, i, o in lst if o == "get_or_create"]
        if not goc:
            continue
        has_delete = any(o == "delete" for _, _, o in lst)
        absent = z3.And(*[pre[(kind, s, k)] == 0 for s in range(2)])
        # creations of this kind performed by operations on this key = creates whose object some op of this (kind,key) observed or stored
        my_ops = [(e, pay) for e, pay in opsobs if (pay["tid"], pay["idx"]) in goc]
        ncreate = z3.IntVal(0)
        for e, pay in creates:
            if pay["kind"] == kind:
                # attribute the creation to this key: created by a thread/op of this group (creations happen inside get_or_create of the key)
                ncreate = ncreate + z3.If(e.guard, 1, 0)
        objs = [pay["obj"] if not isinstance(pay["obj"], int) else z3.IntVal(pay["obj"]) for e, pay in my_ops]
        guards = [e.guard for e, pay in my_ops]
        same = z3.And(*[z3.Implies(z3.And(guards[a], guards[b]), objs[a] == objs[b]) for a in range(len(objs)) for b in range(a + 1, len(objs))]) if len(objs) > 1 else z3.BoolVal(True)
        only_this_key = all(kk == k or kd != kind for (kd, kk) in groups)
        if not has_delete:
            props.append((f"one_storage_for_{kind}_k{k}", f"two get-or-create calls with equal keys operate on different {kind} storages",
                          z3.Not(same), None))
            if only_this_key:
                props.append((f"created_at_most_once_{kind}_k{k}", f"more than one {kind} storage is created for one key (or one is created although it was present)",
                              z3.Or(z3.And(absent, ncreate != 1), z3.And(z3.Not(absent), ncreate != 0)), None))
    # different keys / kinds never share a storage
    allops = [(e, pay) for e, pay in opsobs]
    share = []
    for a in range(len(allops)):
        for b in range(a + 1, len(allops)):
            (ea, pa), (eb, pb) = allops[a], allops[b]
            ka = ops[pa["tid"] - 1][pa["idx"]]
            kb = ops[pb["tid"] - 1][pb["idx"]]
            if (ka[1], ka[2]) != (kb[1], kb[2]):
                oa = pa["obj"] if not isinstance(pa["obj"], int) else z3.IntVal(pa["obj"])
                ob = pb["obj"] if not isinstance(pb["obj"], int) else z3.IntVal(pb["obj"])
                share.append(z3.And(ea.guard, eb.guard, oa == ob))
    if share:
        props.append(("different_keys_or_kinds_never_share_storage", "operations on different keys or kinds run on the same storage object", z3.Or(*share), None))
    # delete reports the truth (sequential single-thread scenarios)
    if len(ops) == 1:
        for i, (o, kind, k) in enumerate(ops[0]):
            if o == "delete" and all(x[0] != "get_or_create" for x in ops[0][:i] if (x[1], x[2]) == (kind, k)) and all(x[0] != "delete" for x in ops[0][:i] if (x[1], x[2]) == (kind, k)):
                present = z3.Or(*[pre[(kind, s, k)] != 0 for s in range(2)])
                ret = sc.leaf_ite(1, lambda l, i=i: l.ret[i] if z3.is_expr(l.ret[i]) else z3.BoolVal(bool(l.ret[i])), z3.BoolVal(False))
                props.append((f"delete_reports_existence_{kind}_k{k}", "delete returns true for an absent key or false for a present one", ret != present, None))
            if o == "get" and i > 0 and any(x[0] == "get_or_create" and (x[1], x[2]) == (kind, k) for x in ops[0][:i]) and not any(x[0] == "delete" and (x[1], x[2]) == (kind, k) for x in ops[0][:i]):
                rr = sc.leaf_ite(1, lambda l, i=i: eng.discr_is(l.ret[i].discr, 1), z3.BoolVal(False))
                props.append(("get_after_create_finds_the_storage", "get returns None for a key that was created and not deleted", z3.Not(rr), None))
            if o == "get" and i == 0:
                present = z3.Or(*[pre[(kind, s, k)] != 0 for s in range(2)])
                rr = sc.leaf_ite(1, lambda l, i=i: eng.discr_is(l.ret[i].discr, 1), z3.BoolVal(False))
                props.append((f"get_reports_existence_{kind}_k{k}", "get returns Some for an absent key or None for a present one", rr != present, None))
    if bad_locks:
        props.append(("mutations_only_under_the_write_lock", "a shard is modified while only the read lock is held", z3.Or(*[e.guard for e, _ in bad_locks]), None))
    race, extra = sc.race_condition()
    props.append(("no_data_race_on_shard_entries", "shard entries accessed without lock ordering", race, extra))
    props.append(("no_panic", "an operation can panic", sc.reach("panic"), None))
    props = [(n, d, v, (x or []) + assume) for n, d, v, x in props]
    roles = {t: " ".join(f"{o}:{kd}:{k}" for o, kd, k in ops[t - 1]) for t in tids}
    e3.standard(sc, eng, name, f"threads {roles}; 2 shards, arbitrary hashes; {'empty' if fresh else 'arbitrary well-formed'} initial registry; {sc.stats}", props, timeout=300,
                replayer=_e3.native_replayer("C06", "c06", roles, {}))


def listing(e3, ops, name):
    """one thread, an arbitrary well-formed initial registry, whole-map operations mixed with keyed ones: a listing reports exactly the
    live keys of its kind, each once, with their storage; retain keeps exactly the live keys the predicate accepts; clear empties every kind"""
    keep = z3.Function("retain_keeps_key", z3.IntSort(), z3.BoolSort())
    P, eng, sc, shards, pre, hashes, tids = build([ops], name, loop_bound=6, keep=lambda k: keep(z3.IntVal(k)))
    assume = []
    for (kind, s, k), v in pre.items():
        h = hashes.get(k, z3.BitVec(f"hash_k{k}", 64))
        assume.append(z3.Or(v == 0, z3.And(v >= 1000, (h & 1) == s)))
    vals = list(pre.items())
    for i, (ka, va) in enumerate(vals):
        for kb, vb in vals[i + 1:]:
            assume.append(z3.Or(va == 0, vb == 0, va != vb))
    keys = sorted({k for (_, _, k) in ops if k is not None})
    # live[(kind, k)]: condition "present" and the storage, tracked through the thread's own operations
    live = {(kind, k): (z3.Or(*[pre[(kind, s, k)] != 0 for s in range(2)]), z3.If(pre[(kind, 0, k)] != 0, pre[(kind, 0, k)], pre[(kind, 1, k)])) for kind in KINDS for k in keys}
    visited = obs_of(eng, "visited")
    opsobs = obs_of(eng, "op")
    props = []
    wrong_listing, wrong_after = [], []
    for i, (o, kind, k) in enumerate(ops):
        if o == "get_or_create":
            seen = [(e, pay) for e, pay in opsobs if pay["idx"] == i]
            was, obj = live[(kind, k)]
            newobj = z3.Int(f"storage_seen_by_op{i}")
            assume += [z3.Implies(e.guard, newobj == (pay["obj"] if not isinstance(pay["obj"], int) else z3.IntVal(pay["obj"]))) for e, pay in seen]
            live[(kind, k)] = (z3.BoolVal(True), z3.If(was, obj, newobj))
        elif o == "delete":
            live[(kind, k)] = (z3.BoolVal(False), z3.IntVal(0))
        elif o in ("visit", "retain", "handles"):
            for kk in keys:
                was, obj = live[(kind, kk)]
                if o == "handles":
                    # the returned map: a keyed container of the fallback library
                    def has(l, kk=kk):
                        m_ = l.ret[i]
                        return [(key, l.ctx.statics[cell]) for key, cell in m_.data if isinstance(key, Native) and key.data == kk]
                    n = sc.leaf_ite(1, lambda l: z3.IntVal(len(has(l))), z3.IntVal(-1))
                    right = sc.leaf_ite(1, lambda l, obj=obj: z3.And(*[(z3.IntVal(v_.root[1]) if isinstance(v_.root[1], int) else v_.root[1]) == obj for key, v_ in has(l)]) if has(l) else z3.BoolVal(True), z3.BoolVal(True))
                    wrong_listing.append(z3.Or(n != z3.If(was, 1, 0), z3.And(was, z3.Not(right))))
                else:
                    mine = [(e, pay) for e, pay in visited if pay["idx"] == i and pay["key"] == kk]
                    n = z3.Sum(*[z3.If(e.guard, 1, 0) for e, pay in mine], z3.IntVal(0))
                    right = z3.And(*[z3.Implies(e.guard, pay["obj"] == obj) for e, pay in mine]) if mine else z3.BoolVal(True)
                    wrong_listing.append(z3.Or(n != z3.If(was, 1, 0), z3.And(was, z3.Not(right))))
                if o == "retain":
                    live[(kind, kk)] = (z3.And(was, keep(z3.IntVal(kk))), obj)
        elif o == "clear":
            for key_ in list(live):
                live[key_] = (z3.BoolVal(False), z3.IntVal(0))
        elif o == "get":
            was, obj = live[(kind, k)]
            rr = sc.leaf_ite(1, lambda l, i=i: eng.discr_is(l.ret[i].discr, 1), z3.BoolVal(False))
            wrong_after.append(rr != was)
    props.append(("listing_reports_exactly_the_live_keys", "a visit / handle listing at quiescence misses a live key, reports one twice, reports a dead one, or pairs a key with another storage", z3.Or(*wrong_listing) if wrong_listing else z3.BoolVal(False), None))
    props.append(("get_after_retain_clear_delete_reports_existence", "after retain / clear / delete / get-or-create a get does not report exactly the keys that are live (retain keeps the live keys its predicate accepts, clear none)", z3.Or(*wrong_after) if wrong_after else z3.BoolVal(False), None))
    bad_locks = obs_of(eng, "insert_without_write_lock") + obs_of(eng, "remove_without_write_lock")
    if bad_locks:
        props.append(("mutations_only_under_the_write_lock", "a shard is modified while only the read lock is held", z3.Or(*[e.guard for e, _ in bad_locks]), None))
    props.append(("no_panic", "an operation can panic", sc.reach("panic"), None))
    props = [p_ for p_ in props if not z3.is_false(z3.simplify(p_[2]))]
    props = [(n, d, v, (x or []) + assume) for n, d, v, x in props]
    roles = {1: " ".join(f"{o}:{kd}:{k}" for o, kd, k in ops)}
    e3.standard(sc, eng, name, f"one thread {roles[1]}; 2 shards, arbitrary hashes, arbitrary well-formed initial registry over keys {keys}; the retain predicate is an uninterpreted function of the key; {sc.stats}", props, timeout=300,
                replayer=_e3.native_replayer("C06", "c06", roles, {f"keep{k}": z3.If(keep(z3.IntVal(k)), z3.IntVal(1), z3.IntVal(0)) for k in keys} | {f"pre_{kind}_{k}": z3.If(z3.Or(*[pre[(kind, s, k)] != 0 for s in range(2)]), z3.IntVal(1), z3.IntVal(0)) for kind in KINDS for k in keys}))


LISTINGS = [
    ([("get_or_create", "counter", 1), ("visit", "counter", None), ("get", "counter", 2)], "c06_list_goc_visit"),
    ([("get_or_create", "gauge", 2), ("handles", "gauge", None), ("delete", "gauge", 1), ("handles", "gauge", None)], "c06_list_handles_delete_handles"),
    ([("retain", "histogram", None), ("get", "histogram", 1), ("get", "histogram", 2), ("visit", "histogram", None)], "c06_list_retain_get_visit"),
    ([("get_or_create", "counter", 1), ("clear", None, None), ("get", "counter", 1), ("get", "gauge", 2), ("visit", "counter", None)], "c06_list_clear"),
    ([("get_or_create", "counter", 1), ("retain", "counter", None), ("get", "counter", 1), ("get", "counter", 2), ("handles", "counter", None), ("visit", "gauge", None)], "c06_list_retain_counters"),
]

SCEN = [
    ([[("get_or_create", "counter", 1), ("get_or_create", "counter", 2), ("get_or_create", "counter", 1), ("get", "counter", 1)]], "c06_seq_goc_k1_k2_k1", True),
    ([[("get_or_create", "counter", 1)], [("get_or_create", "counter", 1)]], "c06_goc_goc_same_key", True),
    ([[("get_or_create", "gauge", 1)], [("get_or_create", "gauge", 2)]], "c06_goc_goc_two_keys", True),
    ([[("get_or_create", "counter", 1)], [("get_or_create", "gauge", 1)]], "c06_goc_counter_gauge_same_key", True),
    ([[("get", "histogram", 1), ("delete", "histogram", 1), ("get_or_create", "histogram", 1), ("get_or_create", "histogram", 1)]], "c06_seq_get_delete_goc_goc", False),
]
SCEN_T = [
    ([[("get_or_create", "histogram", 1)], [("get_or_create", "histogram", 1)], [("get_or_create", "histogram", 1)]], "c06_goc_x3_same_key", True),
    ([[("get_or_create", "counter", 1)], [("delete", "counter", 1)]], "c06_goc_delete", False),
]


def trusted_base_check(e3):
    """the abstract-map model is only valid if the shard maps hash with the same function as `Hashable` for Key
    (hashbrown re-hashes stored keys with the map's own hasher when a table grows)"""
    import re
    P = _e3.program(["metrics-util"])
    tys = set()
    for n, b in P.bodies.items():
        if "registry/mod.rs" in n and n.endswith("get_or_create_counter"):
            for t in b.locals.values():
                m = re.search(r"hashbrown::HashMap<K, [^,]*(?:<[^>]*>)*[^,]*(?:, ([^>]*(?:<[^>]*>)?))?>", t)
                if m and "RwLock" in t:
                    tys.add(t)
    ok = bool(tys) and all("BuildHasherDefault<metrics::KeyHasher>" in t or "BuildHasherDefault<KeyHasher>" in t for t in tys)
    MAP_HASHER_IS_KEY_HASHER[0] = ok
    o = Obligation("c06_map_model:hasher_of_the_shard_maps", "mirsmt", "which hash function the shard maps themselves use (hashbrown re-inserts stored keys under it when a table grows, and HashMap::remove / "
                   "or_insert_with hash with it): read off the MIR types", "syntactic check on the MIR types")
    o.queries = 1
    o.status = "pass"
    o.detail = ("the shard maps are declared with BuildHasherDefault<KeyHasher>: the map's own hash of a key equals Hashable::hashable()" if ok else
                f"the shard maps are NOT declared with the key's hasher ({sorted(tys)[:1]}): the map's own hash of a key is modelled as an unrelated function")
    e3.res.obligations.append(o)


def run(tier, seed, t0):
    e3 = _e3.E3("C06")
    trusted_base_check(e3)
    for ops, nm, fresh in SCEN + (SCEN_T if tier == "thorough" else []):
        if os.environ.get("VERIF_C06_ONLY"):
            continue
        try:
            scenario(e3, ops, nm, fresh)
        except _e3.ENC_ERRORS as ex:
            e3.error(nm, "MIR->SMT encoding of metrics_util::registry", ex)
    for ops, nm in LISTINGS:
        if os.environ.get("VERIF_C06_ONLY") and os.environ["VERIF_C06_ONLY"] not in nm:
            continue
        try:
            listing(e3, ops, nm)
        except _e3.ENC_ERRORS as ex:
            e3.error(nm, "MIR->SMT encoding of the registry's whole-map operations", ex)
    # the registry finds a key by Key::get_hash() and then by Eq: "keys are compared by key equality regardless of how they were built"
    # needs equal keys to hash alike. Decided on the compiled code (Kani); the full Eq/Ord/Hash agreement is C03's subject.
    import kani, c03
    hs = [h for h in c03.HARNESSES if h.name in ("c03_same_name_two_labels", "c03_extra_labels_hash")]
    obs = list(e3.res.obligations) + kani.run_group("core", hs, "quick", hooks=True, stubbing=True)
    finish("C06", tier, seed, obs, t0, ASSUME + ["E3 callee models: " + ", ".join(sorted(e3.models))], sorted(e3.functions),
           explanation="MIR->SMT partial-order encoding of Registry::{get_or_create_*, get_*, delete_*} over sharded abstract maps with a lock-word model of RwLock")


def replay(path):
    if path.endswith((".vals", ".random")):
        import _kprop
        return _kprop.replay(path)
    import replay_e3
    status, out = replay_e3.run("c06", path)
    print(status, out)
    return 1 if status == "reproduced" else 0

"""C07 Prometheus output reports exactly what was recorded, each sample once (conservation chain up to the snapshot that render() prints)."""
import z3
from common import *
import _e3
from mirsmt import sym, models, check, models_str as MS, models_coll as MC
from mirsmt.sym import Ptr, Agg, Enum, Native, Fork, UNIT, bv, Opaque, TailCall
from c19 import m_deref_arc

ASSUME = ["reduced scope: the chain record -> bucket -> drain_histograms_to_distributions -> Inner.distributions -> Snapshot (what render() prints) and the counter/gauge snapshot, for sequential histories; "
          "the text of render() for a given snapshot is C08's subject; concurrent record-during-render is C05's subject (K3/K4)",
          "registry, recency (every metric is recent), atomic bucket (clear_with hands over everything recorded so far, once), HashMap/IndexMap/RwLock by their contracts; keys, names and label sets are abstract identities "
          "(key_to_parts maps a key to name_of(key), labels_of(key); its own behaviour is checked in C08)",
          "Distribution::record_samples folds every sample it is given (count += n); the numeric bucket/quantile contents are C15's subject",
          "fixed history shapes of <= 7 calls; values symbolic"]


def world():
    P = _e3.program(["metrics-exporter-prometheus"])
    name_of = z3.Function("name_of", z3.IntSort(), z3.IntSort())
    labels_of = z3.Function("labels_of", z3.IntSort(), z3.IntSort())

    def kid(eng, ctx, k):
        k = MC.load(eng, ctx, k)
        if isinstance(k, Native) and k.kind == "akey":
            return k.data
        raise sym.Unsupported(f"abstract key expected, got {k}")

    def m_handles(kind):
        return lambda eng, ctx, f, path, args, dty: ctx.statics["reg_" + kind]

    def m_get_inner(eng, ctx, f, path, args, dty):
        g = MC.load(eng, ctx, args[0])
        if not (isinstance(g, Native) and g.kind == "gen"):
            raise sym.Unsupported(f"Generational::get_inner on {g}")
        return Ptr(("static", g.data))

    def m_key_to_parts(eng, ctx, f, path, args, dty):
        i = kid(eng, ctx, args[0])
        return Agg({0: Native("aname", name_of(i)), 1: Native("alabels", labels_of(i))})

    def m_write_lock(eng, ctx, f, path, args, dty):
        ctx.statics["write_locked"] = True
        return MC.m_lock(eng, ctx, f, path, args, dty)

    def m_drop(eng, ctx, f, v, ty):
        if ty and "RwLockWriteGuard" in ty:
            ctx.statics["write_locked"] = False
        return None

    def m_clear_with(eng, ctx, f, path, args, dty):
        ctx.observe("detach", locked=bool(ctx.statics.get("write_locked")))
        p = args[0]
        while isinstance(p, Ptr) and isinstance(eng.load_ptr(ctx, p), Ptr):
            p = eng.load_ptr(ctx, p)
        cur = eng.load_ptr(ctx, p)
        if not (isinstance(cur, Native) and cur.kind == "lvec"):
            raise sym.Unsupported(f"clear_with on {cur}")
        eng.store_ptr(ctx, p, MS.lvec(()))
        return TailCall(args[1], [cur])

    def m_record_samples(eng, ctx, f, path, args, dty):
        ctx.observe("merge", locked=bool(ctx.statics.get("write_locked")))
        d = eng.load_ptr(ctx, args[0])
        s = MC.load(eng, ctx, args[1])
        if not (isinstance(d, Native) and d.kind == "adist" and isinstance(s, Native) and s.kind == "lvec"):
            raise sym.Unsupported(f"record_samples({d}, {s})")
        for x in s.data:
            ctx.observe("folded", sample=x)
        eng.store_ptr(ctx, args[0], Native("adist", d.data + tuple(s.data)))
        return UNIT
    m = {r"^std::sync::RwLock::write$|^RwLock::write$": m_write_lock, "__drop__": m_drop}
    m.update(MC.COLL)
    m.update({
        r"get_counter_handles$": m_handles("Counter"), r"get_gauge_handles$": m_handles("Gauge"), r"get_histogram_handles$": m_handles("Histogram"),
        r"^Generational::get_generation$": lambda *a: Opaque("generation"), r"^Generational::get_inner$": m_get_inner,
        r"should_store_(counter|gauge|histogram)$": lambda *a: z3.BoolVal(True),
        r"^key_to_parts$": m_key_to_parts, r"^sanitize_metric_name$": lambda eng, ctx, f, path, args, dty: MC.load(eng, ctx, args[0]),
        r"^KeyName::as_str$|^String::as_str$|^<String as Deref>::deref$": lambda eng, ctx, f, path, args, dty: MC.load(eng, ctx, args[0]),
        r"AtomicBucketInstant::clear_with$|AtomicBucket::clear_with$": m_clear_with,
        r"^Distribution::record_samples$|distribution::Distribution::record_samples$": m_record_samples,
        r"^DistributionBuilder::get_distribution$": lambda *a: Native("adist", ()),
        r"^<Arc as Deref>::deref$": m_deref_arc, r"f64::from_bits$": models.m_identity,
        r"as Clone>::clone$|as ToOwned>::to_owned$": lambda eng, ctx, f, path, args, dty: MC.deep_copy(ctx, MC.load(eng, ctx, args[0])),
        r"as Iterator>::next$": MS.m_next, r"as IntoIterator>::into_iter$": MC.m_into_iter,
        r"^Vec::new$|^Vec::with_capacity$": lambda *a: MS.lvec(()),
        r"^Vec::push$": lambda eng, ctx, f, path, args, dty: (eng.store_ptr(ctx, args[0], MS.lvec(tuple(MC.load(eng, ctx, args[0]).data) + (args[1],))), UNIT)[1],
        r"^Vec::extend_from_slice$": lambda eng, ctx, f, path, args, dty: (eng.store_ptr(ctx, args[0], MS.lvec(tuple(MC.load(eng, ctx, args[0]).data) + tuple(MC.load(eng, ctx, args[1]).data))), UNIT)[1],
        r"^<Vec as Deref>::deref$|^Vec::as_slice$": lambda eng, ctx, f, path, args, dty: MC.load(eng, ctx, args[0]),
        r"^Vec::clear$": lambda eng, ctx, f, path, args, dty: (eng.store_ptr(ctx, args[0], MS.lvec(())), UNIT)[1],
        r"^Vec::is_empty$": lambda eng, ctx, f, path, args, dty: z3.BoolVal(len(MC.load(eng, ctx, args[0]).data) == 0),
        r"^Vec::len$": lambda eng, ctx, f, path, args, dty: bv(len(MC.load(eng, ctx, args[0]).data)),
    })
    m.update(models.BASE)
    return P, m, name_of, labels_of


def run_history(e3, name, steps, expect_fn):
    """steps: ('record', sample term) | ('set_counter', v) | ('set_gauge', v) | ('recent',) | ('upkeep',) | ('describe', name term, desc term, unit value)"""
    P, m, name_of, labels_of = world()
    eng = sym.Engine(P, models=m, loop_bound=6, max_paths=5000)
    eng.merging = False
    ctx0 = sym.Ctx(eng, 1)
    KH, KC, KG = z3.IntVal(1), z3.IntVal(2), z3.IntVal(3)
    ctx0.statics = {"hist_bucket": MS.lvec(()), "counter_cell": bv(0), "gauge_cell": bv(0),
                    "h_handle": Native("gen", "hist_bucket"), "c_handle": Native("gen", "counter_cell"), "g_handle": Native("gen", "gauge_cell"),
                    "reg_Histogram": MC.kmap(((Native("akey", KH), "h_handle"),)), "reg_Counter": MC.kmap(((Native("akey", KC), "c_handle"),)), "reg_Gauge": MC.kmap(((Native("akey", KG), "g_handle"),)),
                    "inner": Agg({0: Opaque("registry"), 1: Opaque("recency"), 2: MC.kmap(), 3: Opaque("builder"), 4: MC.kmap(), 5: Opaque("global_labels"), 6: z3.BoolVal(False)})}
    ctx0.statics["rec"] = Agg({0: Ptr(("static", "inner"))})
    recent_b = P.find("Inner", "get_recent_metrics")
    upkeep_b = P.find("Inner", "run_upkeep")
    desc_b = P.find("PrometheusRecorder", "add_description_if_missing")
    ip = Ptr(("static", "inner"))

    def script():
        snaps = []
        for st in steps:
            if st[0] == "record":
                cur = yield ("getstatic", "hist_bucket")
                yield ("setstatic", "hist_bucket", MS.lvec(tuple(cur.data) + (st[1],)))
            elif st[0] == "set_counter":
                yield ("setstatic", "counter_cell", st[1])
            elif st[0] == "set_gauge":
                yield ("setstatic", "gauge_cell", st[1])
            elif st[0] == "recent":
                s = yield ("call", recent_b, [ip])
                # read the snapshot's nested maps while their cells are at hand
                flat = {}
                for fld, nm in ((0, "counters"), (1, "gauges"), (2, "distributions")):
                    top = s.f[fld]
                    rows = []
                    for k, cell in top.data:
                        inner_map = yield ("getstatic", cell)
                        for k2, cell2 in inner_map.data:
                            v = yield ("getstatic", cell2)
                            rows.append((k, k2, v))
                    flat[nm] = rows
                snaps.append(flat)
            elif st[0] == "upkeep":
                yield ("call", upkeep_b, [ip])
            elif st[0] == "describe":
                yield ("call", desc_b, [Ptr(("static", "rec")), Native("aname", st[1]), st[2], st[3]])
        inner = yield ("getstatic", "inner")
        descs = []
        for k, cell in inner.f[4].data:
            v = yield ("getstatic", cell)
            descs.append((k, v))
        return Native("result", (snaps, descs))
    leaves = eng.run_script(1, name, script, ctx0=ctx0)
    e3.absorb(eng)
    done = [l for l in leaves if l.status == "done"]
    other = z3.Or(*[l.taken() for l in leaves if l.status != "done"] or [z3.BoolVal(False)])
    rows = {}
    for l in done:
        snaps, descs = l.ret.data
        for pname, pdesc, viol in expect_fn(snaps, descs, l, eng, name_of, labels_of):
            rows.setdefault(pname, [pdesc, []])[1].append(z3.And(l.taken(), viol))
    bounds = f"history {[st[0] for st in steps]} on one histogram, one counter and one gauge; values symbolic; {len(done)} paths"
    specs = [dict(name=f"{name}:witness", desc="the history completes", bounds=bounds, cons=[z3.Or(*[l.taken() for l in done] or [z3.BoolVal(False)])], expect_unsat=False),
             dict(name=f"{name}:returns", desc="a call panics or exceeds a loop bound", bounds=bounds, cons=[other], expect_unsat=True)]
    def on_model(ob, model):
        inputs = {}
        for d in model.decls():
            if d.arity() == 0:
                try:
                    inputs[d.name()] = model[d].as_long()
                except Exception:
                    pass
        ob.sample = {"history": [st[0] for st in steps], "symbolic_inputs": {k: inputs[k] for k in sorted(inputs)[:12]}}
        import replay_e3
        os.makedirs(os.path.join(REPLAYS, "C07"), exist_ok=True)
        pp = os.path.join(REPLAYS, "C07", f"{name}.{ob.name.split(':')[1]}.plan")
        open(pp, "w").write(replay_e3.plan_text(name, ob.name.split(":")[1], {}, [], {k: v for k, v in inputs.items() if v >= 0}))
        if "one_write_lock" in ob.name:
            # the sequential encoding shows the drain touching the bucket / the distribution outside the lock; natively this is
            # exhibited by a render() that runs between another drainer's detach and its merge
            open(pp, "w").write("scenario c07_lock\nviolated %s\nthread 1 upkeep\nthread 2 render\nsched 1 2 2 2 1\n" % ob.name.split(":")[1])
        status, out = replay_e3.run("c07", pp)
        ob.detail += f" | native replay (c07, public recorder/handle API + strict parser): {status}"
        ob.sample["native_replay"] = {"status": status, "output": out[-500:]}
        ob.replay = pp
        ob.reproduced = status == "reproduced"
        if not ob.reproduced:
            ob.status = "error"
            ob.detail += " — counterexample did NOT reproduce natively: treated as an encoder/model problem, not reported as a violation"
    for pname, (pdesc, conds) in rows.items():
        specs.append(dict(name=f"{name}:{pname}", desc=pdesc, bounds=bounds, cons=[z3.Or(*conds)], expect_unsat=True, on_model=on_model))
    check.discharge_many(e3.res, specs, 120)


def scen_conservation(e3):
    s = [z3.BitVec(f"s{i}", 64) for i in range(3)]
    c1, g1 = z3.BitVec("c1", 64), z3.BitVec("g1", 64)
    steps = [("record", s[0]), ("set_counter", c1), ("set_gauge", g1), ("recent",), ("record", s[1]), ("upkeep",), ("upkeep",), ("recent",), ("recent",), ("record", s[2]), ("recent",)]
    expected_counts = [1, 2, 2, 3]

    def expect(snaps, descs, l, eng, name_of, labels_of):
        out = []
        bad_count = z3.BoolVal(False)
        bad_val = z3.BoolVal(False)
        for sn, want in zip(snaps, expected_counts):
            d = sn["distributions"]
            if len(d) != 1 or not (isinstance(d[0][2], Native) and d[0][2].kind == "adist"):
                bad_count = z3.BoolVal(True)
                continue
            got = d[0][2].data
            if len(got) != want:
                bad_count = z3.BoolVal(True)
            else:
                bad_count = z3.Or(bad_count, z3.Not(z3.And(*[a == b for a, b in zip(got, s[:want])])))
            cs, gs = sn["counters"], sn["gauges"]
            if len(cs) != 1 or len(gs) != 1:
                bad_val = z3.BoolVal(True)
            else:
                bad_val = z3.Or(bad_val, cs[0][2] != c1, gs[0][2] != g1)
        folded = [pl["sample"] for lab, e, pl in l.obs if lab == "folded"]
        once = z3.And(*[z3.Sum(*[z3.If(x == t, 1, 0) for x in folded] + [z3.IntVal(0), z3.IntVal(0)]) == 1 for t in s]) if True else None
        # samples are compared by value: make them pairwise different so that "exactly once" is about the samples themselves
        distinct = z3.And(s[0] != s[1], s[1] != s[2], s[0] != s[2])
        unlocked = [lab for lab, e, pl in l.obs if lab in ("detach", "merge") and not pl["locked"]]
        out_lock = ("samples_leave_the_bucket_and_enter_the_distribution_under_one_write_lock", "samples are taken out of the bucket or folded into the distribution while the distributions write lock is not held: "
                    "a concurrent render or upkeep can then see them in neither place", z3.BoolVal(bool(unlocked)))
        return [out_lock, ("histogram_count_is_number_of_samples_recorded", "a snapshot's distribution for the key does not hold exactly the samples recorded so far (lost, duplicated or reordered by render/upkeep interleavings)", bad_count),
                ("every_sample_folded_exactly_once", "a recorded sample is folded into the distribution twice or never", z3.And(distinct, z3.Not(once))),
                ("counter_and_gauge_show_the_current_value", "the snapshot's counter or gauge value is not the storage's value", bad_val)]
    run_history(e3, "c07_conservation", steps, expect)


def scen_descriptions(e3):
    d1, d2 = Native("adesc", z3.Int("d1")), Native("adesc", z3.Int("d2"))
    u1 = Enum(z3.BitVec("u1d", 64), {}, "Option")
    u2 = Enum(z3.BitVec("u2d", 64), {}, "Option")
    n = z3.IntVal(9)
    steps = [("describe", n, d1, u1), ("describe", n, d2, u2)]

    def expect(snaps, descs, l, eng, name_of, labels_of):
        if len(descs) != 1:
            return [("first_description_wins", "the description map does not hold exactly one entry for the name", z3.BoolVal(True))]
        k, v = descs[0]
        ok = z3.BoolVal(False)
        if isinstance(v, Agg) and isinstance(v.f.get(0), Native) and isinstance(v.f.get(1), Enum):
            du = v.f[1].discr if not isinstance(v.f[1].discr, int) else bv(v.f[1].discr)
            ok = z3.And(v.f[0].data == d1.data, du == u1.discr)
        return [("first_description_wins", "HELP/unit for a name are not the first ones given", z3.And(d1.data != d2.data, z3.Not(ok)))]
    run_history(e3, "c07_first_description_wins", steps, expect)


def scen_global_labels(e3):
    """PrometheusBuilder::add_global_label stores the label under the name it was given (key_to_parts matches key labels against
    global labels by that raw name: C08 checks that a key label of the same raw name replaces the global one)"""
    P, m, name_of, labels_of = world()

    def m_get_or_insert_with(eng, ctx, f, path, args, dty):
        p = args[0]
        e = eng.load_ptr(ctx, p)
        if isinstance(e, Enum) and isinstance(e.discr, int) and e.discr == 0:
            eng.store_ptr(ctx, p, Enum(1, {1: Agg({0: MC.kmap()})}, "Option"))
        return Ptr(p.root, p.path + (("variant", "Some"), 0))
    m = dict(m)
    san = z3.Function("sanitized", z3.IntSort(), z3.IntSort())       # sanitisation may change a name: nothing is assumed about it

    def m_sanitize(eng, ctx, f, path, args, dty):
        v = MC.load(eng, ctx, args[0])
        if isinstance(v, Native) and v.kind == "astr":
            return Native("astr", san(v.data))
        raise sym.Unsupported(f"sanitize of {v}")
    m2 = {r"Option::get_or_insert_with$": m_get_or_insert_with, r"as Into>::into$": models.m_identity, r"^sanitize_label_key$|^sanitize_metric_name$|^sanitize_label_value$": m_sanitize}
    m2.update(m)
    eng = sym.Engine(P, models=m2, loop_bound=4)
    eng.merging = False
    b = P.find("PrometheusBuilder", "add_global_label")
    k1, v1, k2, v2 = (Native("astr", z3.Int(x)) for x in ("name1", "value1", "name2", "value2"))
    ctx0 = sym.Ctx(eng, 1)
    builder = Agg({i: Opaque(f"field{i}") for i in range(16)})
    builder.f[10] = Enum(0, {}, "Option")

    def script():
        b1 = yield ("call", b, [builder, k1, v1])
        b2 = yield ("call", b, [b1, k2, v2])
        gl = b2.f[10]
        rows = []
        if isinstance(gl, Enum) and gl.discr == 1:
            for k, cell in gl.v[1].f[0].data:
                v = yield ("getstatic", cell)
                rows.append((k, v))
        return Native("rows", tuple(rows))
    leaves = eng.run_script(1, "add_global_label x2", script, ctx0=ctx0)
    e3.absorb(eng)
    done = [l for l in leaves if l.status == "done"]
    other = z3.Or(*[l.taken() for l in leaves if l.status != "done"] or [z3.BoolVal(False)])
    bad = []
    for l in done:
        rows = l.ret.data
        ok = []
        try:
            names = [k.data for k, v in rows]
            vals = [v.data for k, v in rows]
            same = k1.data == k2.data
            if len(rows) == 1:
                ok = z3.And(same, names[0] == k1.data, vals[0] == v2.data)
            elif len(rows) == 2:
                ok = z3.And(z3.Not(same), names[0] == k1.data, vals[0] == v1.data, names[1] == k2.data, vals[1] == v2.data)
            else:
                ok = z3.BoolVal(False)
        except AttributeError:
            ok = z3.BoolVal(False)
        bad.append(z3.And(l.taken(), z3.Not(ok)))
    def on_model(ob, model):
        import replay_e3
        ob.sample = {"note": "the stored name differs from the given one for some name (e.g. one that sanitisation changes); replayed with the global label `service.name` and a key label of the same name"}
        os.makedirs(os.path.join(REPLAYS, "C07"), exist_ok=True)
        pp = os.path.join(REPLAYS, "C07", "c07_global_labels.plan")
        open(pp, "w").write(replay_e3.plan_text("c07_global_labels", ob.name.split(":")[1], {}, [], {}))
        status, out = replay_e3.run("c07", pp)
        ob.detail += f" | native replay (c07, builder + render + strict parser): {status}"
        ob.sample["native_replay"] = {"status": status, "output": out[-500:]}
        ob.replay = pp
        ob.reproduced = status == "reproduced"
        if not ob.reproduced:
            ob.status = "error"
            ob.detail += " — counterexample did NOT reproduce natively: treated as an encoder/model problem, not reported as a violation"
    bounds = f"PrometheusBuilder::add_global_label called twice with symbolic names and values (possibly the same name); {len(done)} paths"
    specs = [dict(name="c07_global_labels:witness", desc="returns", bounds=bounds, cons=[z3.Or(*[l.taken() for l in done] or [z3.BoolVal(False)])], expect_unsat=False),
             dict(name="c07_global_labels:returns", desc="panics", bounds=bounds, cons=[other], expect_unsat=True),
             dict(name="c07_global_labels:stored_under_the_given_name_latest_value_wins", desc="a global label is not stored under exactly the name given (which key labels are matched against), or an earlier value survives a later one",
                  bounds=bounds, cons=[z3.Or(*bad or [z3.BoolVal(False)])], expect_unsat=True, on_model=on_model)]
    check.discharge_many(e3.res, specs, 60)


def run(tier, seed, t0):
    e3 = _e3.E3("C07")
    for nm, fn in (("c07_conservation", scen_conservation), ("c07_first_description_wins", scen_descriptions), ("c07_global_labels", scen_global_labels)):
        try:
            fn(e3)
        except _e3.ENC_ERRORS as ex:
            e3.error(nm, "MIR->SMT encoding of the Prometheus recorder's aggregation chain", ex)
    # what render() prints for a counter / gauge series is the stored value, in a form that reads back exactly (C08's render encoding)
    try:
        import c08
        c08.render(e3, False, kinds=("counter", "gauge"))
    except _e3.ENC_ERRORS as ex:
        e3.error("c08_render_values", "MIR->SMT character-level encoding of Inner::render", ex)
    # the unit-suffix finding K5 belongs to C08 (it is recorded and reported there): C07 keeps the other obligations of the encoding
    e3.res.obligations[:] = [o for o in e3.res.obligations if "K5_unit_suffix" not in o.name]
    try:
        import prom_int
        prom_int.scen_ageing(e3, "C07", "c07")
    except _e3.ENC_ERRORS as ex:
        e3.error("c07_summary_across_quiet_time", "MIR->SMT integration encoding of the Prometheus recorder", ex)
    # a summary's cumulative _count is the number of samples ever folded in, in whatever order a drain hands them over
    # (clear_with yields the newest storage block first, so timestamps within one drain are not monotone)
    try:
        import c15
        for k, batch, nb in ([(3, True, 2)] if tier == "quick" else [(3, True, 2), (3, True, 3), (3, False, 2)]):
            c15.rolling_window(e3, k, batch, nb, ordered=False)
    except _e3.ENC_ERRORS as ex:
        e3.error("c15_window_anyorder", "MIR->SMT encoding of Distribution::record_samples / RollingSummary", ex)
    finish("C07", tier, seed, list(e3.res.obligations), t0, ASSUME + ["E3 callee models: " + ", ".join(sorted(e3.models))], sorted(e3.functions),
           explanation="MIR->SMT encoding of record / get_recent_metrics / run_upkeep histories of the Prometheus recorder against sample conservation")


def replay(path):
    import replay_e3
    status, out = replay_e3.run("c08" if "/C08/" in path else ("c15" if ("summary_across" in path or "/C15/" in path) else "c07"), path)
    print(status, out)
    return 1 if status == "reproduced" else 0

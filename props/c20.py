"""C20 A recoverable recorder is live until recovered, inert and dropped once after."""
import z3
from common import *
import kani, _kprop, _e3
from mirsmt import sym, conc, models, models_arc
from mirsmt.sym import Ptr, Agg, Enum, Native, bv, Opaque

FUNCS_E1 = ["metrics_util::RecoverableRecorder::install (failure path)", "metrics_util::recoverable::RecoveryHandle::into_inner"]
HARNESSES = [kani.H("c20_install_fails", "with a global recorder already set, install() hands the original recorder back intact and undropped; the existing recorder stays in place", "one thread", 300, functions=FUNCS_E1)]
ASSUME = ["E3: std Arc/Weak modelled as a strong counter (upgrade = atomic increment-if-nonzero, try_unwrap = CAS 1->0, drop = decrement, last one finalises); std's own implementation is trusted",
          "E3: the wrapped recorder's methods are modelled as enter / read recorder state / exit",
          "E3: into_inner's retry loop is an await (fair scheduler); bounds: <=2 emitting threads, one recovery",
          "E3: sequential consistency + release/acquire race relation on the recorder state"]
TAG = 0x5EC0DE


def scenario(e3, n_emit, recover, name, ordered=False):
    P = _e3.program(["metrics-util"])
    m = dict(models_arc.ARC_MODELS)
    m[r"^<(Arc|R) as Recorder>::(register|describe)_\w+$"] = models_arc.recorder_call(None, None, None)
    m.update(models.BASE)
    eng = sym.Engine(P, models=m, loop_bound=2, await_fns=[r"::into_inner$"])
    reg_b = [b for b in P.by_last["register_counter"] if "recoverable.rs" in b.name][0]
    desc_b = [b for b in P.by_last["describe_gauge"] if "recoverable.rs" in b.name][0]
    into_b = P.find("RecoveryHandle", "into_inner")
    c0 = sym.Ctx(eng, 0)
    eng.thread_names[0] = "setup"
    arc = c0.alloc("ArcInner", {(0,): (64, bv(1)), (1,): (64, bv(TAG))})
    eng.leaves[0] = [sym.Leaf(c0, "done")]
    weakrec = Agg({0: Ptr(("obj", arc))})
    emitters = list(range(1, n_emit + 1))
    rec_t = n_emit + 1
    for i in emitters:
        def script(i=i):
            yield ("setstatic", "weakrec", weakrec)
            if i % 2 == 1:
                r = yield ("call", reg_b, [Ptr(("static", "weakrec")), Opaque("key"), Opaque("metadata")])
            else:
                r = yield ("call", desc_b, [Ptr(("static", "weakrec")), Opaque("keyname"), Opaque("unit"), Opaque("desc")])
            return r
        eng.run_script(i, f"emitter{i}", script)

    def rec_script():
        if recover == "into_inner":
            r = yield ("call", into_b, [Agg({0: Ptr(("obj", arc))})])
            return r
        yield ("dropval", Agg({0: Ptr(("obj", arc))}), "RecoveryHandle<R>")
        return None
    eng.run_script(rec_t, "recover:" + recover, rec_script)
    sc = conc.Scenario(eng, name)
    for t in emitters + [rec_t]:
        sc.thread_order(0, t)
    if ordered:
        for t in emitters:
            sc.thread_order(t, rec_t)
    sc.build()
    clk = sc.clock
    ev = eng.events
    enters = [e for e in ev if e.kind == "O" and e.label == "enter"]
    exits = [e for e in ev if e.kind == "O" and e.label == "exit"]
    recovered = [e for e in ev if e.kind == "O" and e.label == "recovered"]
    finals = [e for e in ev if e.kind == "O" and e.label == "finalize"]
    ends = recovered + finals      # the moment the recorder leaves the wrapper / its finalisation begins
    inside, after = [], []
    for en in enters:
        ex = [x for x in exits if x.tid == en.tid and sc.may_precede(en, x)]
        for u in ends:
            after.append(z3.And(en.guard, u.guard, clk[u.id] < clk[en.id]))
            for x in ex:
                inside.append(z3.And(en.guard, x.guard, u.guard, clk[en.id] < clk[u.id], clk[u.id] < clk[x.id]))
    nfin = z3.IntVal(0)
    for e in finals:
        nfin = nfin + z3.If(e.guard, 1, 0)
    payload = {}
    for ls in eng.leaves.values():
        for l in ls:
            for lab, e, pay in l.obs:
                payload[e.id] = pay
    wrong_state = [z3.And(x.guard, payload[x.id]["value"] != bv(TAG)) for x in exits]
    props = [
        ("not_recovered_or_finalised_while_an_emission_is_inside", "into_inner returns / finalisation begins while a call is executing inside the recorder", z3.Or(*inside) if inside else z3.BoolVal(False), None),
        ("no_call_enters_after_recovery_or_finalisation", "a call enters the recorder after into_inner returned or after its finalisation began", z3.Or(*after) if after else z3.BoolVal(False), None),
        ("recorder_state_intact_during_calls", "a call executing inside the recorder sees finalised state", z3.Or(*wrong_state) if wrong_state else z3.BoolVal(False), None),
        ("no_panic", "an operation can panic", sc.reach("panic"), None),
    ]
    if recover == "into_inner":
        bad = [z3.And(e.guard, payload[e.id]["value"] != bv(TAG)) for e in recovered]
        props.append(("into_inner_returns_the_original_recorder", "into_inner returns something else than the original recorder, or the recorder is also finalised by the library",
                      z3.Or(*(bad + [nfin != 0])), None))
    else:
        props.append(("dropped_exactly_once", "after the handle is dropped and all emissions ended the recorder was not finalised exactly once", nfin != 1, None))
    if ordered:
        props.append(("live_until_recovered", "an emission that completed before recovery started did not reach the recorder",
                      z3.Not(z3.And(*[z3.Or(*[en.guard for en in enters if en.tid == t]) for t in emitters])), None))
    race, extra = sc.race_condition()
    props.append(("no_data_race_on_recorder_state", "recorder state accessed concurrently with its finalisation / move-out", race, extra))
    roles = {t: f"emitter {'register' if t % 2 == 1 else 'describe'}" for t in emitters}
    roles[rec_t] = recover
    e3.standard(sc, eng, name, f"{n_emit} emitting thread(s) || {recover}{' (emissions complete first)' if ordered else ''}; every interleaving; {sc.stats}", props,
                replayer=_e3.native_replayer("C20", "c20", roles, {}))


SCEN = [(1, "into_inner", "c20_emit_into_inner", False), (1, "handle_drop", "c20_emit_handle_drop", False), (1, "into_inner", "c20_emit_then_into_inner", True)]
SCEN_T = [(2, "into_inner", "c20_2emit_into_inner", False), (2, "handle_drop", "c20_2emit_handle_drop", False)]


def run(tier, seed, t0):
    e3 = _e3.E3("C20")
    for n, rec, nm, ordd in SCEN + (SCEN_T if tier == "thorough" else []):
        try:
            scenario(e3, n, rec, nm, ordd)
        except _e3.ENC_ERRORS as ex:
            e3.error(nm, "MIR->SMT encoding of metrics_util::recoverable", ex)
    obs = list(e3.res.obligations)
    obs += kani.run_group("util", HARNESSES, tier, hooks=True)
    finish("C20", tier, seed, obs, t0, ASSUME + ["E3 callee models: " + ", ".join(sorted(e3.models))], sorted(e3.functions) + FUNCS_E1,
           explanation="MIR->SMT partial-order encoding of WeakRecorder emissions against into_inner / handle drop over a model of Arc/Weak + Kani harness for the failed-install path")


def replay(path):
    if path.endswith(".vals"):
        return _kprop.replay(path)
    import replay_e3
    status, out = replay_e3.run("c20", path)
    print(status, out)
    return 1 if status == "reproduced" else 0

"""Helper: a property decided by Kani harness groups."""
from common import *
import kani, re


def run_kani(pid, tier, seed, t0, groups, assume, funcs, explanation, extra_obs=None):
    """groups: list of (group, harnesses, dict(hooks=,stubbing=))"""
    obs = []
    for g, hs, kw in groups:
        obs += kani.run_group(g, hs, tier, **kw)
    if extra_obs:
        obs += extra_obs
    finish(pid, tier, seed, obs, t0, assume, funcs, explanation=explanation)


def replay(path, hooks=True):
    m = re.search(r"harness=(\S+) group=(\S+)", open(path).read())
    if path.endswith(".random"):
        import subprocess
        bins = kani.build_replay(m.group(2).rstrip(":"), hooks)
        rc = [subprocess.run([b, m.group(1), "--random", "20000", "1"], capture_output=True, text=True).returncode for b in bins.values() if b]
        print(rc)
        return 1 if 1 in rc else 0
    rr = kani.run_replay_file(m.group(2), m.group(1), path, hooks)
    print(rr)
    return 1 if any(v.startswith("reproduced") for v in rr.values()) else 0

"""C01 Emissions reach exactly the recorder in scope, never one whose scope ended."""
import z3
from common import *
import _e3
from mirsmt import sym, models, models_rec, check
from mirsmt.sym import Ptr, Native, bv

ASSUME = ["scenario programs are Rust functions in /verif/mirharness (nested with_local_recorder closures, guards dropped in LIFO / solver-chosen order, leaked guard, panic unwinding through a scope, global fall-through); only their MIR is executed, together with the MIR of metrics::recorder",
          "thread-locals: LocalKey::with calls the closure on a per-thread cell (the language guarantee that a thread-local is not visible to other threads is not re-checked); Cell/NonNull as plain cells",
          "dyn Recorder dispatch is observed by the identity of the receiving recorder object; a ghost list of live local installations (innermost last) is the oracle",
          "macro forms: the expansions of counter!/gauge!/histogram!/describe_*! at the call sites of mirharness::m_forms / m_dynamic are executed (statics they create included); Key/Label constructors are abstract "
          "(they record the name and the label list they are given: that Key keeps what it is given is C03/C14's subject); label forms with non-literal keys/values (`expr => expr`, vec! allocation) are not covered",
          "one thread; nesting depth <= 3"]
LOCALS = (1, 2, 3)


def run_scenario(e3, name, calls):
    P = _e3.program(["metrics"], harness=True)
    m = dict(models_rec.REC_MODELS)
    m.update(models.BASE)
    eng = sym.Engine(P, models=m)
    eng.tls_init = {}
    eng.drop_impls = True
    eng.const_override = {"LOCAL_RECORDER": Native("localkey", "LOCAL_RECORDER"), "FALLBACK_RECORDER": Native("localkey", "FALLBACK_RECORDER")}
    ctx0 = sym.Ctx(eng, 1)
    ids = {}
    for i in LOCALS:
        ids[i] = ctx0.alloc(f"Rec{i}", {(): (64, bv(i))})
        eng.static_objs[f"rec{i}"] = Ptr(("obj", ids[i]))
    cell = ctx0.alloc("RecorderOnceCell", {(0,): ("ptr", z3.IntVal(0)), (1,): (64, bv(0))})
    eng.static_objs["GLOBAL_RECORDER"] = Ptr(("obj", cell))
    noop = ctx0.alloc("NoopRecorder", {(): (64, bv(0))})
    eng.static_objs["NOOP_RECORDER"] = Ptr(("obj", noop))
    bodies = [P.find_fn(c) for c in calls]

    def script():
        rets = []
        for b in bodies:
            r = yield ("call", b, [])
            rets.append(r)
        return rets
    leaves = eng.run_script(1, name, script, ctx0=ctx0)
    e3.absorb(eng)
    return eng, leaves, ids, noop


def dispatches(leaves):
    out, seen = [], set()
    for l in leaves:
        for lab, e, pay in l.obs:
            if lab == "dispatch" and e.id not in seen:
                seen.add(e.id)
                out.append((e, pay))
    out.sort(key=lambda x: x[0].id)
    return out


def scope_props(eng, leaves, ids, noop):
    """violations of 'innermost live local recorder, else not a local one' per dispatch"""
    idterm = lambda i: z3.IntVal(ids[i])
    wrong, after_end = [], []
    for e, pay in dispatches(leaves):
        top, rec = pay["top"], pay["rec"]
        expect_local = z3.Or(*[z3.And(top == i, rec == idterm(i)) for i in LOCALS])
        is_local = z3.Or(*[rec == idterm(i) for i in LOCALS])
        wrong.append(z3.And(e.guard, z3.If(top == 0, is_local, z3.Not(expect_local))))
        ended = pay["ended"]
        for i in LOCALS:
            # bit i of the 'ended' bit set (kept as an Int sum of distinct powers of two)
            after_end.append(z3.And(e.guard, rec == idterm(i), (ended / (1 << i)) % 2 == 1))
    return z3.Or(*wrong) if wrong else z3.BoolVal(False), z3.Or(*after_end) if after_end else z3.BoolVal(False)


def rf_constraints(eng):
    """sequential scenario: heap reads (global cell) see the latest write in program order"""
    from mirsmt import conc
    sc = conc.Scenario(eng, "seq")
    sc.build()
    return sc


def scenario(e3, name, calls, desc, known=None, known_cond=None):
    eng, leaves, ids, noop = run_scenario(e3, name, calls)
    sc = rf_constraints(eng)
    base = list(sc.cons)
    done = z3.Or(*[l.taken() for l in leaves if l.status == "done"])
    wrong, after_end = scope_props(eng, leaves, ids, noop)
    bad_leaf = z3.Or(*[l.taken() for l in leaves if l.status != "done"] or [z3.BoolVal(False)])
    n_emit = len(dispatches(leaves))
    nd = list(eng.nd)
    bounds = f"program {' ; '.join(calls)} with {len(nd)} solver-chosen branch(es); {n_emit} dispatch sites; nesting <= 3"
    specs = [dict(name=f"{name}:witness", desc="the scenario runs to completion", bounds=bounds, cons=base + [done], expect_unsat=False),
             dict(name=f"{name}:no_panic_no_unwound", desc="the scenario can panic or exceed the loop bound", bounds=bounds, cons=base + [bad_leaf], expect_unsat=True)]
    kc = known_cond(nd) if known_cond else None
    excl = [z3.Not(kc)] if kc is not None else []

    def mk_on_model(pname):
        def on_model(ob, model):
            import replay_e3
            vals = {f"nd{i}": (1 if z3.is_true(model.eval(b, model_completion=True)) else 0) for i, b in enumerate(nd)}
            ob.sample = {"scenario": name, "violated": pname, "nd": vals,
                         "dispatches": [{"rec": str(model.eval(p["rec"], model_completion=True)), "expected_top": str(model.eval(p["top"], model_completion=True))}
                                        for e, p in dispatches(leaves) if z3.is_true(model.eval(e.guard, model_completion=True))]}
            os.makedirs(os.path.join(REPLAYS, "C01"), exist_ok=True)
            pp = os.path.join(REPLAYS, "C01", f"{name}.{pname}.plan")
            open(pp, "w").write(replay_e3.plan_text(name, pname, {1: " ".join(calls)}, [], vals))
            status, out = replay_e3.run("c01", pp)
            ob.detail += f" | native replay (c01): {status}"
            ob.sample["native_replay"] = {"status": status, "output": out[-500:]}
            ob.replay = pp
            ob.reproduced = status == "reproduced"
            if not ob.reproduced:
                ob.status = "error"
            elif known and pname.startswith("K"):
                ob.status, ob.known_key = "known", known
        return on_model
    specs.append(dict(name=f"{name}:dispatch_to_innermost_live_recorder", desc=desc + ": an emission is dispatched to another recorder than the innermost live local one (or to a local one when none is live)",
                      bounds=bounds, cons=base + excl + [done, wrong], expect_unsat=True, on_model=mk_on_model("dispatch_to_innermost_live_recorder")))
    specs.append(dict(name=f"{name}:no_dispatch_after_scope_end", desc="an emission is dispatched to a recorder after the borrow that installed it has ended",
                      bounds=bounds, cons=base + excl + [done, after_end], expect_unsat=True, on_model=mk_on_model("no_dispatch_after_scope_end")))
    if kc is not None:
        pn = "K_" + known.split(":")[1].replace("-", "_")
        specs.append(dict(name=f"{name}:{pn}", desc="known finding: " + known, bounds=bounds, cons=base + [kc, done, z3.Or(wrong, after_end)], expect_unsat=True, on_model=mk_on_model(pn)))
    out = check.discharge_many(e3.res, specs, 120)
    out[0][0].functions = sorted(eng.functions_executed)


def global_scenario(e3):
    """s_global: expected dispatch sequence noop, global, rec1, global, global"""
    name = "c01_global_fallthrough"
    eng, leaves, ids, noop = run_scenario(e3, name, ["s_global"])
    sc = rf_constraints(eng)
    base = list(sc.cons)
    done = z3.Or(*[l.taken() for l in leaves if l.status == "done"])
    ds = dispatches(leaves)
    boxes = [e.obj for e in eng.events if e.label == "init:Box"]
    wrong, after_end = scope_props(eng, leaves, ids, noop)
    # order of the enabled dispatches = creation order; position k = number of enabled dispatches before it
    conds = []
    for k, (e, pay) in enumerate(ds):
        pos = z3.IntVal(0)
        for e2, _ in ds[:k]:
            pos = pos + z3.If(e2.guard, 1, 0)
        rec = pay["rec"]
        is_global = z3.Or(*[rec == b for b in boxes]) if boxes else z3.BoolVal(False)
        exp = z3.If(pos == 0, rec == noop, z3.If(pos == 2, rec == ids[1], is_global))
        conds.append(z3.And(e.guard, z3.Not(exp)))
    nemit = z3.IntVal(0)
    for e, _ in ds:
        nemit = nemit + z3.If(e.guard, 1, 0)
    bounds = "emit; set_global_recorder; emit; with_local_recorder(rec1){emit}; emit; [second set_global_recorder]; emit"
    def on_model(ob, model, pname="fallthrough_local_global_noop"):
        import replay_e3
        vals = {f"nd{i}": (1 if z3.is_true(model.eval(b, model_completion=True)) else 0) for i, b in enumerate(eng.nd)}
        ob.sample = {"scenario": name, "nd": vals}
        os.makedirs(os.path.join(REPLAYS, "C01"), exist_ok=True)
        pp = os.path.join(REPLAYS, "C01", f"{name}.{pname}.plan")
        open(pp, "w").write(replay_e3.plan_text(name, pname, {1: "s_global"}, [], vals))
        status, out = replay_e3.run("c01", pp)
        ob.detail += f" | native replay (c01): {status}"
        ob.sample["native_replay"] = {"status": status, "output": out[-400:]}
        ob.replay = pp
        ob.reproduced = status == "reproduced"
        if not ob.reproduced:
            ob.status = "error"
    specs = [dict(name=f"{name}:witness", desc="the scenario runs to completion", bounds=bounds, cons=base + [done], expect_unsat=False),
             dict(name=f"{name}:fallthrough_local_global_noop", on_model=on_model, desc="precedence local > global > no-op violated: an emission before the installation does not go to the no-op recorder, one after it not to the global recorder, or one inside the local scope not to the local recorder",
                  bounds=bounds, cons=base + [done, z3.Or(*conds)], expect_unsat=True),
             dict(name=f"{name}:exactly_once", desc="an emission is dispatched zero or several times", bounds=bounds, cons=base + [done, nemit != 5], expect_unsat=True),
             dict(name=f"{name}:no_dispatch_after_scope_end", desc="dispatch to the local recorder after its scope", bounds=bounds, cons=base + [done, after_end], expect_unsat=True)]
    check.discharge_many(e3.res, specs, 120)


def global_late_scenario(e3):
    """s_global_late: expected dispatch sequence rec1, rec2, rec2, global"""
    name = "c01_global_installed_late"
    eng, leaves, ids, noop = run_scenario(e3, name, ["s_global_late"])
    sc = rf_constraints(eng)
    base = list(sc.cons)
    done = z3.Or(*[l.taken() for l in leaves if l.status == "done"])
    ds = dispatches(leaves)
    boxes = [e.obj for e in eng.events if e.label == "init:Box"]
    wrong, after_end = scope_props(eng, leaves, ids, noop)
    # order of the enabled dispatches = creation order; position k = number of enabled dispatches before it
    conds = []
    for k, (e, pay) in enumerate(ds):
        pos = z3.IntVal(0)
        for e2, _ in ds[:k]:
            pos = pos + z3.If(e2.guard, 1, 0)
        rec = pay["rec"]
        is_global = z3.Or(*[rec == b for b in boxes]) if boxes else z3.BoolVal(False)
        exp = z3.If(pos == 0, rec == ids[1], z3.If(pos <= 2, rec == ids[2], is_global))
        conds.append(z3.And(e.guard, z3.Not(exp)))
    nemit = z3.IntVal(0)
    for e, _ in ds:
        nemit = nemit + z3.If(e.guard, 1, 0)
    bounds = "with_local_recorder(rec1){emit}; guard = set_default_local_recorder(rec2); emit; set_global_recorder; emit; drop(guard); emit"
    def on_model(ob, model, pname="fallthrough_local_global_noop"):
        import replay_e3
        vals = {f"nd{i}": (1 if z3.is_true(model.eval(b, model_completion=True)) else 0) for i, b in enumerate(eng.nd)}
        ob.sample = {"scenario": name, "nd": vals}
        os.makedirs(os.path.join(REPLAYS, "C01"), exist_ok=True)
        pp = os.path.join(REPLAYS, "C01", f"{name}.{pname}.plan")
        open(pp, "w").write(replay_e3.plan_text(name, pname, {1: "s_global_late"}, [], vals))
        status, out = replay_e3.run("c01", pp)
        ob.detail += f" | native replay (c01): {status}"
        ob.sample["native_replay"] = {"status": status, "output": out[-400:]}
        ob.replay = pp
        ob.reproduced = status == "reproduced"
        if not ob.reproduced:
            ob.status = "error"
    specs = [dict(name=f"{name}:witness", desc="the scenario runs to completion", bounds=bounds, cons=base + [done], expect_unsat=False),
             dict(name=f"{name}:fallthrough_local_global_noop", on_model=on_model, desc="precedence local > global > no-op violated: an emission before the installation does not go to the no-op recorder, one after it not to the global recorder, or one inside the local scope not to the local recorder",
                  bounds=bounds, cons=base + [done, z3.Or(*conds)], expect_unsat=True),
             dict(name=f"{name}:exactly_once", desc="an emission is dispatched zero or several times", bounds=bounds, cons=base + [done, nemit != 4], expect_unsat=True),
             dict(name=f"{name}:no_dispatch_after_scope_end", desc="dispatch to the local recorder after its scope", bounds=bounds, cons=base + [done, after_end], expect_unsat=True)]
    check.discharge_many(e3.res, specs, 120)


def macro_forms(e3):
    """Every argument form of counter!/gauge!/histogram!/describe_*! (one call site per function in /verif/mirharness, expected delivery in
    mirharness::FORMS), and call sites with a computed name reached twice with different names. The recorder double must receive, per
    call site, exactly one call: that operation with the name, labels (in order), level, target, unit and description spelled there."""
    import re
    from mirsmt import models_str as MS, models_coll as MC
    from mirsmt.sym import Agg, Enum, Opaque, UNIT
    src = open(os.path.join(VERIF, "mirharness", "src", "lib.rs")).read()
    tbl = src[src.index("pub const FORMS"):]
    tbl = tbl[:tbl.index("];")]
    forms = [tuple(m) for m in re.findall(r'\("([^"]*)", "([^"]*)", "([^"]*)", "([^"]*)", "([^"]*)", "([^"]*)", "([^"]*)"\)', tbl)]
    P = _e3.program(["metrics"], harness=True)
    units = P.enums.get("Unit", [])
    levels = ["TRACE", "DEBUG", "INFO", "WARN", "ERROR"]

    def ld(eng, ctx, v):
        return MC.load(eng, ctx, v)

    def text(eng, ctx, v):
        v = ld(eng, ctx, v)
        if isinstance(v, Enum) and v.name == "Option":
            return None if v.discr == 0 else text(eng, ctx, v.v[1].f[0])
        items = MS.as_items(eng, ctx, v)
        if not all(z3.is_bv_value(z3.simplify(x)) for x in items):
            raise sym.Unsupported(f"text of {v}")
        return "".join(chr(z3.simplify(x).as_long()) for x in items)

    def labels_of(eng, ctx, v):
        v = ld(eng, ctx, v)
        if isinstance(v, Agg):
            return tuple(ld(eng, ctx, v.f[k]) for k in sorted(v.f))
        if isinstance(v, Native) and v.kind == "lvec":
            return tuple(ld(eng, ctx, x) for x in v.data)
        raise sym.Unsupported(f"label list {v}")

    def m_key(with_labels):
        def h(eng, ctx, f, path, args, dty):
            return Native("mkey", {"name": ld(eng, ctx, args[0]), "labels": labels_of(eng, ctx, args[1]) if with_labels else ()})
        return h

    def m_dispatch(eng, ctx, f, path, args, dty):
        op = path.split("::")[-1]
        row = {"op": op, "rec": models_rec.rec_id(eng, ctx, args[0])}
        if op.startswith("register"):
            k = ld(eng, ctx, args[1])
            md = ld(eng, ctx, args[2])
            if not (isinstance(k, Native) and k.kind == "mkey"):
                raise sym.Unsupported(f"key handed to the recorder: {k}")
            row["name"] = text(eng, ctx, k.data["name"])
            row["labels"] = ",".join(f"{text(eng, ctx, l.data[0])}={text(eng, ctx, l.data[1])}" for l in k.data["labels"])
            lvl = md.f[1]
            while isinstance(lvl, Agg) and len(lvl.f) == 1:
                lvl = list(lvl.f.values())[0]
            row["level"] = levels[lvl.discr] if isinstance(lvl, Enum) and isinstance(lvl.discr, int) and 0 <= lvl.discr < 5 else str(lvl)
            row["target"] = text(eng, ctx, md.f[0])
            row["module"] = text(eng, ctx, md.f[2])
            row["unit"], row["desc"] = "", ""
        else:
            row["name"] = text(eng, ctx, args[1])
            u = ld(eng, ctx, args[2])
            if isinstance(u, Enum) and isinstance(u.discr, int) and u.discr == 1:
                uv = u.v[1].f[0]
                row["unit"] = units[uv.discr].lower() if isinstance(uv, Enum) and isinstance(uv.discr, int) and uv.discr < len(units) else str(uv)
            else:
                row["unit"] = ""
            row["desc"] = text(eng, ctx, args[3])
            row["labels"], row["level"], row["target"] = "", "", ""
        ctx.observe("delivered", **row)
        return Opaque("handle") if op.startswith("register") else UNIT
    m = dict(models_rec.REC_MODELS)
    m.update({r"^<dyn Recorder as Recorder>::\w+$|^<dyn recorder::Recorder as recorder::Recorder>::\w+$": m_dispatch,
              r"Key::from_static_name$|Key::from_name$": m_key(False), r"Key::from_static_parts$|Key::from_static_labels$|Key::from_parts$": m_key(True),
              r"Label::from_static_parts$|Label::new$": lambda eng, ctx, f, path, args, dty: Native("mlabel", (ld(eng, ctx, args[0]), ld(eng, ctx, args[1]))),
              r" as Into>::into$|KeyName::from_const_str$|Cow::const_str$|^<String as From>::from$": lambda eng, ctx, f, path, args, dty: ld(eng, ctx, args[0]),
              r"^<(Counter|Gauge|Histogram|Key) as Drop>::drop$": lambda *a: UNIT})
    m.update(models.BASE)
    eng = sym.Engine(P, models=m, max_paths=2000)
    eng.tls_init = {}
    eng.drop_impls = False
    eng.const_override = {"LOCAL_RECORDER": Native("localkey", "LOCAL_RECORDER"), "FALLBACK_RECORDER": Native("localkey", "FALLBACK_RECORDER")}
    ctx0 = sym.Ctx(eng, 1)
    rid = ctx0.alloc("Rec1", {(): (64, bv(1))})
    eng.static_objs["rec1"] = Ptr(("obj", rid))
    cell = ctx0.alloc("RecorderOnceCell", {(0,): ("ptr", z3.IntVal(0)), (1,): (64, bv(0))})
    eng.static_objs["GLOBAL_RECORDER"] = Ptr(("obj", cell))
    noop = ctx0.alloc("NoopRecorder", {(): (64, bv(0))})
    eng.static_objs["NOOP_RECORDER"] = Ptr(("obj", noop))
    bodies = [P.find_fn("m_forms"), P.find_fn("m_dynamic")]

    def script():
        for b in bodies:
            yield ("call", b, [])
        return None
    leaves = eng.run_script(1, "c01_macro_forms", script, ctx0=ctx0)
    e3.absorb(eng)
    sc = rf_constraints(eng)
    base = list(sc.cons)
    done = [l for l in leaves if l.status == "done"]
    other = z3.Or(*[l.taken() for l in leaves if l.status != "done"] or [z3.BoolVal(False)])
    bad = []
    detail = []
    for l in done:
        rows = [pl for lab, e, pl in l.obs if lab == "delivered"]
        got = [(r["op"], r["name"], r["labels"], r["level"], r["target"], r["unit"], r["desc"]) for r in rows]
        wrong = [(i, g, w) for i, (g, w) in enumerate(zip(got, forms)) if g != w]
        mods = [r["module"] for r in rows if r["op"].startswith("register") and r.get("module") != "mirharness"]
        to_other = [r for r in rows if not (z3.is_int_value(z3.simplify(r["rec"])) and z3.simplify(r["rec"]).as_long() == rid)]
        if wrong or len(got) != len(forms) or mods or to_other:
            bad.append(l.taken())
            detail.append({"delivered": len(got), "expected": len(forms), "first_differences": [{"call_site": i, "delivered": g, "spelled": w} for i, g, w in wrong[:4]]})
    name = "c01_macro_forms"
    bounds = f"{len(forms)} call sites covering every argument form of counter!/gauge!/histogram!/describe_*! (literal and computed names, literal labels, level:, target:, unit), inside with_local_recorder; computed-name sites reached twice with different names"

    def on_model(ob, model):
        import replay_e3
        ob.sample = {"scenario": name, "differences": detail[:2]}
        os.makedirs(os.path.join(REPLAYS, "C01"), exist_ok=True)
        pp = os.path.join(REPLAYS, "C01", f"{name}.plan")
        open(pp, "w").write(replay_e3.plan_text(name, ob.name.split(":")[1], {1: "m_forms m_dynamic"}, [], {}))
        status, out = replay_e3.run("c01", pp)
        ob.detail += f" | native replay (c01, the same call sites natively with recording doubles): {status}"
        ob.sample["native_replay"] = {"status": status, "output": out[-600:]}
        ob.replay = pp
        ob.reproduced = status == "reproduced"
        if not ob.reproduced:
            ob.status = "error"
    specs = [dict(name=f"{name}:witness", desc="the call sites run", bounds=bounds, cons=base + [z3.Or(*[l.taken() for l in done] or [z3.BoolVal(False)])], expect_unsat=False),
             dict(name=f"{name}:no_panic", desc="a call site panics", bounds=bounds, cons=base + [other], expect_unsat=True),
             dict(name=f"{name}:delivered_exactly_once_as_spelled", desc="a call site's emission does not reach the recorder in scope exactly once with the name, labels, level, target, unit and description spelled there",
                  bounds=bounds, cons=base + [z3.Or(*bad) if bad else z3.BoolVal(False)], expect_unsat=True, on_model=on_model)]
    check.discharge_many(e3.res, specs, 120)


def run(tier, seed, t0):
    e3 = _e3.E3("C01")
    try:
        scenario(e3, "c01_nested_closures", ["s_nested", "emit"], "nested with_local_recorder closures (depth <= 3, inner scopes optional)")
        scenario(e3, "c01_guards_lifo", ["s_guards_lifo", "emit"], "set_default_local_recorder guards dropped last-in-first-out")
        scenario(e3, "c01_guards_any_order", ["s_guards_any_order", "emit"], "two guards dropped in a solver-chosen order",
                 known="C01:K1-guard-dropped-while-a-later-guard-is-alive", known_cond=lambda nd: nd[0])
        scenario(e3, "c01_guard_forget", ["s_guard_forget", "emit"], "a guard leaked with mem::forget",
                 known="C01:K2-guard-leaked-with-mem-forget", known_cond=lambda nd: z3.BoolVal(True))
        scenario(e3, "c01_panic_in_scope", ["s_panic_in_scope", "end_scope2", "emit"], "a panic unwinding through a with_local_recorder scope restores the previous recorder")
        global_scenario(e3)
    except _e3.ENC_ERRORS as ex:
        e3.error("c01", "MIR->SMT encoding of metrics::recorder scoping", ex)
    try:
        global_late_scenario(e3)
    except _e3.ENC_ERRORS as ex:
        e3.error("c01_global_installed_late", "MIR->SMT encoding of metrics::recorder scoping", ex)
    try:
        macro_forms(e3)
    except _e3.ENC_ERRORS as ex:
        e3.error("c01_macro_forms", "MIR->SMT encoding of the macro expansions", ex)
    finish("C01", tier, seed, list(e3.res.obligations), t0, ASSUME + ["E3 callee models: " + ", ".join(sorted(e3.models))], sorted(e3.functions),
           explanation="MIR->SMT sequential encoding of scenario programs (Rust, /verif/mirharness) over LocalRecorderGuard::{new,drop}, with_local_recorder, with_recorder, set_global_recorder with a ghost scope stack as oracle")


def replay(path):
    import replay_e3
    status, out = replay_e3.run("c01", path)
    print(status, out)
    return 1 if status == "reproduced" else 0
